#!/usr/bin/env python3
"""keepseed.py <ID> <sfx> <name> <caught: yes|no|after-strengthening> [note]: store a verified seeded change"""
import json, os, shutil, sys, re
pid, sfx, name, caught = sys.argv[1:5]
note = sys.argv[5] if len(sys.argv) > 5 else ""
src = os.environ.get("OUT", "/tmp/seedout-%s" % sfx)
dst = "/verif/seeded/%s" % name
shutil.rmtree(dst, ignore_errors=True)
os.makedirs(dst)
for f in os.listdir(src):
    p = os.path.join(src, f)
    if os.path.isfile(p) and os.path.getsize(p) < 2_000_000:
        shutil.copy(p, dst)
log = open("/tmp/seedtest-%s.log" % sfx).read()
def grab(k):
    m = re.findall(r"^%s=(\S+)" % k, log, re.M)
    return m[-1] if m else None
meta = {}
mp = os.path.join(dst, "meta.json")
if os.path.exists(mp):
    try:
        meta = json.load(open(mp))
    except Exception:
        meta = {"raw": open(mp).read()}
meta["property"] = pid
meta["verified_by_coordinator"] = {
    "repo_head": os.popen("git -C /repo rev-parse --short HEAD").read().strip(),
    "demo_on_unchanged_build_exit": grab("DEMO_BASE"), "demo_on_changed_build_exit": grab("DEMO_MUT"),
    "changed_tree_builds": grab("BUILD") == "0", "ctest_on_changed_tree": "201/201 passed" if "100% tests passed" in log else "see log",
    "check_exit_on_changed_tree": grab("CHECK_%s" % pid), "violations_reported": len(re.findall(r"^VIOLATION property", log, re.M)),
    "caught": caught, "note": note,
    "ran": ["tools/seedtest.sh %s %s  (apply patch in scratch worktree, build, ctest, demo.sh on both builds, VERIF_REPO=<worktree> ./check %s)" % (pid, sfx, pid)]}
json.dump(meta, open(mp, "w"), indent=1)
print("kept", dst, meta["verified_by_coordinator"]["caught"])
