#!/bin/bash
# reseed_all.sh [jobs] [name-pattern]: regression of the check suite against every stored seeded change.
# For each seeded/<name>/patch.diff: scratch worktree of /repo's HEAD under /tmp, apply, run the quick tier of the
# property's check with VERIF_REPO=<worktree>, expect exit 1 + VIOLATION.  Evidence of these runs goes to a scratch
# directory (VERIF_EVIDENCE_DIR), never to /verif/evidence.  Result table: /tmp/reseed/summary.txt
JOBS=${1:-3}; PAT=${2:-.}
R=/tmp/reseed; rm -rf $R; mkdir -p $R/ev
HEAD=$(git -C /repo rev-parse HEAD)
one() {
  name=$1; id=${name%%-*}; wt=/tmp/reseed/wt-$name
  git -C /repo worktree add -q --detach $wt $HEAD 2>/dev/null || { echo "$name WORKTREE-FAIL"; return; }
  if ! git -C $wt apply /verif/seeded/$name/patch.diff 2>/dev/null; then
    if ! (cd $wt && patch -p1 -s -F3 < /verif/seeded/$name/patch.diff >/dev/null 2>&1); then echo "$name PATCH-STALE"; git -C /repo worktree remove --force $wt; return; fi
  fi
  ( cd /verif; VERIF_REPO=$wt VERIF_CACHE_KEEP=40 VERIF_JOBS=6 VERIF_EVIDENCE_DIR=$R/ev/$name timeout 2400 ./check $id --tier quick > $R/$name.log 2>&1; echo $? > $R/$name.exit )
  ex=$(cat $R/$name.exit); nv=$(grep -c '^VIOLATION' $R/$name.log)
  if [ "$ex" = 1 ] && [ "$nv" -gt 0 ]; then echo "$name CAUGHT violations=$nv"; else echo "$name MISSED exit=$ex violations=$nv"; fi
  git -C /repo worktree remove --force $wt
}
export -f one; export R HEAD
(if [ -f "$PAT" ]; then cat "$PAT"; else ls /verif/seeded | grep -E "$PAT"; fi) | xargs -P $JOBS -I{} bash -c 'one {}' | tee $R/summary.txt
git -C /repo worktree prune
echo "caught: $(grep -c CAUGHT $R/summary.txt)  missed: $(grep -c MISSED $R/summary.txt)  stale: $(grep -c STALE $R/summary.txt)"
