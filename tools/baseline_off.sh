#!/bin/sh
# Build /repo's working tree with repository defaults (guard ASL_VERIF off) in a scratch directory and run the
# repository's own test suite; prints the ctest summary.  Exit status = ctest's.
set -e
D=$(mktemp -d /tmp/asl-verif-baseline-XXXXXX)
trap 'rm -rf "$D"' EXIT
cmake -G Ninja -S /repo -B "$D" >/dev/null
cmake --build "$D" -j"$(nproc)" >/dev/null 2>&1
cd "$D" && ctest -j8 --timeout 900 --output-junit "$D/junit.xml" | tail -5
