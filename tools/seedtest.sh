#!/bin/bash
# seedtest.sh <ID> [seed-dir-suffix]: verify a seeded change and run the check against it.
# uses worktree /tmp/seed-<sfx> and output dir /tmp/seedout-<sfx>; baseline build in /tmp/seedbase/_b
ID=$1; SFX=${2:-$1}
WT=${WT:-/tmp/seed-$SFX}; OUT=${OUT:-/tmp/seedout-$SFX}; LOG=/tmp/seedtest-$SFX.log
exec >$LOG 2>&1
set -x
HEAD=$(git -C /repo rev-parse HEAD)
git -C $WT checkout -q -- . ; git -C $WT checkout -q --detach $HEAD || exit 9
# baseline build (shared)
if [ ! -x /tmp/seedbase/_b/asl ] || [ "$(cat /tmp/seedbase/HEAD 2>/dev/null)" != "$HEAD" ]; then
  ( flock 9; if [ "$(cat /tmp/seedbase/HEAD 2>/dev/null)" != "$HEAD" ]; then rm -rf /tmp/seedbase; mkdir -p /tmp/seedbase; git -C /repo archive $HEAD | tar -x -C /tmp/seedbase; cmake -G Ninja -S /tmp/seedbase -B /tmp/seedbase/_b >/dev/null && cmake --build /tmp/seedbase/_b -j8 >/dev/null 2>&1; echo $HEAD > /tmp/seedbase/HEAD; fi ) 9>/tmp/seedbase.lock
fi
cd $OUT
echo "== demo on unchanged build"; bash ./demo.sh /tmp/seedbase/_b; echo "DEMO_BASE=$?"
git -C $WT apply $OUT/patch.diff || { echo "PATCH_APPLY=fail"; exit 8; }
rm -rf $WT/_b; cmake -G Ninja -S $WT -B $WT/_b >/dev/null && cmake --build $WT/_b -j8 >/dev/null 2>&1; echo "BUILD=$?"
(cd $WT/_b && ctest -j8 2>&1 | tail -3); 
echo "== demo on changed build"; bash ./demo.sh $WT/_b; echo "DEMO_MUT=$?"
rm -rf $WT/_b
cd /verif
for c in $ID ${EXTRA_CHECKS}; do
  echo "== check $c on changed tree"; VERIF_REPO=$WT VERIF_CACHE_KEEP=40 VERIF_EVIDENCE_DIR=/tmp/seedev-$SFX timeout 2400 ./check $c 2>&1 | grep -E "VIOLATION|KNOWN-FINDING|SPEC-DRIFT|CHECK-ERROR|^\[C" | cut -c1-400 | head -12; echo "CHECK_$c=${PIPESTATUS[0]}"
done
git -C $WT checkout -q -- .
echo DONE
