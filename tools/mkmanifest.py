#!/usr/bin/env python3
"""Assemble MANIFEST.json from manifest.d/*.json (one file per claimed property) + manifest.d/_base.json."""
import glob, json, os
V = os.path.dirname(os.path.dirname(os.path.abspath(__file__)))
base = json.load(open(os.path.join(V, "manifest.d", "_base.json")))
checks = []
claimed = set()
for p in sorted(glob.glob(os.path.join(V, "manifest.d", "C*.json"))):
    c = json.load(open(p))
    checks.append(c)
    claimed.add(c["property_id"])
base["checks"] = checks
import subprocess
try:
    log = subprocess.run(["git", "-C", "/repo", "log", "--format=%H %s"], stdout=subprocess.PIPE).stdout.decode().splitlines()
    base["hooks"]["source_commits"] = [l.split()[0] for l in log if " verif hooks:" in " " + l.split(" ", 1)[1]][::-1]
except Exception:
    pass
for e in base.get("engines", []):
    e["serves_properties"] = sorted(claimed)
na = json.load(open(os.path.join(V, "manifest.d", "_not_applicable.json")))
props = [json.loads(l)["id"] for l in open(os.path.join(V, "properties.jsonl")) if l.strip()]
base["not_applicable"] = [x for x in na if x["property_id"] not in claimed]
missing = [p for p in props if p not in claimed and p not in {x["property_id"] for x in base["not_applicable"]}]
for p in missing:
    base["not_applicable"].append({"property_id": p, "reason": "check not built yet in this round (planned, see DESIGN.md)"})
json.dump(base, open(os.path.join(V, "MANIFEST.json"), "w"), indent=1)
print("claimed:", sorted(claimed), "not_applicable:", [x["property_id"] for x in base["not_applicable"]])
