#!/usr/bin/env python3
"""flip_fixed.py <property> <id-prefix> <commit subject>: mark known findings as fixed (coordinator tool)."""
import json, sys, subprocess
pid, prefix, subject = sys.argv[1], sys.argv[2], sys.argv[3]
import glob
paths = sorted(glob.glob('/verif/known_findings/*.json'))
log = subprocess.run(["git", "-C", "/repo", "log", "--format=%h %s"], stdout=subprocess.PIPE).stdout.decode().splitlines()
commit = next((l.split()[0] for l in log if subject in l), None)
assert commit, "no commit with subject containing %r" % subject
n = 0
for p in paths:
    d = json.load(open(p))
    ch = False
    for f in d['findings']:
        if f.get('property') == pid and f['id'].startswith(prefix) and f['status'] == 'known':
            f['status'] = 'fixed'
            f['commit'] = commit
            w = f.get('what', '')
            if not w.startswith('fixed:'):
                f['what'] = 'fixed: property=%s %s %s' % (pid, commit, w)
            n += 1
            ch = True
    if ch:
        json.dump(d, open(p, 'w'), indent=1)
print(pid, prefix, '->', n, 'entries fixed by', commit)
