"""C14 extension (phase "isa8051"): the Intel MCS-51 (8051 / 8052) instruction set, /repo/code51.c.

Specification (all verdict-relevant knowledge is TLA+):
  spec/Isa8051.tla        the instruction set written from the manufacturer's definition, NOT from code51.c, twice:
                          Forms = the 111 instructions by operand form (A, Rn, @Ri, direct, #data, #data16, bit, /bit, rel,
                          addr11, addr16, DPTR, @A+DPTR, @A+PC, C, AB; IsaCommon form records: encoder IsaCommon!Encode) and
                          MnTab / LenTab = the opcode map 00..FF by rows (mnemonic and length of each opcode, A5 undefined);
                          Decode(bytes, pc) (unique form that matches + operands, branch operands as target addresses),
                          HwTarget (what the CPU does with a branch: rel counted from the FOLLOWING instruction, AJMP /
                          ACALL inside the 2K page of the FOLLOWING instruction, addr16 high byte first), BitAddrOf (which
                          bytes are bit addressable: 20H..2FH and the SFRs divisible by 8)
  spec/Isa8051_Gen.tla    IsaGen over the table + the checks particular to this ISA; Isa8051_Hist.tla = + IsaHist (context
                          statement in front of every leaf); statement addresses in slices (TLA+ Cpu constant "8051:a".."d")
  spec/Isa8051X.tla       what the assembler's notation adds: bit operands written byte.b (number, SFR / SFRB symbol, BIT
                          symbol), the generic JMP / CALL of the manual (declarative: an instruction of the option list that
                          lands on the operand, none that reaches it is shorter; operational: first of SJMP / AJMP / LJMP)
  spec/Isa8051_Trace.tla  (V) golden programs t_mic51 / t_bas52 explained by the table
(M) once per TLC run, on the table: forms well formed, ids unique; EVERY defined opcode starts exactly one form and A5 none
    (bijection opcode <-> (form, register operand) on the 255 opcodes); mnemonic and length of that form = MnTab / LenTab;
    every form has an opcode; 111 instructions (49 / 46 / 16 by length); byte.b <-> bit address is a bijection 32 x 8 <-> 256.
    At every leaf of the case graph: UnitsTyped, DecodeInverts, OutOfRangeIsError (IsaGen), DecodeRoundTrip (Decode(Encode(i)) = i
    and no other form matches), LengthAsPublished, TargetReached (a branch statement is accepted iff the CPU can reach the
    target that way - page of pc + 2, -128..127 from pc + length - and HwTarget(bytes) = the operand).
    Isa8051X per case: BitMeaning, JmpMeaning (admissible set = reaching options of minimal length, operational choice in it,
    empty iff target > 0FFFFH), CtxSane.
(G)+(H) every leaf printed by TLC (operand classes of IsaGen: 0, 1, limits, limits +-1, convention zone, midpoint, bit
    patterns, mask probes, 2 interior; branches: every distance within K of both limits; addr11: page edges +-1, other pages,
    0, 0FFFFH, 10000H) with its context statement is rendered as `cpu 8051` source (`org` for PC-dependent forms) and
    assembled by the real asl through c14.replay_hist: bytes per line (emit events) AND code file = TLC's units; a rejected
    leaf must give an error and no bytes (screened in chunks, suspects alone, then in context).  Statement addresses:
    quick 07FEH 07FDH 0800H 07FFH 1234H (K = 1, 1 salt, ~37,000 statements); thorough + 0FFH 0F7FEH 0FF00H, K = 8, 2 salts,
    + CPU 8052 (all addresses, K = 1).
(X) Isa8051X cases, one source per case (definition line(s), context statement, statement): 12 bit instructions x 32 byte
    addresses (both windows +-1, 30H..3FH, SFRs divisible / not divisible by 8, > 0FFH, congruent modulo 256) x 8 bit numbers
    (0 1 6 7 8 9 15 16) x spelling (quick: rotating; thorough: all 4); JMP / CALL at 7 addresses x 33 targets (both displacement
    limits +-2, page edges +-2, other pages, 0, 0FFFFH, 10000H.., 20000H + n).  Where two options of the same length reach the
    target TLC prints both and the emitted bytes must be one of them.
(V) machine statements of t_mic51 (80515) and t_bas52 (8052) (stmt + emit events) validated by TLC against the table; a
    rejection is SPEC-DRIFT (first of all a slip in the table).  On the unchanged tree: 10,274 statements, all explained.

Not judged / not covered: 80C251 / DS80C390 instructions and modes, the 87C750 restrictions, the 80C504 AJMP anomaly, register
symbols (AR0.., USING), symbolic SFR names of STDDEF51.INC, forward references (the manual warns that JMP / CALL then need
more passes), targets below 0 or beyond 0FFFFH for relative branches near the ends of the memory (PC wrap: neither manual
settles it; statement addresses 80H..0FF7CH only), number spellings other than decimal, negative spellings of addresses
(convention zone: acceptance not judged, two's complement if accepted), contexts of more than one statement.
Manual vs. instruction set: the assembler manual (SFR and SFRB) calls 20h...3fh bit addressable, the hardware 20H..2FH; the
verdict follows the instruction set (C14: "as the target's instruction set defines"), the case has its own finding key.

Findings on the unchanged tree (known_findings/C14-isa8051.json, proposed_fixes/C14-8051-*.diff/.md):
  C14-8051-ajmp-page    AJMP / ACALL in the last two bytes of a 2K page: code51.c DecodeABranch compares the target with the page of
                        the instruction's OWN address (ChkSamePage(EProgCounter(), ..)) instead of the following instruction's:
                        `org 7feh / ajmp 800h` rejected, `org 7feh / ajmp 0` assembled to 01 00 (the CPU jumps to 0800H).  The
                        generic JMP / CALL in the same file use pc + 2 and are right.
  C14-8051-bit-notation `setb 30h.1` -> D2 81 without any message (= P0.1; bytes 30H..3FH are not bit addressable), `setb 81h.1` ->
                        D2 82 with warning 220 only (= bit 80H.2): DecodeBitAdr emits an aliased bit address.
Mutations of code51.c tried (scratch copies /tmp/g51-m1..3, each builds and passes ctest 201/201; full
`VERIF_REPO=/tmp/g51-mN VERIF_CACHE_KEEP=30 ./check C14 --tier quick`, every run exit 1):
  m1 DecodeDJNZ, register form: `AdrLong > 127` -> `> 128`            40 violations: `DJNZ Rn,<pc + 2 + 128>` assembles to D8+n 80
                                                                     (8 registers x 5 statement addresses; table leaves)
  m2 DecodeBitAdr (8051 branch): bit number UInt3 -> UInt4           926 violations: `clr 32.8` -> C2 08, `clr 0.9` -> C2 09 ...
                                                                     (bit numbers 8 9 15 x every byte class x spelling; Isa8051X)
  m3 DecodeJMP: `Dist <= 127` -> `Dist <= 128`                        7 violations: `jmp <pc + 130>` -> 80 80 where the specification
                                                                     prescribes AJMP / LJMP (one per statement address; Isa8051X)
With both proposed fixes applied (scratch copy, ctest 201/201) the phase reports nothing and hits no known finding.
Cost: quick 63-88 s wall measured at load average 80-150 (26 builders on the machine: the 4 parallel TLC JVMs 34-68 s,
7-14 s each on the quiet machine; replays 2-10 s each); thorough 383 s (11 TLC runs, ~395,000 statements).
"""
import os
import re
import shutil

from vlib import aslrun, isa, isa_hist, tlc, tracecheck
from vlib.common import CheckError, Phase, log, scratch, seed

PHASE_NAME = "isa8051"
NAME = "MCS-51"
SLICES = [("8051:a", "8051"), ("8051:b", "8051"), ("8051:c", "8051"), ("8051:d", "8051"), ("8052", "8052")]
CFG = isa.IsaCfg(NAME, "Isa8051_Gen", SLICES, quick=["8051:a", "8051:b", "8051:c"])
INVARIANTS = "UnitsTyped DecodeInverts OutOfRangeIsError DecodeRoundTrip LengthAsPublished TargetReached HDump"
GOLDEN = ("t_mic51", "t_bas52")
GOLDEN_CPUS = ("8051", "8052", "80515", "80517", "80C320", "80C501", "80C502", "80C504")


def _cfgdir():
    d = os.path.join(scratch(), "isa8051cfg")
    os.makedirs(d, exist_ok=True)
    return d


def gen_slice(cpu, k, salt, timeout=1500):
    """one TLC run: every leaf of the Isa8051_Gen graph of this slice with its context statement"""
    path = os.path.join(_cfgdir(), "Isa8051_Hist_%s_%d_%d.cfg" % (cpu.replace(":", "_"), k, salt))
    with open(path, "w") as f:
        f.write('CONSTANTS Cpu = "%s" K = %d Salt = %d Step = 1\nINIT SliceInit\nNEXT Next\nINVARIANTS %s\n'
                'CHECK_DEADLOCK FALSE\n' % (cpu, k, salt, INVARIANTS))
    r = tlc.must(tlc.run("Isa8051_Hist", path, workers=1, timeout=timeout, mem="4g", tags=("OUT",)),
                 "Isa8051_Hist(%s)" % cpu)
    if r.violation:
        raise CheckError("MCS-51 table / history model fails its own invariants: %s" % r.violation[:800])
    cases = [c for (t, c) in r.printed if t == "OUT"]
    if not cases:
        raise CheckError("Isa8051_Hist(%s) printed no cases" % cpu)
    return r, cases


def gen_x(salt, deep, timeout=900):
    path = os.path.join(_cfgdir(), "Isa8051X_%d.cfg" % salt)
    with open(path, "w") as f:
        f.write("CONSTANTS Salt = %d Deep = %s\nINIT Init\nNEXT Next\nINVARIANT XDump\nCHECK_DEADLOCK FALSE\n"
                % (salt, "TRUE" if deep else "FALSE"))
    r = tlc.must(tlc.run("Isa8051X", path, workers=1, timeout=timeout, mem="4g", tags=("OUT",)), "Isa8051X")
    if r.violation:
        raise CheckError("Isa8051X fails its own invariants: %s" % r.violation[:800])
    cases = [c for (t, c) in r.printed if t == "OUT"]
    if not cases:
        raise CheckError("Isa8051X printed no cases")
    return r, cases


# ------------------------------------------------------------------------------------------------ (X) replay
X_ACC_CHUNK = 300     # expected-accepted cases per source
X_CHUNK = 40          # expected-rejected cases per screening source


def x_lines(case, lines):
    """appends [org] / definition lines / [context statement] / statement; returns (statement line, context line or None,
    definition lines)"""
    if case["org"] >= 0:
        lines.append("\torg\t%d" % case["org"])
    dl = []
    for d in case["pre"]:
        lines.append("%s\t%s\t%s" % (d[0], d[1], d[2]))
        dl.append(len(lines))
    cln = None
    x = isa_hist.ctx_of(case)
    if x is not None:
        lines.append(isa.stmt_text(x))
        cln = len(lines)
    lines.append(isa.stmt_text(case))
    return len(lines), cln, dl


def x_source(cases):
    lines = ["\tcpu\t8051"]
    where = [x_lines(c, lines) for c in cases]
    return "\n".join(lines) + "\n", where


def x_observe(res, where):
    """what the run shows for one case: units of the statement and of its context, errors on their lines and on the
    definition lines, whether the operand drew a warning"""
    ln, cln, dl = where
    em, errs = isa.emitted_by_line(res.trace, CFG)
    lp = isa.last_pass(res.trace)
    warned = any(e["e"] == "diag" and e.get("pass") == lp and e["line"] in [ln] + dl and e.get("cls") == "warning"
                 for e in res.trace)
    o = {"em": em.get(ln, []), "errs": errs.get(ln, []), "xem": em.get(cln, []) if cln else [],
         "xerrs": errs.get(cln, []) if cln else [], "derrs": [n for l in dl for n in errs.get(l, [])], "warned": warned}
    if o["derrs"]:
        # the operand is written in the definition line: an error there rejects it.  The assembly stops after this pass;
        # what the statement emitted for the (then undefined, "forward") symbol never reaches a code file
        o["em"], o["errs"] = [], (o["derrs"] if res.rc != 0 and res.p is None else [])
    return o


XGROUPS = {}


def x_key(case, kind, warned=False):
    g = ("bit-notation" if case["sp"] else "generic-jmp-call", case["zone"] or "-", kind)
    XGROUPS[g] = XGROUPS.get(g, 0) + 1
    return {"isa": NAME, "ext": "bit-notation" if case["sp"] else "generic-jmp-call", "form": case["id"], "kind": kind,
            "zone": case["zone"], "spelling": case["sp"], "warned": bool(warned),
            "pc_low": case["pc"] % 256 if case["pc"] >= 0 else -1}


def decide_x(case, o, rc):
    """the same decisions as c14.judge (expected units / expected rejection) on a case of Isa8051X, the context statement
    first (it is a legal statement of the table): None if the case shows what TLC printed, else (kind, text, warned)"""
    x = isa_hist.ctx_of(case)
    if x is not None and (o["xerrs"] or o["xem"] != x["units"]):
        return ("context", "context statement '%s' assembled to %s (errors %s), the instruction set prescribes %s"
                % (isa.stmt_text(x).strip(), o["xem"], o["xerrs"], x["units"]), False)
    em, errs = o["em"], o["errs"]
    if case["exp"] == "units":
        adm = [list(u) for u in case["alt"]] or [list(case["units"])]
        if errs or (rc != 0 and not em):
            return ("rejected-legal", "legal statement %%s rejected (errors %s); the specification expects %s"
                    % (errs, " or ".join(map(str, adm))), False)
        if em not in adm:
            return ("wrong-units", "%%s assembled to %s, the specification prescribes %s" % (em, " or ".join(map(str, adm))), False)
        return None
    why = {"ram30": "bytes 30H..3FH are not bit addressable on the MCS-51 (20H..2FH are)",
           "nobit": "this byte is not bit addressable"}.get(case["zone"], "operand out of range")
    if em:
        return ("truncated-with-error" if errs else "accepted-out-of-range",
                "%%s has no encoding (%s) but %s was emitted%s"
                % (why, em, " next to the error" if errs else (" with a warning only" if o["warned"] else " and no message at all")),
                o["warned"])
    if not errs:
        return ("accepted-out-of-range", "%%s has no encoding (%s) but no error was reported" % why, o["warned"])
    return None


def replay_x(rep, bld, cases):
    """screening in batches (emit / diag events are per line), every case that does not show exactly the expected picture -
    and, without hooks, nothing is screened: the phase needs the hook build - is assembled alone (definitions, context,
    statement) and judged on that run"""
    from checks import c14
    for c in cases:
        rep.evaluated()
        rep.distinct((NAME, "x", c["id"], isa.stmt_text(c), tuple(tuple(d) for d in c["pre"]), c["pc"]), True)
    acc = [c for c in cases if c["exp"] == "units"]
    oth = [c for c in cases if c["exp"] != "units"]
    groups = [acc[i:i + X_ACC_CHUNK] for i in range(0, len(acc), X_ACC_CHUNK)] + \
             [oth[i:i + X_CHUNK] for i in range(0, len(oth), X_CHUNK)]
    metas = [x_source(g) for g in groups]
    results = c14._many(bld, [{"sources": {"a.asm": src}, "opts": ["-q"], "events": "emit,diag", "timeout": 120}
                              for (src, where) in metas])
    suspects = []
    for g, (src, where), res in zip(groups, metas, results):
        rep.traces(1)
        if res.timeout or res.sig is not None or res.trace is None:
            suspects += g
            continue
        suspects += [c for c, w in zip(g, where) if decide_x(c, x_observe(res, w), res.rc) is not None]
    metas = [x_source([c]) for c in suspects]
    results = c14._many(bld, [{"sources": {"a.asm": src}, "opts": ["-q"], "events": "emit,diag"} for (src, where) in metas])
    bad = 0
    for c, (src, where), res in zip(suspects, metas, results):
        stmt = "'%s'" % " ".join(isa.stmt_text(c).split("\t")).strip()
        if c["pc"] >= 0:
            stmt += " at %d" % c["pc"]
        if c["pre"]:
            stmt += " after the definition [%s]" % "; ".join(" ".join(d) for d in c["pre"])
        x = isa_hist.ctx_of(c)
        if x is not None:
            stmt += " on the line directly after the statement '%s'" % " ".join(isa.stmt_text(x).split("\t")).strip()
        files = {"a.asm": src, "out.txt": res.out + res.err}
        if res.timeout or res.sig is not None or res.trace is None:
            rep.violation("%s: assembler crashed/hung on %s" % (NAME, stmt), case=c, files=files, key=x_key(c, "crash"))
            bad += 1
            continue
        d = decide_x(c, x_observe(res, where[0]), res.rc)
        if d is not None:
            kind, text, warned = d
            key = x_key(c, kind, warned)
            if kind == "context":
                key["form"] = x["id"] + " (as context statement)"
            rep.violation("%s: %s" % (NAME, (text % stmt) if "%s" in text else text), case=c, files=files, key=key)
            bad += 1
    rep.traces(len(suspects))
    return len(suspects), bad


# ------------------------------------------------------------------------------------------------ (V) golden programs
def golden_events(bld):
    execs, names = [], []
    for t in aslrun.corpus():
        if t[0] not in GOLDEN:
            continue
        res = aslrun.assemble_corpus(bld, t, events="stmt,emit")
        shutil.rmtree(res.dir, ignore_errors=True)
        if not res.trace:
            continue
        src = open(t[2], encoding="latin-1").read().splitlines()
        lp = isa.last_pass(res.trace)
        cur, pend, first, ev = None, b"", None, []
        for e in res.trace:
            if e.get("pass") != lp:
                continue
            if e["e"] == "emit":
                if first is None:
                    first = e["addr"]
                pend += bytes.fromhex(e["bytes"])
            elif e["e"] == "stmt":
                op = e["op"].upper()
                if op == "CPU":
                    m = re.match(r"^\s*(?:\S+:?\s+)?cpu\s+([^\s;]+)", src[e["line"] - 1], re.I) if 0 < e["line"] <= len(src) else None
                    cur = m.group(1).upper() if m else cur
                elif pend and cur in GOLDEN_CPUS and e["seg"] == 1 and not e["rec"]:
                    ev.append({"a": "STMT", "op": op, "units": list(pend), "pc": first, "line": e["line"]})
                pend, first = b"", None
        if ev:
            execs.append(ev)
            names.append(t[0])
    return execs, names


# ------------------------------------------------------------------------------------------------ phase
def run(rep, bld, tier):
    from checks import c14
    quick = tier == "quick"
    k = 1 if quick else 8
    salts = [seed() % 1000] if quick else [seed() % 1000, (seed() + 37) % 1000]
    todo = []
    for (cpu, aslcpu) in CFG.cpus_for(tier):
        if cpu == "8052":
            todo.append((cpu, aslcpu, 1, salts[0]))
        else:
            todo += [(cpu, aslcpu, k, s) for s in salts]
    tasks = [("x", None)] + [("gen", t) for t in todo]
    vfut = vpool = None
    if bld.hooks:
        import concurrent.futures

        def golden():
            execs, names = golden_events(bld)
            return execs, names, tracecheck.validate("Isa8051_Trace", execs, cfg="Isa8051_Trace.cfg", timeout=600)
        vpool = concurrent.futures.ThreadPoolExecutor(max_workers=1)
        vfut = vpool.submit(golden)

    def tlc_task(t):
        kind, a = t
        return gen_x(salts[0], not quick) if kind == "x" else gen_slice(a[0], a[2], a[3])
    # all TLC runs start together (single-worker JVMs); every result is replayed as soon as it is there, the small
    # Isa8051X run first, while the others are still running
    import concurrent.futures as cf
    pool = cf.ThreadPoolExecutor(max_workers=5)
    futs = [pool.submit(tlc_task, t) for t in tasks]
    try:
        with Phase("isa8051 TLC Isa8051X (%d Isa8051_Hist runs started with it)" % len(todo)):
            rx, xcases = futs[0].result()
        name = "Isa8051X(Salt=%d,Deep=%s)" % (salts[0], not quick)
        with Phase("isa8051 replay " + name):
            rep.model(name, rx)
            if bld.hooks:
                nsus, bad = replay_x(rep, bld, xcases)
            else:
                nsus = bad = 0
                rep.drift("isa8051: hook events unavailable, the Isa8051X cases (byte.b notation, generic JMP / CALL) were not replayed")
            bits = [c for c in xcases if c["sp"]]
            rep.part(name, cases=len(xcases), bit_notation=len(bits), generic_jmp_call=len(xcases) - len(bits),
                     expected_reject=sum(1 for c in xcases if c["exp"] == "reject"),
                     two_admissible_encodings=sum(1 for c in xcases if len(c["alt"]) > 1),
                     spellings=sorted({c["sp"] for c in bits}), assembled_alone=nsus, not_as_expected=bad)
            for c in [c for c in bits if c["exp"] == "units"][:1] + [c for c in xcases if len(c["alt"]) > 1][:1]:
                rep.sample({"isa": NAME, "definitions": c["pre"], "statement": isa.stmt_text(c).strip(), "pc": c["pc"],
                            "expected": c["exp"], "admissible_units": c["alt"] or [c["units"]]})
        for (cpu, aslcpu, kk, salt), fut in zip(todo, futs[1:]):
            name = "Isa8051_Hist(%s,K=%d,Salt=%d)" % (cpu, kk, salt)
            with Phase("isa8051 TLC + replay " + name):
                r, cases = fut.result()
                rep.model(name, r)
                na, no, ns, nc = c14.replay_hist(rep, bld, CFG, cpu, aslcpu, cases)
                ctxs = [isa_hist.ctx_of(c) for c in cases]
                rep.part(name, forms=len({c["id"] for c in cases}), statements=len(cases), expected_units=na,
                         expected_reject_or_convention=no, assembled_alone=ns, assembled_in_context=nc,
                         statement_addresses=sorted({c["pc"] for c in cases if c["pc"] >= 0}),
                         statements_with_context=sum(1 for x in ctxs if x is not None),
                         context_forms=len({x["id"] for x in ctxs if x is not None}))
    finally:
        pool.shutdown(wait=True, cancel_futures=True)
    if vfut is not None:
        with Phase("isa8051 golden programs vs table (waiting for the background run)"):
            execs, names, v = vfut.result()
            vpool.shutdown()
        rep.part("Isa8051_Trace(golden)", tests=names, statements=sum(len(x) for x in execs), accepted=v.accepted,
                 distinct_states=v.states, wall_s=v.wall)
        rep.cov["states"] += v.states
        rep.cov["transitions"] += v.generated
        rep.traces(v.executions)
        if not execs:
            rep.drift("isa8051: no machine statements recorded from %s" % (GOLDEN,))
        if not v.accepted:
            rep.drift("isa8051: golden test %s: %s (a slip in spec/Isa8051.tla or an encoding defect)"
                      % (names[v.fail_exec], v.detail))
    for g in sorted(c14.GROUPS):
        if g[0] == NAME:
            log("[C14] mismatch group isa=%s cpu=%s form=%s kind=%s pc=%s: %d statements" % (g + (c14.GROUPS[g],)))
    for g in sorted(XGROUPS):
        log("[C14] mismatch group isa=%s notation=%s zone=%s kind=%s: %d statements" % ((NAME,) + g + (XGROUPS[g],)))
    rep.assumptions.append("isa8051: MCS-51 table of spec/Isa8051.tla (8051 / 8052 instruction set, no 80C251 / 80C390 "
                           "extensions); statement addresses 80H..0FF7CH; decimal operand spellings")
