"""C11 extension "macscope": (A) the macro NAME TABLE and (B) BINCLUDE windows.  Last phase of checks/c11.py main().

(A) spec/MacroScope.tla + MacroScope_MC.tla (cfgs MacroScope_MC.cfg quick, MacroScope_MC5.cfg thorough, _fixed, _dev_*)
    Machine side shaped like asmmac.c AddMacro/MacroAdder/FoundMacroByName/ResetMacroDefines, as.c ReadMacro + the end of
    MACRO_OutProcessor (PubSect, GName loop, the {GLOBAL} copy), Produce_Code ('!' prefix, macro search before the
    built-in lookup, the macro processor's own statements first), ExpandMacro, the pass loop, asmif.c CodeIFDEF;
    sections are the operators of spec/Symbols.tla (INSTANCE: DoSection, DoEndSection, IdentifySection, SectName).
    Declarative side: position arithmetic on the definition / section history (a definition is known in its section
    and the subsections; the innermost known one is meant; second definition for a section = error 1815, the first
    stays; a macro hides a machine / pseudo instruction, '!' reaches the original; neither = error 1200; pass 1 knows
    what stands in front of the call, every later pass knows all definitions of pass 1 (manual, BSR example); a macro
    defined in a macro body is defined when the outer one is expanded, for the section of the CALL; {PUBLIC[:PARENT]}
    assigns to the global level / the parent; {GLOBAL[:PARENT]} makes an additional macro <section path>_<name> there).
    (M) TLC, every program of a family (state = program text): statements SECTION / ENDSECTION / definition with
        {} {PUBLIC} {PUBLIC:PARENT} {GLOBAL} {GLOBAL:PARENT} / macro defining a macro / [!]call / call and definition
        of the section-qualified names S1_AA S2_AA S1_S2_AA / IFDEF; two base names per family, <= 2 SECTION statements
        nested <= 2.  Quick: gen4 (AA + BB, 18 statements, <= 4), focus6 (plain definitions, defining macro, calls,
        <= 6), nop / db / incl (AA + a machine instruction / pseudo instruction / macro-processor statement, <= 3):
        123 k programs.  Thorough: free5 (<= 5), full4 (26 statements), focus7, nop4 db4 incl4: 1.49 M programs
        (+ 442 k with all repairs), 56.8 k programs / 113.5 k assemblies replayed.  Invariant InvAll:
        lookup as coded = declarative outcome with one pass and with a forward reference (Agrees), the WHOLE table
        finds the innermost known definition for every name in every section of the program (TableIsInnermostKnown),
        pass 3 = pass 2, deviations named.  MacroScope_MC_fixed: with all repairs no deviation fires, no crash.
        Witness programs (ASSUME) show every deviation in the code as it is; thorough also lets TLC refute
        NoGlobCopyUninit / NoGlobCopyReplaces / NoCrash / NoCoreNotHidden.
    (G) the same TLC run prints every program (up to the family's print length) whose last statement is a probe or gets
        it rejected, with the outcome the manual promises for one pass and with a forward reference, the outcome of the
        code as it is and the deviations fired.  The harness renders each (every body lays down a byte naming the
        defining statement; sections s1, s2; `!db` inside bodies; two-pass variant: `dw fwd` ... `fwd:`), assembles it
        with the real asl - the two-pass variant when the second pass matters in the model, and for a seeded share
        otherwise - and compares code bytes / rejection / documented error numbers (1200, 1815) with what TLC printed.
        Quick: 12.3 k programs, 14 k assemblies.
    Verdict-bearing: programs without IFDEF (manual: "IFDEF <symbol>" - macro names are observed against the as-coded
    model, SPEC-DRIFT) and without a macro named like a macro-processor statement (CoreNotHidden: SPEC-DRIFT).
(B) spec/BinWindow.tla + BinWindow_MC.tla (cfgs BinWindow_MC.cfg, _fixed, _dev)
    CodeBINCLUDE (asmallg.c) as coded: unsigned 32-bit offset, Len = -1 means "rest" (FSize - Ofs read back signed),
    ChkPC(PC + Len - 1) on unsigned 64 bit, 256-byte chunks with one ADDRESS UNIT per byte read, short read = error;
    declarative: bytes = file[offset, offset+length), PC advances by that many, reading past the end = error 1600;
    negative arguments, an empty window behind the end and wider address units: manual silent (indef).  MacroProc's
    BinWindow/BinOK (the C11 hand expansion) is INSTANCEd: the declarative side extends it (InvExtends).
    (M)+(G) TLC checks operator = declarative on the grid (file sizes 0 1 6 255 256 257 600 1030; offset omitted 0 1
    n-1 n n+1 -1 256; length omitted 0 1 2 rest-1 rest rest+1 n 255 256 257 513 -1 -2; statement at address 0 / 1:
    860 cases), chunk structure, EmptyWindowAtZero the only deviation, and prints every case with the whole expected
    code image of  [db 1] / lb: binclude ... / dw lb / dw $  (Z80; label before, `$` after) and of
    [nop] / lb: binclude ... / data lb,$  on the TMS32010 (16-bit address units: as coded one WORD per byte, each
    chunk stores the bytes read followed by as many bytes BINCLUDE never wrote - uninitialised buffer memory that differs
    from run to run; an odd length is nothing special).  The harness writes the files (i -> (i*7+3)%256, MacroProg.BinFile),
    assembles 1720 programs and compares the code file.  Z80 definite cases carry the verdict; indefinite cases and the
    word target are compared with the as-coded operator (SPEC-DRIFT).
NOT covered: case-sensitive mode, {EXPORT}/-M, macro names built by {symbol} expansion, section names re-used under
different parents, PUBLIC:<name> / PARENT2.., STRUCT names (looked up after macros), NESTMAX, BINCLUDE near the segment
limit / under PHASE / in STRUCT, other word-granular families.

FINDINGS of the pinned tree (known_findings/C11-macscope.json; each flips to "fixed" when its diff is applied - the
harness then takes the repaired deviation out of the as-coded model, see repaired()):
  GlobCopyUninit + GlobCopyReplaces   proposed_fixes/C11-global-macro-copy.diff (.md): the additional macro of {GLOBAL} is
      uncallable (error 1850 from an uninitialised UseCounter), silently replaces an existing macro of its name (no
      error 1815) and frees it even while it is being expanded (SIGSEGV).
  EmptyWindowAtZero   proposed_fixes/C11-binclude-empty-window-at-zero.diff (.md): a BINCLUDE that includes nothing is
      "address overflow" when it stands at address 0.
  Both diffs applied to a scratch copy: `VERIF_REPO=<copy> VERIF_MACSCOPE_FIXED=GlobCopyUninit,GlobCopyReplaces,
  EmptyWindowAtZero`: 0 mismatches, no known finding hit, 201/201 golden tests.
  Observed, not judged (SPEC-DRIFT): CoreNotHidden (a macro named INCLUDE / IF / REPT ... can be defined, never called);
  the TMS32010 code file of a BINCLUDE holds uninitialised memory.
Mutations tried: see MUTATIONS at the end of this file.
"""
import os
import re

from vlib import aslrun, tlc
from vlib.common import CheckError, Phase, log, pmap, rng

SCOPE_DEVS = ["GlobCopyUninit", "GlobCopyReplaces", "CoreNotHidden"]
ERRNUM = {"UnknownInstruction": "1200", "DoubleMacro": "1815"}
BUILTIN = {"NOP": ("\tnop", 0x00), "DB": ("\tdb 0dbh", 0xDB), "INCLUDE": ('\tinclude "inc.inc"', 0xEE)}
MODE_TXT = {"plain": "", "pub": " {PUBLIC}", "pubpar": " {PUBLIC:PARENT}", "glob": " {GLOBAL}", "globpar": " {GLOBAL:PARENT}"}


BIN_DEVS = ["EmptyWindowAtZero"]


def repaired():
    """named deviations whose repair is recorded as applied (known_findings "status": "fixed", field "dev"); for a
    run against a scratch copy WITH a proposed fix: VERIF_MACSCOPE_FIXED=Dev1,Dev2 (and the known entries no longer match
    anything, because the model then predicts what the manual promises)"""
    import glob
    import json
    out = set(d for d in os.environ.get("VERIF_MACSCOPE_FIXED", "").split(",") if d in SCOPE_DEVS + BIN_DEVS)
    root = os.path.dirname(os.path.dirname(os.path.abspath(__file__)))
    for path in glob.glob(os.path.join(root, "known_findings", "C*.json")):
        try:
            for f in json.load(open(path)).get("findings", []):
                if f.get("status") == "fixed":
                    for d in ([f.get("dev")] + list(f.get("devs", []))):
                        if d in SCOPE_DEVS + BIN_DEVS:
                            out.add(d)
        except (OSError, ValueError):
            pass
    return out


def tla_set(names):
    return "{" + ", ".join('"%s"' % d for d in sorted(names)) + "}"


# ---------------------------------------------------------------------------------------------------------------
# (A) rendering
# ---------------------------------------------------------------------------------------------------------------
def call_text(n, bang):
    t = BUILTIN[n][0] if n in BUILTIN else "\t" + n.lower()
    return ("\t!" + t[1:]) if bang else t


def render_scope(prog, two):
    """program of MacroScope statements -> (sources, ...); two: a forward reference makes a second pass necessary"""
    lines = ["\tcpu z80"]
    if two:
        lines.append("\tdw fwd")
    nsec = 0
    for i, st in enumerate(prog, 1):
        k = st["k"]
        if k == "sect":
            nsec += 1
            lines.append("\tsection s%d" % nsec)
        elif k == "ends":
            lines.append("\tendsection")
        elif k == "def":
            lines += ["%s\tmacro%s" % (st["n"].lower(), MODE_TXT[st["mode"]]), "\t!db %d" % (0x10 + i), "\tendm"]
        elif k == "defin":
            lines += ["%s\tmacro" % st["o"].lower(), "%s\tmacro%s" % (st["n"].lower(), MODE_TXT[st["mode"]]),
                      "\t!db %d" % (0x10 + i), "\tendm", "\t!db %d" % (0x20 + i), "\tendm"]
        elif k == "call":
            lines.append(call_text(st["n"], st["bang"]))
        else:
            lines += ["\tifdef %s" % st["n"].lower(), "\t!db 0d1h", "\telseif", "\t!db 0d0h", "\tendif"]
    if two:
        lines.append("fwd:")
    return {"a.asm": "\n".join(lines) + "\n", "inc.inc": "\t!db 0eeh\n"}


def image_scope(out, two):
    img = []
    for e in out:
        w = e["w"]
        img.append(0x10 + e["b"] if w == "body" else 0x20 + e["b"] if w == "tail" else BUILTIN[e["n"]][1] if w == "builtin"
                   else 0xD1 if w == "yes" else 0xD0)
    if two:
        end = 2 + len(img)
        img = [end & 255, end >> 8] + img
    return img


def observed(res):
    """(crash, rejected, documented error numbers, code bytes)"""
    crash = bool(res.timeout or res.sig is not None)
    nums = set(re.findall(r"#(\d+)", res.out + res.err))
    got = None
    if res.p is not None:
        got = []
        for rec in res.parsed().data_records():
            got += list(rec.data)
    return crash, (res.rc != 0), nums, got


def same(outc, two, obs):
    """does the observation equal an outcome record printed by TLC"""
    crash, rej, nums, got = obs
    if outc["crash"]:
        return crash
    if crash:
        return False
    if outc["rej"]:
        return rej and all((ERRNUM[k] in nums) for k in outc["ek"]) and \
            all((ERRNUM[k] in nums) == (k in outc["ek"]) for k in ERRNUM)
    return (not rej) and got == image_scope(outc["out"], two)


def run_scope(rep, bld, tier, results):
    # ---- (M) --------------------------------------------------------------------------------------------------
    for name, must_fail in SCOPE_MC[tier]:
        r = results[name]
        if r.error and not r.violation:
            raise CheckError("MacroScope_MC(%s): %s" % (name, r.error[:400]))
        if bool(r.violation) != must_fail:
            raise CheckError("MacroScope_MC(%s): %s" % (name, "the deviation is not refuted" if must_fail else
                                                        "the specification violates its invariants: " + r.violation[:600]))
        if not must_fail:
            rep.model("MacroScope_MC(%s)" % name, r)
    # ---- (G) the programs printed by the model-checking run ----------------------------------------------------
    rows = [o for (t, o) in results["mc"].printed if t == "MS"]
    if not rows:
        raise CheckError("MacroScope_MC printed no program")
    r = rng("c11/macscope")
    jobs, index = [], []
    share = 0.15 if tier == "quick" else 1.0
    for o in rows:
        for two in (False, True):
            row = o["two" if two else "one"]
            if two and row == o["one"] and r.random() > share:
                continue            # the second pass changes nothing in the model: a seeded share is assembled anyway
            src = render_scope(o["prog"], two)
            index.append((o, two, row, src))
            jobs.append({"sources": src, "opts": ["-q", "-n"]})
    with Phase("macscope: assemble %d renderings of %d programs" % (len(jobs), len(rows))):
        res = aslrun.assemble_many(bld, jobs)
    stats = {"programs": len(rows), "assemblies": len(jobs), "indefinite": 0, "with_deviation": 0, "mismatches": 0}
    drift = {}
    for (o, two, row, src), rs in zip(index, res):
        rep.evaluated()
        rep.distinct("macscope\n" + src["a.asm"], True)
        obs = observed(rs)
        devs = sorted(row["devs"])
        if devs:
            stats["with_deviation"] += 1
        if o["indef"]:
            stats["indefinite"] += 1
            if obs[0]:
                pass                                    # a crash is judged below
            elif not same(row["coded"], two, obs):
                drift.setdefault("IFDEF of a macro name (the manual speaks of symbols only): asl does not do what the "
                                 "as-coded model does", []).append(src["a.asm"])
                continue
            else:
                continue
        if same(row["exp"], two, obs):
            continue
        as_model = same(row["coded"], two, obs)
        if row["coded"]["crash"] or ("GlobCopyUninit" in devs and "1850" in obs[2]):
            as_model = True          # use after free / an uninitialised counter: whatever asl does is what the model names
        if devs == ["CoreNotHidden"] and as_model:
            drift.setdefault("a macro named like a statement of the macro processor (INCLUDE) is never expanded, the "
                             "built-in statement wins (manual: a 'machine or pseudo instruction becomes hidden')", []).append(src["a.asm"])
            continue
        stats["mismatches"] += 1
        key = {"phase": "macscope", "kind": "crash" if obs[0] else "differs", "as_model": as_model}
        for d in SCOPE_DEVS:
            key["dev_" + d] = d in devs
        rep.violation("macro name table (%s): the manual promises %s, asl gives crash=%s rc=%s errors=%s bytes=%s"
                      % ("with a forward reference" if two else "one pass", short(row["exp"], two), obs[0], rs.rc,
                         sorted(obs[2]), obs[3]),
                      case={"phase": "macscope", "prog": o["prog"], "two": two, "devs": devs, "expected": row["exp"], "coded": row["coded"]},
                      files={"a.asm": src["a.asm"], "inc.inc": src["inc.inc"], "stderr.txt": rs.out + rs.err}, key=key)
    for what, srcs in sorted(drift.items()):
        rep.drift("macscope: %s: %d programs, e.g.\n%s" % (what, len(srcs), srcs[0]))
    rep.traces(len(jobs))
    rep.part("MacroScope(replay)", **stats)
    for (o, two, row, src) in index[len(index) // 2: len(index) // 2 + 1] + index[-1:]:
        rep.sample({"phase": "macscope", "program": o["prog"], "forward_reference": two, "rendered": src["a.asm"],
                    "expected_by_TLC": row["exp"]})


def short(outc, two):
    if outc["crash"]:
        return "a crash"
    if outc["rej"]:
        return "rejection %s" % sorted(ERRNUM[k] for k in outc["ek"])
    return "bytes %s" % image_scope(outc["out"], two)


# TLC jobs of part A.  The cfg texts are generated per run (Fixed = the repairs recorded as applied); the same
# constants are in spec/MacroScope_MC.cfg (quick), MacroScope_MC5.cfg (thorough), MacroScope_MC_fixed.cfg, MacroScope_MC_dev_*.cfg
def _cfg_text(families, famop, fixed, invs):
    return ("CONSTANTS Families = %s\n Family <- %s\n MaxSects = 2\n MaxDepth = 2\n Fixed = %s\nINIT Init\nNEXT Next\n"
            "INVARIANTS %s\nCHECK_DEADLOCK FALSE\n" % (tla_set(families), famop, fixed, invs))


ALLFIXED = tla_set(SCOPE_DEVS)
# (name, must be refuted); the refutations run in the thorough tier, the witnesses (ASSUME in MacroScope_MC) always
SCOPE_MC = {
    "quick": [("mc", False), ("mc_fixed", False)],
    "thorough": [("mc", False), ("mc_fixed", False), ("dev_uninit", True), ("dev_replaces", True), ("dev_crash", True),
                 ("dev_core", True)],
}


def scope_tasks(tier):
    q = tier == "quick"
    fx = tla_set(repaired() & set(SCOPE_DEVS))
    t = {
        "mc": (["gen4", "focus6", "nop", "db", "incl"], "QuickFamily", fx, "InvAllDump") if q else
              (["free5", "full4", "focus7", "nop4", "db4", "incl4"], "FullFamily", fx, "InvAllDump"),
        "mc_fixed": (["gen", "incl"] if q else ["full4", "incl4"], "QuickFamily" if q else "FullFamily", ALLFIXED, "InvAll NoCrash"),
        "dev_uninit": (["gen"], "QuickFamily", "{}", "NoGlobCopyUninit"), "dev_replaces": (["gen"], "QuickFamily", "{}", "NoGlobCopyReplaces"),
        "dev_crash": (["gen"], "QuickFamily", "{}", "NoCrash"), "dev_core": (["incl"], "QuickFamily", "{}", "NoCoreNotHidden"),
    }
    return [("scope:" + n, "MacroScope_MC", _cfg_text(*t[n]), (6 if q else 8) if n == "mc" else 2, ("MS",)) for n, _ in SCOPE_MC[tier]]


# ---------------------------------------------------------------------------------------------------------------
# (B) BINCLUDE windows
# ---------------------------------------------------------------------------------------------------------------
BIN_ERR = {"ShortRead": "1600", "AdrOverflow": "1925"}


def bin_args(c):
    t = ""
    if c["ofs"]["given"]:
        t += ",%d" % c["ofs"]["v"]
        if c["len"]["given"]:
            t += ",%d" % c["len"]["v"]
    return t


def render_bin(c, word):
    if word:
        lines = ["\tcpu 32010"] + (["\tnop"] if c["pc"] else []) + ['lb:\tbinclude "b.bin"' + bin_args(c), "\tdata lb,$"]
    else:
        lines = ["\tcpu z80"] + (["\tdb 1"] if c["pc"] else []) + ['lb:\tbinclude "b.bin"' + bin_args(c), "\tdw lb", "\tdw $"]
    return "\n".join(lines) + "\n"


def bin_file(n):
    return bytes((i * 7 + 3) % 256 for i in range(1, n + 1))        # MacroProg.BinFile / BinWindow.FileByte


def image_of(res):
    """code-file bytes from address 0 (None where nothing was stored), or None without a code file"""
    if res.p is None:
        return None
    img = {}
    for rec in res.parsed().data_records():
        base = rec.start * max(rec.gran, 1)
        for k, b in enumerate(rec.data):
            img[base + k] = b
    return [img.get(a) for a in range(max(img) + 1)] if img else []


def bin_same(side, res):
    crash = bool(res.timeout or res.sig is not None)
    if crash:
        return False
    nums = set(re.findall(r"#(\d+)", res.out + res.err))
    if side["rej"]:
        return res.rc != 0 and BIN_ERR[side["err"]] in nums
    got = image_of(res)
    want = side["image"]
    return res.rc == 0 and got is not None and len(got) == len(want) and all(w == -1 or w == g for w, g in zip(want, got))


def run_bin(rep, bld, tier, results):
    for name, must_fail in (("mc", False), ("mc_fixed", False), ("dev", True)):
        if name not in results:
            continue
        r = results[name]
        if r.error and not r.violation:
            raise CheckError("BinWindow_MC(%s): %s" % (name, r.error[:400]))
        if bool(r.violation) != must_fail:
            raise CheckError("BinWindow_MC(%s): %s" % (name, "the deviation is not refuted" if must_fail else
                                                       "the specification violates its invariants: " + r.violation[:600]))
        if not must_fail:
            rep.model("BinWindow_MC(%s)" % name, r)
    g = results["mc"]
    cases = [o for (t, o) in g.printed if t == "BW"]
    jobs, index = [], []
    for c in cases:
        for word in (False, True):
            src = render_bin(c, word)
            index.append((c, word, src))
            jobs.append({"sources": {"a.asm": src}, "opts": ["-q", "-n"], "bin": {"b.bin": bin_file(c["n"])}})
    with Phase("binwindow: assemble %d programs" % len(jobs)):
        res = aslrun.assemble_many(bld, jobs)
    stats = {"cases": len(cases), "assemblies": len(jobs), "indefinite": sum(1 for c in cases if c["indef"]),
             "with_deviation": sum(1 for c in cases if c["dev"]), "mismatches": 0}
    drift = {}
    for (c, word, src), rs in zip(index, res):
        rep.evaluated()
        rep.distinct("binwindow %d\n%s" % (c["n"], src), True)
        tag = "file of %d bytes, `binclude \"b.bin\"%s` at address %d" % (c["n"], bin_args(c), c["pc"])
        crash = bool(rs.timeout or rs.sig is not None)
        files = {"a.asm": src, "b.bin": bin_file(c["n"]), "stderr.txt": rs.out + rs.err}
        case = {"phase": "binwindow", "n": c["n"], "ofs": c["ofs"], "len": c["len"], "pc": c["pc"], "word": word}
        if crash:
            stats["mismatches"] += 1
            rep.violation("BINCLUDE: asl died (signal %s, timeout %s): %s" % (rs.sig, rs.timeout, tag), case=case, files=files,
                          key={"phase": "binwindow", "kind": "crash", "dev_EmptyWindowAtZero": c["dev"], "as_model": False})
        elif word:
            if not bin_same(c["codedW"], rs):
                drift.setdefault("word-granular target (TMS32010; the manual counts bytes and is silent about wider address "
                                 "units): asl does not do what the as-coded operator does (one word per byte read, the "
                                 "window packed into the first half of each chunk)", []).append(tag)
        elif c["indef"]:
            if not bin_same(c["coded"], rs):
                drift.setdefault("negative argument / empty window behind the end (manual silent): asl does not do what "
                                 "the as-coded operator does", []).append(tag)
        elif not bin_same(c["exp"], rs):
            stats["mismatches"] += 1
            rep.violation("BINCLUDE window: %s: the manual promises %s, asl gives rc=%s %s image=%s"
                          % (tag, ("error " + BIN_ERR[c["exp"]["err"]]) if c["exp"]["rej"] else "image %s" % _clip(c["exp"]["image"]),
                             rs.rc, sorted(set(re.findall(r"#(\d+)", rs.out + rs.err))), _clip(image_of(rs))),
                          case=case, files=files,
                          key={"phase": "binwindow", "kind": "differs", "dev_EmptyWindowAtZero": c["dev"],
                               "as_model": bin_same(c["coded"], rs)})
    for what, tags in sorted(drift.items()):
        rep.drift("binwindow: %s: %d cases, e.g. %s" % (what, len(tags), tags[0]))
    rep.traces(len(jobs))
    rep.part("BinWindow(replay)", **stats)
    mid = index[len(index) // 3]
    rep.sample({"phase": "binwindow", "file_bytes": mid[0]["n"], "rendered": mid[2], "expected_by_TLC": _clip(mid[0]["exp"]["image"])})


def _clip(img):
    if img is None:
        return None
    return img if len(img) <= 24 else img[:12] + ["...(%d)" % len(img)] + img[-6:]


def bin_tasks(tier):
    fx = tla_set(repaired() & set(BIN_DEVS))
    inv = "InvAgrees InvDeviation InvExtends InvChunks"
    t = {"mc": (fx, inv + " Dump"), "mc_fixed": (tla_set(BIN_DEVS), inv + " NoDeviation")}
    if tier != "quick":
        t["dev"] = ("{}", "NoDeviation")
    return [("bin:" + n, "BinWindow_MC", "CONSTANTS Fixed = %s\nINIT Init\nNEXT Next\nINVARIANTS %s\nCHECK_DEADLOCK FALSE\n" % t[n],
             2 if n == "mc" else 1, ("BW",)) for n in t]


# ---------------------------------------------------------------------------------------------------------------
def _write_cfg(name, text):
    from vlib.common import subdir
    path = os.path.join(subdir("macscopecfg"), name.replace(":", "_") + ".cfg")
    with open(path, "w") as f:
        f.write(text)
    return path


def run(rep, bld, tier):
    tasks = scope_tasks(tier) + bin_tasks(tier)

    def one(t):
        name, mod, text, workers, tags = t
        return name, tlc.run(mod, _write_cfg(name, text), workers=workers, timeout=2400, mem="4g", tags=tags)
    with Phase("macscope: %d TLC runs" % len(tasks)):
        results = dict(pmap(one, tasks, workers=6))
    log("[macscope tlc] " + " ".join("%s=%.0fs" % (n, r.wall) for n, r in results.items()))
    run_scope(rep, bld, tier, {n.split(":", 1)[1]: r for n, r in results.items() if n.startswith("scope:")})
    run_bin(rep, bld, tier, {n.split(":", 1)[1]: r for n, r in results.items() if n.startswith("bin:")})


def replay(path, v):
    """re-run a recorded violation of this phase: the rendered source (and b.bin / inc.inc) lie in the replay directory"""
    from vlib import build
    bld = build.get("hook")
    src = {"a.asm": open(os.path.join(path, "a.asm")).read()}
    bins = {}
    if os.path.exists(os.path.join(path, "inc.inc")):
        src["inc.inc"] = open(os.path.join(path, "inc.inc")).read()
    if os.path.exists(os.path.join(path, "b.bin")):
        bins["b.bin"] = open(os.path.join(path, "b.bin"), "rb").read()
    res = aslrun.assemble(bld, src, opts=["-q", "-n"], binary_sources=bins)
    log("rc=%s sig=%s %s" % (res.rc, res.sig, (res.out + res.err).strip()[:600]))
    log("image: %s" % (_clip(image_of(res)),))
    log("recorded: %s" % v["what"])
    return 0


MUTATIONS = """
Each mutation was applied to a scratch copy of the unfixed /repo (VERIF_REPO=/tmp/gms-mN VERIF_CACHE_KEEP=30); the phase
was run on it (quick tier; the full `./check C11 --tier quick` ends with the same VIOLATION lines since the phase is its
last step) and the mutant's own ctest result recorded:
  m1 asmmac.c FoundMacroByName: the enclosing sections are searched BEFORE the current one (outer definition wins)
        -> VIOLATION (239 programs; first seen with 4 statements: def / SECTION / def / call)        (ctest 201/201)
        Missed by the first version of the quick tier, which printed programs of <= 3 statements only: family gen4
        (<= 4) and focus6 (<= 6 statements over few statement kinds) were added for it.
  m2 as.c ReadMacro: a macro defined inside a macro body goes to the global level instead of the section of the call
        -> VIOLATION (387 programs: error 1815 expected / not expected, body found outside the section)  (ctest 201/201)
  m3 as.c Produce_Code: '!' no longer suppresses the macro search
        -> VIOLATION (714 programs: `!aa` expands the macro instead of error 1200, `!nop` expands)    (ctest 200/201)
  m4 asmallg.c CodeBINCLUDE: a short read is reported only when nothing at all was read (length beyond the end is
     silently truncated)
        -> VIOLATION (90 cases of the BINCLUDE grid: error 1600 expected, exit 0)                     (ctest 201/201)
  m5 asmmac.c MacroAdder: a second definition for the same section replaces the first one without error 1815
        -> VIOLATION (3888 programs)                                                                   (ctest 201/201)
Specification side: FoundKey with the stack walked before the current section -> TLC refutes InvAll after 84 states
(def / SECTION / def: TableIsInnermostKnown, no call needed).
Both proposed fixes applied (scratch copy, VERIF_MACSCOPE_FIXED=GlobCopyUninit,GlobCopyReplaces,EmptyWindowAtZero): 0
mismatches, no known finding hit, 201/201 golden tests.
"""
