"""C02 extension "diagdest": WHERE diagnostics are written (spec/DiagDest.tla, DiagDest_MC.tla + .cfg files).

Why: a seeded change went unnoticed.  asmerr.c WrErrorString() decides with
`strcmp(LstName, "!1") || !ListOn || !ErrorsWrittenToListing` whether a message is (also) written to the error channel;
the `!ListOn` term was dropped.  ErrorsWrittenToListing only says that WrLstLine() was CALLED; inside a LISTING OFF
region it prints nothing.  With the listing on the console (-l) a diagnostic raised there was then counted, summarised
("1 error"), decided status 2 and the removal of the code file - and was written nowhere.  The covers of c02.py had -L
as a seed-chosen report option and no listing-control statement at all, and they counted the error channel only.

Dimension added (all of it, bounded): listing destination {none, -l console, -L file, -L -olist name} x the listing-control
state of the source at the moment of the message (LISTING OFF / ON / NOSKIPPED / PURECODE, SAVE / RESTORE of that state,
its reset to ON at the start of every pass and file) x the class of the message (internal / user warning, error, fatal,
"too many errors", reports of the end of the pass, failed EXPECT) x -Werror x -maxerrors x -w x one / two passes - and
"the totals of the summary equal the number of diagnostics emitted" is judged on EVERY channel the option set selects.

(M) DiagDest_MC (TLC, all states = all runs): every sequence of <= 3 (thorough 4) of 14 line classes (ok, warn, err, uwarn,
    uerr, ufatal, fwd, undef, listing off|on|noskipped|purecode, lsave, lrestore) x 4 listing destinations x -Werror x
    -maxerrors {0,2} (DiagDest_MC.cfg, 41 k runs; thorough DiagDest_MC4.cfg: <= 4 of 10 classes); <= 2 (thorough 3) of 19
    classes (+ fatalI, expect, endexpect, open if1, open sec) x -w x -maxerrors {0,1,2} (DiagDest_MC_All.cfg, 16 k); two
    files, 7 classes, first <= 2 (3), second 1 line (DiagDest_MC_2f.cfg, 3.6 k).  Claims, on
    the layered fold LOutcome over Driver.tla / Diag.tla: status 0 <=> nothing of class error / fatal emitted on any
    selected channel; kept code file <=> none emitted; fatal <=> 3; summary counters = messages emitted in the last
    pass; NothingLost (no counted message is written nowhere); without -l every message is on the error channel
    (manual, -E); with -l never twice on the console; no listing => no listing lines; warnings harmless without
    -Werror; the layer changes nothing of Driver.tla's outcome; DeclDest - the declarative reading of the text (the
    LISTING statement in force at a line, by position arithmetic) - gives the same listing / channel / summary counts.
    DiagDest_MC_dev.cfg (DestRule = "calledonly": the test without `!ListOn`) MUST be refuted by TLC (NothingLost).
(G) the same TLC runs print every run with the projection of LOutcome: exit status, kept, summary counters, and per file
    the number of error / warning / fatal-stop lines on the error channel, in the listing (console: all passes, file:
    last pass) and on at least one of them.  Rendered for Z80 / 8051 under seed-chosen -q, -x, -n, -gnuerrors, -E
    (stderr | !1 | file | <source>.log) and run through the real asl.
    Verdict-bearing (compared with what TLC printed): wait status; existence of <name>.p; `N errors / N warnings` of the
    summary; EMITTED = the diagnostics found on the selected channels (error channel of -E and the listing of -l / -L /
    -olist; the multiset union - a message shown in the listing file AND on the error channel is one message); and, when
    the listing is not on the console, the error channel alone (manual: "-E: error messages and warnings").
    SPEC-DRIFT only: how the model splits the messages between console listing and error channel under -l
    (ConsoleListingReplacesChannel is what the code does, the manual does not decide it) and the lines of a listing file.
    A message without a position (INTERNAL: the reports of the end of a pass) that is found on both channels of a
    two-file run may be one message or two: both counts are admitted (union_counts).
    quick: 4 000 of the 41 k runs (1 000 per listing destination, seeded), 1 000 of the 16 k, 1 000 of the 3.6 k two-file
    runs; thorough: 120 000 of 178 k (DiagDest_MC4), 60 000 of 93 k (DiagDest_MC_All3), all 25.5 k two-file runs (DiagDest_MC_2f3).
Not covered: -t (listing mask), PAGE (page length 0 / width), MACEXP, messages raised inside macro expansions or include
files while unlisted, -l together with -L on one command line (the later wins), +l in ASCMD, I/O errors of the listing.
Mutations tried on scratch copies (all compile; this phase alone, quick tier, 6 000 runs):
  the seeded change (`!ListOn` dropped from the error-channel test)                    97 - 126 VIOLATION in ./check C02 --tier quick
  m3 asmsub.c WrLstLine printing only under LISTING ON (`ListOn != 1` returns)          190 VIOLATION (+ 381 placement drifts):
       with -l a message inside NOSKIPPED / PURECODE is written nowhere
  m4 the error channel used only when the listing did not take the message (`strcmp(LstName, "!1") ||` dropped)
                                                                                       2 294 VIOLATION (-L: channel incomplete)
  m1 every message also on the error channel (`if (1)`)                                 269 VIOLATION (-l -E !1 only: one stream
       shows every message twice) + 896 SPEC-DRIFT (other -E: twice on two channels is still one message)
  m2 `!Fatal` dropped from the listing test (fatal message moves into the console listing)   0 VIOLATION, 241 SPEC-DRIFT -
       the message is still emitted; not a breach of C02.
On the unchanged tree: 0 VIOLATION, 0 placement drifts in 6 000 runs (the model's placement is exact).
"""
import json
import os
import threading

from vlib import drvrender, drvrun, tlc
from vlib.common import CheckError, Phase, log, rng

COLLECT = (".p", ".log", ".txt", ".lst")
QUICK = {"DiagDest_MC.cfg": 4000, "DiagDest_MC_All.cfg": 1000, "DiagDest_MC_2f.cfg": 1000}
THOROUGH = {"DiagDest_MC4.cfg": 120000, "DiagDest_MC_All3.cfg": 60000, "DiagDest_MC_2f3.cfg": 40000}
DIALECTS = ("z80", "8051")
LISTKINDS = ("listing", "lsave", "lrestore")


# ---- TLC (started early by checks/c02.py main(), joined in run()) ---------------------------------------------
class Handle:
    def __init__(self, tier):
        self.tier = tier
        self.limits = QUICK if tier == "quick" else THOROUGH
        self.cfgs = list(self.limits.keys())
        self.res = {}
        self.threads = []


def _sample(cfg, trs, lim):
    """the same number of runs per listing destination, seeded"""
    if lim is None or len(trs) <= lim:
        return trs
    by = {}
    for t in trs:
        by.setdefault(t["o"]["lm"], []).append(t)
    out = []
    for lm in sorted(by):
        rng("c02/diagdest/%s/%s" % (cfg, lm)).shuffle(by[lm])
        out += by[lm][:lim // len(by)]
    return out


def _tlc(h, cfg, **kw):
    try:
        r = tlc.run("DiagDest_MC", cfg, workers=2, timeout=1500, mem="6g", **kw)
        if r.ok and kw.get("collect", True):
            trs = [b for (tag, b) in r.printed if tag == "TR"]
            r.navail = len(trs)
            r.printed = [("TR", t) for t in _sample(cfg, trs, h.limits.get(cfg))]   # (the rest is dropped here: memory)
        h.res[cfg] = r
    except Exception as ex:          # reported in run()
        h.res[cfg] = ex


def _tlc_seq(h, cfgs):
    for cfg in cfgs:
        _tlc(h, cfg)


def start(tier):
    h = Handle(tier)
    if tier == "quick":
        for cfg in h.cfgs:
            t = threading.Thread(target=_tlc, args=(h, cfg), daemon=True)
            t.start()
            h.threads.append(t)
    else:                            # the deep configurations one after the other (memory: each prints > 100 k runs)
        t = threading.Thread(target=_tlc_seq, args=(h, h.cfgs), daemon=True)
        t.start()
        h.threads.append(t)
    t = threading.Thread(target=_tlc, args=(h, "DiagDest_MC_dev.cfg"), kwargs={"collect": False}, daemon=True)
    t.start()
    h.threads.append(t)
    return h


# ---- rendering ------------------------------------------------------------------------------------------------
def render_file(lines, dialect, fno):
    dl = drvrender.DIALECTS[dialect]
    out = ["\tcpu\t" + dl["cpu"]]
    for i, ln in enumerate(lines, 1):
        k = ln["k"]
        if k == "ok":
            out.append("\t" + dl["ok"])
        elif k == "warn":
            out.append("\t" + dl["warn"])
        elif k == "err":
            out.append("\tbogus")
        elif k == "fatalI":
            out.append("\tinclude \"nofile%d.inc\"" % i)
        elif k == "uwarn":
            out.append("\twarning \"w%d\"" % i)
        elif k == "uerr":
            out.append("\terror \"e%d\"" % i)
        elif k == "ufatal":
            out.append("\tfatal \"f%d\"" % i)
        elif k == "fwd":
            out += ["\t%s\tfw%d_%d" % (dl["jump"], fno, i), "fw%d_%d:" % (fno, i)]
        elif k == "undef":
            out.append("\t%s\tnosym%d_%d" % (dl["jump"], fno, i))
        elif k == "expect":
            out.append("\texpect\t%d" % (290 if ln.get("f") == "warn" else 1200))
        elif k == "endexpect":
            out.append("\tendexpect")
        elif k == "open" and ln["t"] == "if1":
            out.append("\tif\t1")
        elif k == "open" and ln["t"] == "sec":
            out.append("\tsection\tsc%d" % i)
        elif k == "listing":
            out.append("\tlisting\t" + ln["t"])
        elif k == "lsave":
            out.append("\tsave")
        elif k == "lrestore":
            out.append("\trestore")
        else:
            raise ValueError(ln)
    return "\n".join(out) + "\n"


def report_vector(r):
    return {"q": r.random() < 0.5, "x": r.choice([0, 0, 1, 2]), "n": r.random() < 0.3, "gnu": r.random() < 0.3,
            "E": r.choice(["stderr", "stderr", "stdout", "file", "log"])}


def render_argv(o, names):
    a = drvrender.render_argv(dict(o, L=False, E="stderr"), names)      # sources, -Werror, -maxerrors, -w, -q, -x, -n, -gnuerrors
    lm = o["lm"]
    if lm == "con":
        a.append("-l")
    elif lm == "file":
        a.append("-L")
    elif lm == "olist":
        a.append("-L")
        for i in range(len(names)):
            a += ["-olist", "l%d.lst" % (i + 1)]
    e = o["E"]
    if e == "stdout":
        a += ["-E", "!1"]
    elif e == "file":
        a += ["-E", "errs.txt"]
    elif e == "log":
        a.append("-E")
    return a


def make_job(tr, rv, dialect):
    o = dict(tr["o"])
    o.update(rv)
    names = ["f%d.asm" % (i + 1) for i in range(len(tr["files"]))]
    files = {n: render_file(ls, dialect, i + 1) for i, (n, ls) in enumerate(zip(names, tr["files"]))}
    return {"files": files, "argv": render_argv(o, names), "collect": COLLECT, "events": None, "timeout": 30,
            "_o": o, "_names": names}


# ---- tokenising -------------------------------------------------------------------------------------------------
def tokens(text, gnu):
    """the diagnostic lines of a text -> {(class, line): count}; class E / W / F (F = the 'assembly terminated' line)"""
    out = {}
    for line in text.replace("\r", "\n").replace("\f", "\n").splitlines():
        if line.strip() in drvrender._FATAL:
            key = ("F", line.strip())
        else:
            m = (drvrender._GNU if gnu else drvrender._STD).match(line)
            if not m:
                continue
            if gnu:
                key = ("W" if m.group(1) else "E", line)
            else:
                key = ("W" if m.group(1) == "warning" else "E", line)
        out[key] = out.get(key, 0) + 1
    return out


def count(toks):
    c = {"E": 0, "W": 0, "F": 0}
    for (cls, _), n in toks.items():
        c[cls] += n
    return [c["E"], c["W"], c["F"]]


def positionless(line):
    return line.lstrip("> ").startswith("INTERNAL")


def union_counts(a, b):
    """messages found on channel a and/or channel b -> (lowest, highest) count per class [E, W, F].  The same line on
    both channels is ONE message shown twice - the line carries the position (file, line number) of the message.  A
    message without a position (INTERNAL: the reports of the end of a pass) found on both channels may be one message
    shown twice or the like messages of two files: both readings are admitted."""
    lo = {"E": 0, "W": 0, "F": 0}
    hi = {"E": 0, "W": 0, "F": 0}
    for k in set(a) | set(b):
        na, nb = a.get(k, 0), b.get(k, 0)
        lo[k[0]] += max(na, nb)
        hi[k[0]] += (na + nb) if positionless(k[1]) else max(na, nb)
    return [lo[c] for c in "EWF"], [hi[c] for c in "EWF"]


def listing_text(o, names, res):
    lm = o["lm"]
    if lm == "con":
        return res.out
    if lm == "file":
        return "".join((res.files.get(n[:-4] + ".lst") or b"").decode("latin-1") for n in names)
    if lm == "olist":
        return "".join((res.files.get("l%d.lst" % (i + 1)) or b"").decode("latin-1") for i in range(len(names)))
    return ""


def observe(o, names, res, exp_emitted):
    """-> (verdict-bearing observation, finer observation)"""
    gnu = o.get("gnu")
    chan = tokens(drvrender.channel_text(o, res, names), gnu)
    same = o["lm"] == "con" and o["E"] == "stdout"           # one physical stream carries both
    lst = {} if (o["lm"] == "none" or same) else tokens(listing_text(o, names, res), gnu)
    lo, hi = union_counts(chan, lst)
    emitted = [e if l <= e <= h else l for (l, h, e) in zip(lo, hi, exp_emitted)]
    v = {"rc": res.rc, "kept": [(n[:-4] + ".p") in res.files for n in names],
         "summary": None if o.get("q") else [list(x) for x in drvrender.summaries(res.out)],
         "emitted": emitted}
    if o["lm"] != "con":
        v["chan"] = count(chan)
    fine = None if same else {"chan": count(chan), "lst": count(lst)[:2]}
    return v, fine


def expected(tr, o):
    fs = tr["exp"]["files"]
    v = {"rc": tr["exp"]["status"], "kept": [bool(f["kept"]) for f in fs],
         "summary": None if o.get("q") else [[f["sumE"], f["sumW"]] for f in fs if f["assembled"] and not f["fatal"]],
         "emitted": [sum(f["any"][j] for f in fs) for j in range(3)]}
    if o["lm"] != "con":
        v["chan"] = [sum(f["chan"][j] for f in fs) for j in range(3)]
    same = o["lm"] == "con" and o["E"] == "stdout"
    fine = None if same else {"chan": [sum(f["chan"][j] for f in fs) for j in range(3)],
                              "lst": [sum(f["lst"][j] for f in fs) for j in range(2)]}
    return v, fine


def has_dim(tr):
    return tr["o"]["lm"] != "none" or any(ln["k"] in LISTKINDS for f in tr["files"] for ln in f)


# ---- the phase --------------------------------------------------------------------------------------------------
def run(rep, bld, tier, h=None):
    h = h or start(tier)
    with Phase("diagdest: TLC DiagDest_MC (claims + export)"):
        for t in h.threads:
            t.join()
    for cfg, r in h.res.items():
        if isinstance(r, Exception):
            raise CheckError("DiagDest_MC(%s): %s" % (cfg, r))
        tlc.must(r, "DiagDest_MC(%s)" % cfg)
    dev = h.res["DiagDest_MC_dev.cfg"]
    rep.part("DiagDest_MC(DiagDest_MC_dev.cfg)", expected_counterexample=bool(dev.violation), distinct_states=dev.distinct,
             note="WrErrorString without the `!ListOn` term: NothingLost must fail (-l, LISTING OFF, a diagnostic)")
    if not dev.violation or "NothingLost" not in dev.violation:
        raise CheckError("the deviation model DiagDest_MC_dev.cfg is not refuted: %r" % (dev.violation or "")[:300])
    jobs = []
    for cfg in h.cfgs:
        r = h.res[cfg]
        if r.violation:
            raise CheckError("the design DiagDest_MC(%s) violates its own claims: %s" % (cfg, r.violation[:800]))
        rep.model("DiagDest_MC(%s)" % cfg, r)
        trs = [b for (tag, b) in r.printed if tag == "TR"]
        if not trs:
            raise CheckError("DiagDest_MC(%s) printed no runs" % cfg)
        navail = getattr(r, "navail", len(trs))
        rep.part("generation_diagdest(%s)" % cfg, behaviours=navail, run=len(trs))
        for i, t in enumerate(trs):
            rr = rng("c02/diagdest/%s/%d" % (cfg, i))
            dialect = DIALECTS[i % 2]
            jobs.append((t, make_job(t, report_vector(rr), dialect), dialect))
    with Phase("diagdest: replay %d runs" % len(jobs)):
        results = drvrun.run_many(bld, [j for (_, j, _) in jobs])
    ndrift = 0
    for (t, job, dialect), res in zip(jobs, results):
        rep.evaluated()
        rep.distinct(json.dumps([job["files"], job["argv"]], sort_keys=True),
                     has_dim(t) and any(ln["k"] not in ("ok",) + LISTKINDS for f in t["files"] for ln in f))
        files = dict(job["files"], argv=" ".join(job["argv"]), dialect=dialect, phase="diagdest")
        if res.timeout or res.sig is not None:
            rep.violation("diagdest: asl did not end normally (signal=%s timeout=%s)" % (res.sig, res.timeout), case=t,
                          files=files, key={"kind": "crash", "phase": "diagdest"})
            continue
        o = job["_o"]
        ev, ef = expected(t, o)
        ov, of = observe(o, job["_names"], res, ev["emitted"])
        if ov != ev:
            kinds = [k for k in ev if ov.get(k) != ev[k]]
            files["stdout.txt"] = res.out[-6000:]
            files["stderr.txt"] = res.err[-4000:]
            for n, c in res.files.items():
                if n.endswith((".lst", ".log", ".txt")):
                    files["out_" + n] = c[-6000:]
            rep.violation("diagdest: run %s [%s]: expected (TLC, DiagDest.tla LOutcome) %s, observed %s  (emitted = "
                          "diagnostics on the error channel of -E and/or in the listing of -l/-L; rc, kept, summary as usual)"
                          % (" ".join(job["argv"]), dialect, json.dumps(ev), json.dumps(ov)), case=t, files=files,
                          key={"kind": "+".join(kinds), "phase": "diagdest", "lm": o["lm"]})
        elif ef is not None and of != ef:
            ndrift += 1
            if ndrift <= 5:
                rep.drift("diagdest: run %s [%s]: the model places the messages %s, observed %s (property-level "
                          "observation agrees)" % (" ".join(job["argv"]), dialect, json.dumps(ef), json.dumps(of)))
    if ndrift > 5:
        rep.drift("diagdest: %d runs in all differ only in the placement of messages" % ndrift)
    for (t, job, dialect) in jobs[:1] + jobs[-1:]:
        rep.sample({"options": job["argv"], "files": job["files"], "expected": expected(t, job["_o"])[0]})
    rep.traces(len(jobs))
    rep.part("diagdest", runs=len(jobs), placement_drift=ndrift)


def replay(path, case):
    from vlib import build
    bld = build.get("hook")
    argv = open(os.path.join(path, "argv")).read().split()
    dialect = open(os.path.join(path, "dialect")).read().strip()
    names = [a for a in argv if a.endswith(".asm")]
    files = {n: render_file(ls, dialect, i + 1) for i, (n, ls) in enumerate(zip(names, case["files"]))}
    res = drvrun.run_job(bld, {"files": files, "argv": argv, "collect": COLLECT, "timeout": 60})
    log("replay (diagdest): asl %s -> rc=%s\nstdout tail:\n%s\nstderr tail:\n%s"
        % (" ".join(argv), res.rc, res.out[-2500:], res.err[-1500:]))
    for n, c in sorted(res.files.items()):
        if n.endswith((".lst", ".log", ".txt")):
            log("%s:\n%s" % (n, c.decode("latin-1")[-2500:]))
    log("code files present: %s" % sorted(k for k in res.files if k.endswith(".p")))
    log("expected by the specification: %s" % json.dumps(case["exp"])[:1500])
    return 0
