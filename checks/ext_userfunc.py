"""C08 extension: USER-DEFINED FUNCTIONS and the symbol functions SYMTYPE / DEFINED (spec/UserFunc.tla, UserFunc_MC.tla).

What the specification says.  UserFunc.tla transcribes, on sequences of characters, what the code does with
`name FUNCTION p1,...,pn,body`: asmallg.c CodeFUNCTION (parameter names must be macro symbol names; every parameter name
in the body TEXT becomes a token: asmsub.c CompressLine/ReplaceLine - whole-"identifier" match where only letters and digits
count as identifier characters, so `x` is also replaced in `x_1` and `x.y` (the documented glue feature of macro parameters)
and inside "strings"; case-insensitive unless -U), asmpars.c EnterFunction/FindFunction (list of name, parameter count,
text; the name upper-cased unless -U; a second definition of a name is refused with an error in pass 1 and the FIRST one
stays; the list survives the passes), and the call branch of EvalStrExpression: user functions are looked up BEFORE the
built-in table, the arguments are evaluated one by one, each value is PRINTED (as_tempres_append_dynstr), pasted between
parentheses over its token (ExpandLine) and the resulting text is evaluated as a formula again (Expr!Parse and the typed
operators of Expr.tla on the re-lexed text); a missing/surplus argument is an error; the nesting depth is limited
(NESTMAX, error 1850).  Against that stands the declarative meaning (DocEval): f(e1..en) = value of the body TREE with each
parameter standing for the VALUE of its argument, definitions visible = those in front of the call, found
case-insensitively unless -U, user functions hide built-in ones, built-in names never case-sensitive, a definition in terms
of itself has no value (error).  Where the manual is silent the declarative side says UNS and there is no verdict: function
used in front of its definition (the code: "unknown function" in pass 1, but the function of pass 1 in pass 2 - the
manual's CAUTION about overriding built-in functions), second definition of a name, duplicate parameter names, a parameter
name inside a string or glued into a symbol name, a parameter named like a function the body calls.  SYMTYPE / DEFINED:
the manual's table of segment numbers (= the enum order of the code, ASSUMEd), -1 / 0 for names that are no symbols
(function names are none), UNS for symbols defined behind the call (the code: table survives the passes, the Defined
flags do not).

(M) UserFunc_MC: state = options (-U, RADIX) + a program of <= 3 FUNCTION statements; for every probe position (in front
    of / between / behind the definitions), one or two passes, and every probe formula (calls of every defined name and its
    case variants with integer / negative / string / float / forward-symbol / nested-call arguments, one and two arguments,
    calls inside larger formulas): machine = declarative meaning wherever that is definite (invariant Agreement);
    definitions are rejected exactly where the manual says (DefAgreement); CompressLine is undone by ExpandLine
    (TokenRoundTrip).  quick: 38 curated programs (+ prefixes; 63 program x option states, ~3.8 k cases); thorough
    (8088 states, ~414 k cases, ~12 min of TLC): + every single definition
    {f, Abs} x 8 parameter lists x the grammar E ::= p | 2 | s | E (+|*|-) E | g(E) | abs(E) | f(E,E) of depth 2 and 16
    special bodies, + pairs first definition x core definition, each under {default, -U} x RADIX {10, 16, 8}.
    Four mutations of the MODEL must be refuted by TLC (UserFunc_MC_dev_*.cfg): values pasted without parentheses,
    substring instead of whole-identifier replacement, no nesting guard, and the pinned printing of arguments taken
    without the exemption of its named deviations.
(G) The same TLC run prints every state with the expected result of every case (declarative and as coded); the harness
    renders it for the 8051 (symbols in CODE/DATA/IDATA/XDATA/BITDATA, a register symbol; `dq`/`db` of the probe at an
    ORG slot), assembles it with the real asl (-U / RADIX as in the state, `dw` of a label at the end = second pass) and
    compares the bytes / the error with what TLC printed.  Verdict-bearing (rep.violation): a case with a definite
    declarative result (value or error) that the real program does not deliver; a crash or a hang on ANY case.  A case the
    manual leaves open is compared with the transcription of the code only: SPEC-DRIFT.

Known findings (known_findings/C08.json, proposed_fixes/C08-userfunc-*.diff):
    userfunc_arg_radix    `radix 16` / `f function x,x` / `db f(10)` -> 22: the argument value is printed in decimal and read
                          again in the radix in force (RADIX 8: f(8) becomes a float, f(9) likewise)
    userfunc_arg_nonprint f("\\n") -> character 8, f("\\200") -> "invalid escape sequence": characters < 32 are printed as
                          zero-padded decimal escapes (\\010) that the string reader takes for octal, characters >= 128
                          as negative numbers (signed char)
    userfunc_recursion_fanout  `f function x,f(x)+f(x)` / `db f(1)` does not end: the NESTMAX guard (a74068d) stops each
                          branch at depth 256, but both operands of an operator are evaluated even after the first failed

Mutations of the real code tried (scratch copy, VERIF_REPO, ./check C08 --tier quick): see the end of checks/c08.py's
docstring (section "extension: user-defined functions").

NOT covered: functions with more than 2 parameters (the token numbering beyond 15), the \\name\\ form of a parameter in
the body (transcribed, not generated), single-quoted strings (the StringSingleQuoted flag), float arguments beyond the
seven dyadic values of FloatTab (the model takes "%0.16e and back is the identity" as given), the PromotedFlags /
address-space bookkeeping of the call branch, relocatable arguments, ASSUMEDVAL.
"""
import os

from vlib import aslrun, tlc
from vlib import exprrender as er
from vlib.common import CheckError, Phase, log

STRIDE = 0x40
BASE = 0x100

HEADER = """\tcpu\t8051
s\tequ\t5
xy\tequ\t7
x_1\tequ\t9
\tsegment\tdata
\torg\t30h
vd:\tds\t1
\tsegment\tidata
\torg\t80h
vi:\tds\t1
\tsegment\txdata
\torg\t10h
vx:\tds\t1
\tsegment\tbitdata
\torg\t8
vb:\tds\t1
myr\treg\tr1
\tsegment\tcode
\torg\t0
lc:
"""

DEV_CFGS = ["UserFunc_MC_dev_noparen.cfg", "UserFunc_MC_dev_substring.cfg", "UserFunc_MC_dev_noguard.cfg",
            "UserFunc_MC_dev_pinned.cfg"]


def stmt_for(kind):
    return "db" if kind == "str" else "dq"


def render(state, p, tw, cases):
    """one source: header, definitions 1..p, the probes (one ORG slot each), the other definitions, forward part"""
    lines = HEADER.rstrip("\n").split("\n")
    if state["radix"] != 10:
        lines.append("\tradix\t%d" % state["radix"])
    defs = [d["line"].replace(" function ", "\tfunction\t") for d in state["defs"]]
    lines += defs[:p]
    slots = []
    for n, c in enumerate(cases):
        kind = c["doc"]["k"] if c["doc"]["k"] in ("int", "float", "str") else c["mach"]["k"]
        slot = BASE + n * STRIDE
        lines.append("\torg\t0%xh" % slot)
        lines.append("\t%s\t%s" % (stmt_for(kind), c["e"]))
        slots.append((slot, len(lines)))
    lines += defs[p:]
    lines.append("\torg\t0ff00h")
    if tw:
        lines.append("\tdw\tfwq")
    lines.append("fw\tequ\t3")
    lines.append("fwq:")
    return "\n".join(lines) + "\n", slots


def observe(res, slot, line):
    """what the real assembler did with the probe at `slot` / source line `line`"""
    if er.crashed(res):
        return {"k": "crash", "how": "timeout" if res.timeout else "rc=%s sig=%s" % (res.rc, res.sig)}
    errs = er.error_lines(res)
    if res.rc != 0 or res.p is None:
        return {"k": "error", "lines": sorted(errs), "here": line in errs}
    img = res.parsed().image()
    got = []
    a = slot
    while a < slot + STRIDE and (1, a) in img:
        got.append(img[(1, a)][0])
        a += 1
    return {"k": "value", "b": got}


def same(exp, obs):
    """expected (Observable of the specification) against observed"""
    k = exp["k"]
    if k == "crash":
        return obs["k"] == "crash"
    if k == "error":
        return obs["k"] == "error"
    if k in ("int", "float", "str"):
        if obs["k"] != "value":
            return False
        if k == "float" and exp.get("zero"):
            return len(obs["b"]) == 8 and all(x == 0 for x in obs["b"][:7]) and obs["b"][7] in (0, 0x80)
        return obs["b"] == list(exp["b"])
    return True          # unspec / overflow: no expectation


def fanout(st):
    """a function whose body calls user functions of the program twice: if such a program is recursive the evaluation
    branches at every level and does not end on the pinned tree (userfunc_recursion_fanout)"""
    names = {d["line"].split()[0].upper() for d in st["defs"]}
    for d in st["defs"]:
        body = d["line"].split(" function ", 1)[-1].upper()
        if sum(body.count(n + "(") for n in names) >= 2:
            return True
    return False


def opts(st):
    return ["-q"] + (["-U"] if st["cs"] else [])


def asm(bld, js):
    """js: (state, p, two, [cases], timeout) -> [(job, source, slots, result)]"""
    rend = [render(j[0], j[1], j[2], j[3]) for j in js]
    res = aslrun.assemble_many(bld, [{"sources": {"a.asm": src}, "opts": opts(j[0]), "timeout": j[4]}
                                     for j, (src, _) in zip(js, rend)])
    return [(j, src, slots, r) for j, (src, slots), r in zip(js, rend, res)]


class Tally:
    def __init__(self):
        self.cases = self.verdict = self.open = self.drift = self.bad = self.shown = self.sources = 0
        self.unobservable = self.skipped = 0
        self.sample = None


def judge(rep, t, st, p, tw, c, src, obs):
    t.cases += 1
    doc, mach = c["doc"], c["mach"]
    rep.evaluated()
    rep.distinct((st["cs"], st["radix"], tuple(d["line"] for d in st["defs"]), p, tw, c["e"]), True)
    info = {"options": {"U": st["cs"], "radix": st["radix"]}, "definitions": [d["line"] for d in st["defs"]],
            "probe": c["e"], "position": p, "two_passes": tw, "declarative": doc, "as_coded": mach, "observed": obs,
            "deviations": c["dev"]}
    devs = sorted(c["dev"])
    if obs["k"] == "crash" and obs["how"] == "timeout" and getattr(t, "bld", None) is not None:
        # DESIGN 2.4 rule 3: a hang is a verdict only if it repeats - the case is run once more, alone and with a
        # generous limit (the batch limits of 3..8 s are exceeded by a healthy assembler on an overloaded machine)
        one, slots1 = render(st, p, tw, [c])
        r1 = aslrun.assemble(t.bld, {"a.asm": one}, opts=opts(st), timeout=90)
        obs = observe(r1, slots1[0][0], slots1[0][1])
        info["observed"] = obs
        t.reconfirmed = getattr(t, "reconfirmed", 0) + 1
    if obs["k"] == "crash":
        t.bad += 1
        hang = obs["how"] == "timeout"
        rep.violation("user function: the assembler %s on `%s` after %s" %
                      ("does not end" if hang else "crashes (%s)" % obs["how"], c["e"], info["definitions"]),
                      case=info, files={"a.asm": render(st, p, tw, [c])[0], "batch.asm": src},
                      key={"dev": "userfunc_recursion_fanout" if (hang and fanout(st)) else (devs[0] if devs else "none"),
                           "obs": "crash"})
        return
    if doc["k"] in ("int", "float", "str", "error"):
        t.verdict += 1
        if not same(doc, obs):
            t.bad += 1
            what = ("user function call `%s` (definitions %s%s%s, probe behind %d of them, %s): the manual gives %s, "
                    "the assembler %s" % (c["e"], info["definitions"], ", -U" if st["cs"] else "",
                                          ", RADIX %d" % st["radix"] if st["radix"] != 10 else "", p,
                                          "two passes" if tw else "one pass", doc,
                                          "reports an error" if obs["k"] == "error" else "yields bytes %s" % obs.get("b")))
            keys = [{"dev": d, "obs": obs["k"]} for d in devs] or [{"dev": "none", "obs": obs["k"], "call": c["call"]}]
            key = next((k for k in keys if rep._match_known(k) is not None), keys[0])
            rep.violation(what, case=info, files={"a.asm": render(st, p, tw, [c])[0], "batch.asm": src}, key=key)
            return
        if t.sample is None and doc["k"] in ("int", "str") and len(st["defs"]) > 1 and c["call"] != "-":
            t.sample = {"definitions": info["definitions"], "probe": c["e"], "expected": doc, "observed": obs,
                        "options": info["options"], "source": render(st, p, tw, [c])[0]}
    else:
        t.open += 1
    if not devs and not same(mach, obs):
        t.drift += 1
        if t.shown < 5:
            t.shown += 1
            rep.drift("user function model: `%s` with %s (p=%d, %s, -U=%s, radix %d): transcription of the code says %s, "
                      "observed %s" % (c["e"], info["definitions"], p, "2 passes" if tw else "1 pass", st["cs"], st["radix"],
                                       mach, obs))


def replay(rep, bld, states, t):
    """render, assemble and judge the cases of these states"""
    batches, first = [], []
    for st in states:
        if st["redef"] or any(d["doc"] == "error" for d in st["defs"]):
            # the program as a whole is rejected (or the manual does not say): probe values cannot be seen; the
            # definitions part looks at the error messages
            t.unobservable += len(st["cases"])
            continue
        groups = {}
        for c in st["cases"]:
            groups.setdefault((c["p"], c["two"]), []).append(c)
        if fanout(st):
            first.append((st, groups))
            continue
        for (p, two), cs in sorted(groups.items()):
            cs.sort(key=lambda c: c["e"])
            # a case that runs into a named deviation of the pinned code stands alone: it may take the file with it
            alone = [c for c in cs if c["dev"]]
            vals = [c for c in cs if not c["dev"] and c["mach"]["k"] in ("int", "float", "str") and c["doc"]["k"] != "error"]
            errs = [c for c in cs if not c["dev"] and c not in vals]
            batches += [(st, p, two, part, 8) for part in (vals, errs) if part] + [(st, p, two, [c], 8) for c in alone]
    done = []            # (state, p, two, case, source, observation)
    # as long as the recursion with two calls does not end (known finding) two cases per such program are enough
    heads = []
    for st, groups in first:
        n = len(st["defs"])
        heads += [(st, n, False, [c], 3) for c in [c for c in groups.get((n, False), []) if c["mach"]["k"] == "error"][:2]]
    out = asm(bld, heads + batches)
    hanging = {id(j[0]) for (j, _, _, r) in out[:len(heads)] if r.timeout}
    singles = []
    for st, groups in first:
        if id(st) in hanging:
            t.skipped += len(st["cases"]) - sum(1 for h in heads if h[0] is st)
        else:
            for (p, two), cs in sorted(groups.items()):
                singles += [(st, p, two, [c], 8) for c in cs if not any(h[0] is st and h[3][0] is c for h in heads)]
    for (j, src, slots, r) in out:
        st, p, two, cs = j[:4]
        clean = not er.crashed(r) and r.rc == 0 and r.p is not None
        errl = set() if er.crashed(r) else er.error_lines(r)
        for c, (slot, line) in zip(cs, slots):
            if len(cs) == 1 or clean:
                done.append((st, p, two, c, src, observe(r, slot, line)))
            elif line in errl and not (r.rc == 3 and line == max(errl)):
                done.append((st, p, two, c, src, {"k": "error", "lines": [line], "here": True}))
            else:
                singles.append((st, p, two, [c], 8))     # no code file and no message of its own: look at it alone
    for (j, src, slots, r) in asm(bld, singles):
        done.append((j[0], j[1], j[2], j[3][0], src, observe(r, slots[0][0], slots[0][1])))
    t.sources += len(batches) + len(singles)
    for d in done:
        judge(rep, t, *d)

    # ---- definitions: an error exactly where the manual demands one, none on a well-formed statement --------------
    djobs = [(st, render(st, len(st["defs"]), False, [])[0]) for st in states if st["defs"]]
    dres = aslrun.assemble_many(bld, [{"sources": {"a.asm": src}, "opts": opts(st), "timeout": 6} for st, src in djobs])
    t.sources += len(djobs)
    for (st, src), res in zip(djobs, dres):
        first_line = len(HEADER.rstrip("\n").split("\n")) + (1 if st["radix"] != 10 else 0) + 1
        errs = er.error_lines(res)
        for i, d in enumerate(st["defs"]):
            t.cases += 1
            rep.evaluated()
            got_err = (first_line + i) in errs
            if er.crashed(res):
                t.bad += 1
                rep.violation("FUNCTION statement `%s`: abnormal end rc=%s sig=%s" % (d["line"], res.rc, res.sig),
                              case=st["defs"], files={"a.asm": src}, key={"dev": "none", "obs": "crash"})
            elif d["doc"] == "error" and not got_err:
                t.bad += 1
                rep.violation("FUNCTION statement `%s` violates the documented form (parameter names must be macro symbol names; "
                              "at least one parameter) but no error is reported on its line" % d["line"],
                              case=st["defs"], files={"a.asm": src}, key={"dev": "none", "obs": "silent", "call": "FUNCTION"})
            elif d["doc"] == "ok" and d["mach"] == "ok" and got_err:
                t.bad += 1
                rep.violation("well-formed FUNCTION statement `%s` is rejected: %s" % (d["line"], (res.out + res.err)[-200:]),
                              case=st["defs"], files={"a.asm": src}, key={"dev": "none", "obs": "error", "call": "FUNCTION"})
            elif (d["mach"] != "ok") != got_err:
                t.drift += 1
                if t.shown < 5:
                    t.shown += 1
                    rep.drift("user function model: FUNCTION statement `%s` status as coded %s, error observed: %s"
                              % (d["line"], d["mach"], got_err))


def run(rep, bld, tier):
    quick = tier == "quick"
    from vlib.common import pmap
    main_cfg = "UserFunc_MC.cfg" if quick else "UserFunc_MC_full.cfg"
    fixed_cfg = "UserFunc_MC_fixed.cfg"

    def job(cfg):
        return tlc.run("UserFunc_MC", cfg, workers=4 if cfg == main_cfg else 1, timeout=300 if quick else 3000,
                       mem="6g", collect=cfg == main_cfg)
    cfgs = [main_cfg] + DEV_CFGS + ([] if quick else [fixed_cfg])
    with Phase("userfunc: TLC model check + case generation, %d model mutations" % len(DEV_CFGS)):
        outs = pmap(job, cfgs, workers=3)
    r = tlc.must(outs[0], "UserFunc_MC")
    if r.violation:
        raise CheckError("UserFunc_MC(%s): the specification violates its own invariants: %s" % (main_cfg, r.violation[:800]))
    rep.model("UserFunc_MC(%s)" % main_cfg, r)
    for cfg, d in zip(cfgs[1:], outs[1:]):
        if d.error and not d.violation:
            raise CheckError("UserFunc_MC(%s): %s" % (cfg, d.error[:400]))
        if cfg in DEV_CFGS and not d.violation:
            raise CheckError("UserFunc_MC(%s): the mutation of the model is not refuted" % cfg)
        if cfg == fixed_cfg:
            if d.violation:
                raise CheckError("UserFunc_MC(%s): the model with the proposed repairs violates Agreement: %s" % (cfg, d.violation[:400]))
            rep.model("UserFunc_MC(%s)" % cfg, d)
    states = [o for (tag, o) in r.printed if tag == "OUT"]
    r.printed = []
    if not states:
        raise CheckError("UserFunc_MC printed no case")
    t = Tally()
    t.bld = bld
    n_states, n_all = len(states), sum(len(s["cases"]) for s in states)
    with Phase("userfunc: replay of %d cases of %d programs into the real asl" % (n_all, n_states)):
        # the programs with a recursion first (a hanging assembler costs seconds), then chunks (memory of the worker pool)
        states.sort(key=lambda st: not fanout(st))
        while states:
            chunk, states = states[:400], states[400:]
            replay(rep, bld, chunk, t)
    rep.traces(t.sources)
    rep.part("UserFunc(replay)", states=n_states, cases=t.cases, with_verdict=t.verdict, open_in_manual=t.open,
             sources=t.sources, mismatches=t.bad, drift=t.drift, model_mutations_refuted=len(DEV_CFGS),
             skipped_while_recursion_fanout_hangs=t.skipped, cases_of_rejected_programs=t.unobservable)
    if t.sample:
        rep.sample(t.sample)
