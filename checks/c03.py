"""C03 - No input makes the assembler or a utility crash or hang.            level: exploration

This technique cannot prove memory safety.  It supplies (a) a systematic, MODEL-DERIVED input space that includes
the erroneous half of every modelled action, (b) the expected exit class computed by the specification, (c) a
run-time monitor: the `san` build flavour (vlib/sanbuild.py: clang ASan + the UBSan checks that map onto the
property text; the generic `asan` flavour is unusable, see sanbuild.py) plus wall-clock / output-size limits.

Specifications
  spec/NegSpace.tla        statement layer of as.c Produce_Code (SplitLine argument cut, recorder, macro openers,
                           CodeIFs, MACRO/EXITM/SHIFT/INCLUDE, pseudo ops of asmallg.c Pseudos[], data ops,
                           functions of function.c, operators of operator.c) as a nondeterministic machine
                           Outcomes(m, stmt) over the nesting state; rule of the negative space: defined effect or
                           ErrorStep; Exit(m) in {0,2,3}.
  spec/NegSpace_MC         (M) all statement sequences <= MaxLen over a reduced alphabet: totality (no stuck
                           state), documented exit, exit 0 => balanced, closers never underflow, wrong argument
                           count is an ErrorStep, skipped / recorded lines are inert, work bounded, StepRule.
  spec/NegSpace_Gen        (G) transition cover of the case graph context x statement(op, argc, pos, class):
                           every op of the table x argc in {lo-1..hi+1, 129..600} x class of the varied argument x
                           context {top, open, skip, rec, mac, rept, struct, sect, ltop, lnarrow, lshort}; the last
                           three run with the listing on (asl -L to a scratch file) under the default page, `page 0,5`
                           and `page 5` with a user function defined, so that every statement is also seen by the
                           listing printers and the symbol / function tables.  Size/count class {4,5,6,127,128,129,
                           255,256,257,511,512,513,1000,5000,32767,65536} for the first argument of every statement
                           that sizes the code buffer (DRES = DS/RMB/RES/BSS.., DFILL = FB/FW/DS n,v.., DDUP =
                           <n> DUP (v), DREP = [n]v, ALIGN n,fill) and for both arguments of PAGE.  Prints per case
                           the context statements, the closers of the optimistic outcome, the command line options,
                           the allowed exit statuses, `heavy`.
  spec/NegHist(_Gen)       third dimension: HISTORIES of <= 4 statements of one stateful family (stk: PUSHV/POPV/SET over the
                           name-sorted list of symbol stacks, modelled at pointer level with the list walk shaped like
                           PushSymbol/PopSymbol and five stack names that sort before / between / after each other and
                           the default stack; chr: CODEPAGE/CHARSET over the sorted list of code pages; sect, save,
                           struct, mac, func, enum).  TLC checks on every reached state: list sorted, acyclic and equal
                           to the set of non-empty stacks, STANDARD code page present, documented exit; and prints the
                           histories (quick: transition cover, one history per (model state, statement), stratified by
                           the shape of the structure before the last statement; thorough: every sequence, sampled).
  spec/NegSpace_Trace      (V) stmt-hook events (real stack depths after every line) of the replayed cases (and,
                           thorough, of all 201 golden programs) validated against the statement table.
  spec/CodeFileReader(_MC) byte-stream reader of toolutils.c + tool loops; machine = grammar (doc/file-formats.md),
                           termination; enumerates every truncation, single-field edit and single-bit flip of six
                           small valid files with class (ok / tolerated / malformed) and expected exit statuses.
  spec/HexReader           Intel-HEX reader of das.c; truncations and single character substitutions.
  spec/DasmFlow_Gen        (G) fourth dimension, for the utility DASL: the control-flow SHAPE of the memory image.  The
                           worklist of das.c main (spec/Dasm.tla) ends only because a successor inside an already
                           disassembled area is not queued again (AddressInChunk); which addresses that test sees depends
                           on where a branch sits in its area and where its target lies relative to the areas marked so
                           far.  Images = K <= 4 routines `<0..1 NOPs> <branch | jump | call> <return> <gap>`; target =
                           first address / flow instruction / return / address behind the return of its own or another
                           routine (self loop at an entry address, mutual branches between entry points, loop back to
                           the first instruction, forward and backward rings, stars, targets in the middle or at the
                           last address of an area, behind an area, outside the image); areas touching or apart; 1..4
                           entry addresses given directly or through a vector table in the image; one form per class of
                           target operand (relative / in-page / absolute; thorough: every form with a target) of the
                           three DASL targets (Isa6800 for 6800/6802, Isa4004, spec/Isa87Flow.tla = control-flow subset
                           of the TLCS-870 for 87C00).  TLC runs the worklist on every image and prints the expectation:
                           exit 0 after `steps` iterations (checked: steps <= 2 * image size + 2), the listed areas, and
                           the set of enqueue decision classes <flow class, instruction at area start, relation of the
                           target to the marked areas, same area, already queued> the run goes through.

Replay (all under the sanitizer build, stdin closed, time and output-size limits)
  asl   generic cases rendered for rotating CPU dialects; data / reserve / fill / DUP / [n] cases for every such
        statement a CPU accepts (discovered by ONE probing run per CPU named in the golden sources: one line per
        candidate mnemonic and shape, lines without an error are accepted).  Quick tier: one CPU per distinct
        acceptance signature (about 40 families) and for each (CPU, mnemonic, role) at least the counts 129, 257,
        513, 5000 that cross 128/256/512/4096 bytes; thorough: every CPU, ten count classes.  Cases planted into
        golden sources at a seed-chosen line.
  tools every generated code file x {plist, pbind, p2bin, p2hex, alink}; hex files x dasl -hexfile, the same bytes
        as -binfile, and binfile option classes.
  dasl  control-flow shape images (DasmFlow_Gen) x {-binfile, -hexfile} x CPU names of the family; quick: a seed-chosen
        sample that contains every decision class, every (form, pre, target position, K), every target pattern and every
        (K, entries, entry mode, gap) combination at least once (~500 images); thorough: 6000 of ~65000 images.  Verdict: dasl ends
        in time, without signal / sanitizer report, with a documented status; exit status 0 and the listed areas (= the
        areas the Dasm worklist marks) are SPEC-DRIFT only.
Verdict-bearing: signal / sanitizer report / timeout or runaway output (unless the model says the input describes
  >= 2^31 iterations, a WHILE or a self-recursive macro) / exit status outside the documented set / a malformed
  code file accepted with status 0 or 1.  A violation is reported only if a second run repeats it.
Not judged (SPEC-DRIFT at most): which statements are errors (finer `allowed` set), rejection of well-formed
  files, acceptance of malformed hex files by dasl, stack relation of NegSpace_Trace.

Bounds: one varied argument per statement (+ all-arguments variants), <= 600 arguments, one level of context,
  histories of <= 4 statements within ONE family (no cross-family interleavings), 5 stack / 3 code page names,
  files <= ~100 bytes; quick runs a stratified seed-chosen sample (every op x context at least once); dasl images of
  <= 4 routines with ONE flow instruction each (free combinations for <= 2 routines in the thorough tier, else uniform
  patterns), targets on instruction starts only, 2-byte vectors, load addresses 0 and 256.
NOT covered: dasl images whose control flow enters the middle of an instruction or a vector cell, CALLV / CALLP of the
  87C00 (targets in the fixed top page), -symbol; raw byte / grammar-blind fuzzing, CPU instruction operands, options of asl other than -q and -L,
  I/O errors, memory exhaustion, inputs longer than the bounds; absence of out-of-bounds accesses is only as good
  as ASan/UBSan detection on the explored inputs.

Mutations tried (patches in selftest/C03-m*.diff, applied to a scratch copy, `VERIF_REPO=<copy> ./check C03 --tier quick`):
  m1 asmallg.c CodeALIGN: zero test removed (`align 0` divides by zero again)        -> VIOLATION (sanitizer, CodeALIGN)
  m2 asmif.c CodeENDIF: empty-stack test inverted (stray ENDIF dereferences NULL)    -> VIOLATION (SEGV in CodeENDIF)
  m3 toolutils.c FormatError: exit(3) -> exit(0)                                     -> VIOLATION x20 (malformed accepted)
  m4 toolutils.c ReadHeaderByte: truncation no longer a format error                 -> VIOLATION x20 (tools hang)
  m5 natpseudo.c DecodeFx: SetMaxCodeLen(Size) instead of (Size << Shift)            -> VIOLATION (`fw 129,1` on COP410)
  m6 asmpars.c PushSymbol: the two statements of the list walk swapped (cyclic list)  -> VIOLATION (hang on the 4th
     PUSHV, use after free in ClearStacks); the same swap in NegHist.tla Walk()        -> TLC: StackListOK violated
  m7 chunks.c AddressInChunk: lower bound `Start <= Address` -> `Address > Start` (the first address of an area counts
     as not yet disassembled; `nmi: bra nmi` or `swi: bra irq / irq: bra swi` re-queue each other forever; the 201 golden
     tests and all other phases of this check pass)                                    -> VIOLATION x8 (dasl timeout on the
     shape images, every CPU name x load mode); missed before the DasmFlow_Gen dimension existed: the only dasl inputs were
     the HexReader fault files, whose 6 data bytes contain no branch back to an area start.
  spec mutant: Pseudo() accepts a closer without opener silently                     -> NegSpace_MC: ClosersNeverUnderflow violated
  corrupted trace: `std` changed by an ALIGN event / stray ENDSTRUCT without error   -> NegSpace_Trace prints both as BAD
History: on the pinned tree the exploration found 16 defect families (ALIGN 0, empty symbol name, > 3 function
  arguments, SUBSTR / CHARFROMSTR ranges, tab expansion of recorded lines, IRPN -1, ~30 data pseudo ops writing beyond
  the code buffer, M16 OpSize[], CP-1600 ZERO, NULL put function in intpseudo.c, the code file reader of all five tools
  (hangs, SIGFPE, out-of-bounds, accepted malformed files), dasl on an empty image, p2hex granularity 255); fixes are in
  proposed_fixes/C03-*.diff, known_findings/C03.json records which are applied ("fixed") and which still are "known".
  Round 3 (histories, tool option class -f): PUSHV keeps a shallow copy of a string value (use after free / double
  free), more than 100 distinct -f values overflow FilterBytes[100] -- two more proposed fixes / known entries.
  Round 2 (count classes, -L): symbol list with a page narrower than an entry, WrLstLine's 2500 byte buffer, DN on
  byte-granular targets (IncCurrCodeFill) -- three more proposed fixes / known entries.
"""
import json
import os
import threading

from vlib import aslrun, build, c03flow, c03lib, c03run, sanbuild, tlc
from vlib.common import CheckError, Phase, log, rng, NCPU
from vlib.report import Report

PID = "C03"
TOOLS = {"plist": ["plist", "x.p"], "pbind": ["pbind", "x.p", "y.p"],
         "p2bin": ["p2bin", "x.p", "y.bin", "-r", "0x0-0x7fff"], "p2hex": ["p2hex", "x.p", "y.hex", "-r", "0x0-0x7fff"],
         "alink": ["alink", "x.p", "y.p"]}
TOOL_ENV = {"ASAN_OPTIONS": "detect_leaks=0:abort_on_error=0:exitcode=99:allocator_may_return_null=1"}
MSGS = ["tools.msg", "cmdarg.msg", "ioerrs.msg"]

SIZES = {  # tier -> sample sizes
    "quick": dict(generic=6000, data=900, data_cpus=18, plant=100, hist=1700, toolruns=650, hex=120, trace=1500,
                  flow=520, t_asl=12, t_tool=1.5),
    "thorough": dict(generic=50000, data=20000, data_cpus=10 ** 9, plant=3000, hist=20000, toolruns=10 ** 9, hex=10 ** 9,
                     trace=20000, flow=6000, t_asl=30, t_tool=3),
}


# ---------------------------------------------------------------------------------------------------------
# keys and judgement
# ---------------------------------------------------------------------------------------------------------
def asl_key(case, cpu, res, fail, mnemonic=None, planted=None):
    k = c03lib.case_key(case, cpu, mnemonic)
    s = case["s"]
    k["arg1class"] = s["cls"] if s["pos"] in (1, 99) else "ok"
    k["fail"] = fail
    k["where"] = c03run.where(res)
    k["heavy"] = bool(case["heavy"])
    k["listing"] = "-L" in case.get("opts", [])
    if planted:
        k["planted"] = planted
    return k


def judge_asl(rep, case, cpu, src, res, documented, mnemonic=None, planted=None, files=None):
    """-> (failure class or None, drift text or None)"""
    fail = c03run.failure(res, documented)
    if fail == "timeout" and case["heavy"]:
        return None, None            # the model says the input itself describes unbounded / 2^31-fold work
    if fail:
        return fail, None
    if res["rc"] not in case["allowed"] and not planted:
        return None, "asl %s ctx=%s: exit %s, model allows %s" % (case["s"]["op"], case["ctx"], res["rc"],
                                                                    case["allowed"])
    return None, None


def stratified(cases, n, r, keyf):
    """seed-chosen sample of n cases containing at least one case of every stratum"""
    if n >= len(cases):
        return list(cases)
    only_strata = n <= 0
    by = {}
    for c in cases:
        by.setdefault(keyf(c), []).append(c)
    out, rest = [], []
    for k in sorted(by):
        lst = by[k]
        r.shuffle(lst)
        out.append(lst[0])
        rest += lst[1:]
    r.shuffle(rest)
    if only_strata:
        return out
    if len(out) > n:
        r.shuffle(out)
        return out[:n]
    return out + rest[:n - len(out)]


def to_trace_events(trace):
    """stmt hook records -> executions (one per pass) of NegSpace_Trace events (reformatting only).
    A statement that emitted code bytes is a machine instruction / data statement even if its mnemonic is
    also the name of a nesting pseudo op on other CPUs (RESTORE on NS32K, SWITCH on OLMS-50)."""
    execs, cur = [], None
    for e in trace or ():
        if e.get("e") == "pass_begin":
            cur = []
            execs.append(cur)
        elif e.get("e") == "stmt" and cur is not None:
            op = e["op"].upper()
            if e.get("len", 0) > 0 and not e.get("res"):
                op = "INSN:" + op
            cur.append({"a": "S", "op": op, "argc": e["argc"], "ifasm": bool(e["ifasm"]), "rec": bool(e["rec"]),
                        "ifd": len(e["ifs"]), "std": e["std"], "sed": e["sed"], "svd": e["svd"], "phd": e["phd"],
                        "seg": e["seg"], "tagd": e["tagd"], "errs": e["errs"]})
    return execs


def validate_traces(rep, execs, names, what):
    """TLC validates all executions in one run; rejected steps are SPEC-DRIFT (finer than the property)."""
    import tempfile
    from vlib.common import scratch
    flat, owner = [], []
    for xi, ex in enumerate(execs):
        flat.append({"a": "RESET"})
        owner.append((xi, -1))
        for ei, e in enumerate(ex):
            flat.append(e)
            owner.append((xi, ei))
    if not flat:
        return
    fd, path = tempfile.mkstemp(prefix="c03trace-", suffix=".ndjson", dir=scratch())
    os.close(fd)
    tlc.write_ndjson(flat, path)
    r = tlc.must(tlc.run("NegSpace_Trace", "NegSpace_Trace.cfg", workers=1, env={"TRACE": path}, timeout=1500,
                         tags=("BAD",), mem="8g"), "NegSpace_Trace")
    os.unlink(path)
    if r.violation:
        raise CheckError("NegSpace_Trace did not consume the trace: %s" % r.violation[:400])
    rep.part("NegSpace_Trace(%s)" % what, events=len(flat), executions=len(execs), rejected_steps=len(r.printed),
             distinct_states=r.distinct, wall_s=r.wall)
    rep.cov["states"] += r.distinct
    rep.cov["transitions"] += r.generated
    rep.traces(len(execs))
    seen = set()
    for (_, b) in r.printed:
        xi, ei = owner[b["l"] - 1]
        ev = execs[xi][ei]
        k = (ev["op"], what)
        if k in seen:
            continue
        seen.add(k)
        prev = execs[xi][ei - 1] if ei > 0 else None
        rep.drift("%s: step not allowed by NegSpace_Trace at %s: %s -> %s" % (what, names[xi], prev, ev))


# ---------------------------------------------------------------------------------------------------------
# main
# ---------------------------------------------------------------------------------------------------------
class Confirm:
    """collects candidate violations; an unknown one is re-run once (fresh process, generous limits)"""

    def __init__(self, rep, bld):
        self.rep, self.bld = rep, bld
        self.pending = []

    def add(self, what, key, job, case, files):
        if os.environ.get("VERIF_C03_DUMP"):
            with open(os.environ["VERIF_C03_DUMP"], "a") as f:
                f.write(json.dumps({"key": key, "what": what[:300]}) + "\n")
        if self.rep._match_known(key) is not None:
            self.rep.violation(what, case=case, files=files, key=key)     # prints KNOWN-FINDING once per entry
            return
        self.pending.append((what, key, job, case, files))

    def flush(self, documented_of):
        if not self.pending:
            return
        # at most 60 distinct (fail, where, stmt/tool) groups are re-run and reported
        groups = {}
        for item in self.pending:
            k = item[1]
            g = (k.get("tool"), k.get("fail"), k.get("where"), k.get("stmt") or k.get("why"), k.get("field"))
            groups.setdefault(g, item)
        items = list(groups.values())[:60]
        jobs = []
        for (what, key, job, case, files) in items:
            j = dict(job)
            j["timeout"] = max(20, 4 * job.get("timeout", 5))
            jobs.append(j)
        res = c03run.run_jobs(self.bld, jobs, workers=min(NCPU, 6))
        for (what, key, job, case, files), r in zip(items, res):
            fail2 = c03run.failure(r, documented_of(key))
            accepted = key.get("fail") == "accepted" and r["rc"] in (0, 1)
            if fail2 or accepted:
                files = dict(files)
                files["cmd.json"] = json.dumps({"cmd": job["cmd"], "files": sorted(job["files"]),
                                                "msglinks": job.get("msglinks", []), "env": job.get("env", {})})
                files["stderr.txt"] = r["err"]
                self.rep.violation(what + " (repeated on a second run: %s)" % (fail2 or "accepted"), case=case,
                                   files=files, key=key)
            else:
                log("[C03] not repeated on a second run, dropped: %s" % what[:200])
        self.pending = []


def main(tier):
    rep = Report(PID, tier, level="exploration")
    sz = SIZES[tier]
    r = rng("c03")
    bld = sanbuild.get()
    hook = build.get("hook")
    rep.assumptions += ["monitor: clang AddressSanitizer + UBSan(bounds, integer-divide-by-zero, vla-bound, unreachable), "
                        "wall-clock and output-size limits; memory safety is NOT proven",
                        "TLC explores the NegSpace / CodeFileReader / HexReader designs only up to the stated bounds",
                        "renderers (vlib/c03lib.py) and the classification of a run (vlib/c03run.py) are trusted",
                        "hooks: %s" % ("stmt events" if bld.hooks else "unavailable")]
    conf = Confirm(rep, bld)

    # ---- (M) model checks, started in the background ------------------------------------------------------
    mc_out = {}

    def run_mc():
        try:
            cfg = "NegSpace_MC.cfg" if tier == "quick" else "NegSpace_MC4.cfg"
            mc_out["neg"] = tlc.run("NegSpace_MC", cfg, workers=4, timeout=1500, mem="8g", collect=False)
        except Exception as ex:     # reported by the main thread
            mc_out["err"] = ex
    th = threading.Thread(target=run_mc)
    th.start()

    # ---- (G) control-flow shape images for dasl (DasmFlow_Gen), generated in the background ---------------
    flow_out = {}

    def run_flow():
        try:
            for isa in c03flow.ISAS:
                flow_out[isa] = tlc.run("DasmFlow_Gen", "DasmFlow_Gen%s_%s.cfg" % ("Q" if tier == "quick" else "", isa),
                                        workers=1, timeout=3000, mem="4g")
        except Exception as ex:     # reported by the main thread
            flow_out["err"] = ex
    tf = threading.Thread(target=run_flow)
    tf.start()

    # ---- (G) generation -----------------------------------------------------------------------------------
    with Phase("TLC case generation"):
        gen = tlc.must(tlc.run("NegSpace_Gen", "NegSpace_GenQ.cfg" if tier == "quick" else "NegSpace_Gen.cfg",
                               workers=1, timeout=1500, mem="8g"), "NegSpace_Gen")
        if gen.violation:
            raise CheckError("NegSpace_Gen violates its invariant: %s" % gen.violation[:500])
        rep.model("NegSpace_Gen(cover)", gen)
        cases = [c for (t, c) in gen.printed if t == "TR"]
        docs = [c for (t, c) in gen.printed if t == "OUT" and "documented" in c]
        if not docs or not cases:
            raise CheckError("NegSpace_Gen printed no cases")
        asl_doc = set(docs[0]["documented"])
        cf = tlc.must(tlc.run("CodeFileReader_MC", "CodeFileReader_MCQ.cfg" if tier == "quick" else
                              "CodeFileReader_MC.cfg", workers=1, timeout=900, mem="4g", keep_out=True),
                      "CodeFileReader_MC")
        if cf.violation:
            raise CheckError("CodeFileReader_MC: the reader design violates its invariants: %s" % cf.violation[:500])
        rep.model("CodeFileReader_MC", cf)
        cfiles = [x for (t, x) in cf.printed if t == "OUT" and "bytes" in x]
        tool_doc = set([x for (t, x) in cf.printed if t == "OUT" and "documented" in x][0]["documented"])
        hx = tlc.must(tlc.run("HexReader", "HexReader.cfg", workers=1, timeout=300), "HexReader")
        if hx.violation:
            raise CheckError("HexReader violates its invariants: %s" % hx.violation[:500])
        rep.model("HexReader", hx)
        hexfiles = [x for (t, x) in hx.printed if t == "OUT"]
        hg = tlc.must(tlc.run("NegHist_Gen", "NegHist_GenQ.cfg" if tier == "quick" else "NegHist_Gen.cfg", workers=1,
                              timeout=1500, mem="8g"), "NegHist_Gen")
        if hg.violation:
            raise CheckError("NegHist_Gen: the design of the stateful structures violates its invariants: %s" % hg.violation[:500])
        rep.model("NegHist_Gen", hg)
        hists = [c for (t, c) in hg.printed if t == "TR"]
    rep.part("generation", asl_cases=len(cases), histories=len(hists), code_files=len(cfiles), hex_files=len(hexfiles))

    # cross-check of the independent Python reader/writer against the specification (binding of the two readers)
    from vlib import codefile
    structural = ("bad magic", "truncated", "unknown header", "no creator", "claims")
    for x in cfiles:
        pr = codefile.parse(bytes(x["bytes"]))
        # granularity / segment-number policy differs between the two readers by design; structure must agree
        pr.problems = [p for p in pr.problems if any(k in p for k in structural)]
        if x["class"] == "ok" and not pr.well_formed:
            rep.drift("codefile.parse rejects a file the specification classes ok: %s %s (%s)" %
                      (x["base"], x["fault"], pr.problems[:1]))
        if x["class"] == "malformed" and x["why"] in ("magic", "trunc", "header", "length") and pr.well_formed:
            rep.drift("codefile.parse accepts a file the specification classes malformed: %s %s (%s)" %
                      (x["base"], x["fault"], x["why"]))

    generic = [c for c in cases if c["g"] != "da"]
    datac = [c for c in cases if c["g"] == "da"]

    # ---- asl: generic statements ----------------------------------------------------------------------------
    # every (op, class, position) at least once, then every (op, context), then seed-chosen fill
    first = stratified(generic, 0, r, lambda c: (c["s"]["op"], c["s"]["cls"], c["s"]["pos"])) if sz["generic"] < len(generic) else []
    ids = set(id(c) for c in first)
    second = [c for c in stratified([c for c in generic if id(c) not in ids], 0, r, lambda c: (c["s"]["op"], c["ctx"]))
              if (c["s"]["op"], c["ctx"]) not in set((x["s"]["op"], x["ctx"]) for x in first)] if first else []
    ids |= set(id(c) for c in second)
    rest = [c for c in generic if id(c) not in ids]
    r.shuffle(rest)
    sample = (first + second + rest)[:max(sz["generic"], len(first) + len(second))] if first else list(generic)
    dialects = c03lib.DIALECTS[:5] if tier == "quick" else c03lib.DIALECTS
    jobs, meta = [], []
    ntrace = 0
    for i, c in enumerate(sample):
        cpu = dialects[i % len(dialects)]
        src = c03lib.case_source(c, cpu)
        f = dict(c03lib.AUX_FILES)
        f["a.asm"] = src
        j = {"files": f, "cmd": ["asl", "-q"] + list(c.get("opts", [])) + ["a.asm"],
             "timeout": 3 if c["heavy"] else sz["t_asl"]}
        if bld.hooks and not c["heavy"] and c["s"]["argc"] <= 4 and ntrace < sz["trace"]:
            j["trace"] = "file,stmt"
            j["trace_filter"] = ("pass_begin", "stmt")
            ntrace += 1
        jobs.append(j)
        meta.append((c, cpu, src))
    with Phase("asl generic: %d cases" % len(jobs)):
        results = c03run.run_jobs(bld, jobs)
    execs, names = [], []
    ndrift, dex = {}, {}
    for (c, cpu, src), j, res in zip(meta, jobs, results):
        rep.evaluated()
        rep.distinct(src, True)
        fail, drift = judge_asl(rep, c, cpu, src, res, asl_doc)
        if fail:
            key = asl_key(c, cpu, res, fail)
            conf.add("asl %s on `%s` (ctx %s, cpu %s): %s" % (fail, c03lib.render_stmt(c["s"], cpu, 1, c["g"])[:160],
                                                               c["ctx"], cpu, res["san"] or res["err"][-200:]),
                     key, j, c, {"a.asm": src})
        elif drift:
            dk = (c["s"]["op"], c["ctx"], tuple(c["allowed"]), res["rc"])
            ndrift[dk] = ndrift.get(dk, 0) + 1
            dex.setdefault(dk, c03lib.render_stmt(c["s"], cpu, 1, c["g"])[:60])
        if res.get("trace"):
            for x in to_trace_events(res["trace"]):
                execs.append(x)
                names.append("%s/%s" % (c["ctx"], c["s"]))
    for (c, cpu, src) in meta[:2]:
        rep.sample({"case": c, "cpu": cpu, "rendered": src[:600]})
    rep.part("asl_generic", runs=len(jobs), exit_class_mismatches=sum(ndrift.values()),
             mismatch_kinds=len(ndrift))
    for dk in sorted(ndrift, key=lambda k: -ndrift[k])[:12]:
        rep.drift("exit class: %s in ctx %s: model allows %s, asl exits %s (%d cases, e.g. `%s`)" %
                  (dk[0], dk[1], list(dk[2]), dk[3], ndrift[dk], dex[dk]))

    # ---- asl: data / reserve / fill / repeat statements of every CPU family ------------------------------
    cpus = c03lib.corpus_cpus()
    main_cpus = [c.upper() for c in c03lib.DIALECTS]
    with Phase("probe data pseudo ops on %d CPUs" % len(cpus)):
        acc = c03lib.probe_ops(hook, cpus)
    # EXPECT around a FATAL condition (found by hand while strengthening C02: `expect 10001` around an INCLUDE of a
    # missing file made asl go on with a NULL file and loop for ever; repaired in /repo): a fatal error ends the run
    # with status 3 whatever an EXPECT block announces
    fat = [("include \"nosuchfile.inc\"", 10001), ("binclude \"nosuchfile.bin\"", 10001), ("fatal \"stop\"", 10009),
           ("include \"nosuchfile.inc\"", 10009)]
    fjobs = [{"files": {"a.asm": "\tcpu z80\n\texpect %d\n\t%s\n\tendexpect\n\tdb 1\n" % (num, st)},
              "cmd": ["asl", "-q", "a.asm"], "timeout": 20} for (st, num) in fat]
    for (st, num), fr in zip(fat, c03run.run_jobs(hook, fjobs)):
        rep.evaluated()
        fw = c03run.failure(fr, (2, 3))
        if fw:
            rep.violation("asl does not end normally (%s) on a fatal condition inside EXPECT %d: `%s`" % (fw, num, st),
                          case={"stmt": st, "expect": num}, files={"a.asm": fjobs[fat.index((st, num))]["files"]["a.asm"]},
                          key={"kind": "expect-fatal"})
    for (pcpu, psrc, pres) in c03lib.PROBE_ABNORMAL:
        # bisect to the first line that does it alone (cpu line + one statement)
        plines = psrc.split("\n")
        culprit = None
        for ln in plines[1:]:
            if not ln.strip():
                continue
            r1 = c03run.run_jobs(hook, [{"files": {"a.asm": plines[0] + "\n" + ln + "\n"},
                                         "cmd": ["asl", "-q", "a.asm"], "timeout": 20}])[0]
            if r1["timeout"] or r1["sig"] is not None or r1["san"]:
                culprit = (ln, r1)
                break
        what = c03run.failure(culprit[1] if culprit else pres, (0, 2, 3)) or "abnormal end"
        rep.violation("asl ends abnormally (%s) on a plain data statement for CPU %s: `%s`"
                      % (what, pcpu, (culprit[0].strip() if culprit else "probe source")), case={"cpu": pcpu},
                      files={"a.asm": (plines[0] + "\n" + culprit[0] + "\n") if culprit else psrc},
                      key={"kind": "data-probe", "cpu": pcpu, "stmt": culprit[0].split()[0].upper() if culprit else "?"})
    # CPUs that accept exactly the same statements in every role share one implementation family for the quick tier
    sigs = {}
    for cpu in sorted(acc):
        sigs.setdefault(tuple(sorted((ro, tuple(m)) for ro, m in acc[cpu].items())), []).append(cpu)
    reps = sorted(set(v[0] for v in sigs.values()) | set(c for c in main_cpus[:6] if c in acc))
    use_cpus = sorted(acc) if sz["data_cpus"] >= len(acc) else reps
    rep.part("data_ops", cpus_probed=len(acc), signatures=len(sigs), cpus_used=len(use_cpus),
             accepted={ro: sum(len(v.get(ro, [])) for v in acc.values()) for ro in ("data", "res", "fill", "dup", "rep")})
    dj, dm = [], []
    top = [c for c in datac if c["ctx"] == "top"]
    other = [c for c in datac if c["ctx"] != "top"]
    is_count = lambda c: c["s"]["op"] in ("DRES", "DFILL", "DDUP", "DREP") and c["s"]["pos"] == 1 and \
        c["s"]["cls"][:1] == "c" and c["s"]["cls"][1:].isdigit()
    allpairs, countpairs = [], []
    for cpu in use_cpus:
        for c in top:
            role = c03lib.ROLE_OF_OP[c["s"]["op"]]
            for mn in acc[cpu].get(role, []):
                (countpairs if is_count(c) else allpairs).append((c, cpu, mn))
    for c in other:            # other contexts (incl. the listing ones) only on the main dialects
        for cpu in main_cpus[:5]:
            for mn in acc.get(cpu, {}).get(c03lib.ROLE_OF_OP[c["s"]["op"]], [])[:3]:
                allpairs.append((c, cpu, mn))
    # count classes: every (CPU family, statement, role) at least at the sizes that cross 128 / 256 / 512 / 4096 bytes
    crossing = ("c129", "c257", "c513", "c5000")
    if tier != "quick":
        crossing += ("c128", "c256", "c512", "c1000", "c32767", "c65536")
    must = [t for t in countpairs if t[0]["s"]["cls"] in crossing and t[0]["s"]["argc"] == (2 if t[0]["s"]["op"] == "DFILL" else 1)]
    mids = set(id(t) for t in must)
    pick = must + stratified([t for t in allpairs + countpairs if id(t) not in mids], sz["data"],
                             rng("c03/data"), lambda t: (t[1], t[2], t[0]["s"]["op"], t[0]["s"]["argc"] > 4))
    for (c, cpu, mn) in pick:
        src = c03lib.case_source(c, cpu, mn)
        dj.append({"files": {"a.asm": src}, "cmd": ["asl", "-q"] + list(c.get("opts", [])) + ["a.asm"], "timeout": sz["t_asl"]})
        dm.append((c, cpu, mn, src))
    with Phase("asl data: %d cases (%d size/count cases)" % (len(dj), len(must))):
        dres = c03run.run_jobs(bld, dj)
    for (c, cpu, mn, src), j, res in zip(dm, dj, dres):
        rep.evaluated()
        rep.distinct(src, True)
        fail, drift = judge_asl(rep, c, cpu, src, res, asl_doc, mnemonic=mn)
        if fail:
            key = asl_key(c, cpu, res, fail, mnemonic=mn)
            conf.add("asl %s on `%s` (cpu %s): %s" % (fail, c03lib.render_stmt(c["s"], cpu, 1, c["g"], mn)[:120], cpu,
                                                      res["san"] or res["err"][-200:]), key, j, c, {"a.asm": src})
    if dm:
        rep.sample({"case": dm[0][0], "cpu": dm[0][1], "mnemonic": dm[0][2], "rendered": dm[0][3][:300]})

    # ---- asl: planted into golden sources -------------------------------------------------------------------
    tests = aslrun.corpus()
    plantable = [c for c in generic if c["g"] not in ("call", "inc") and c["s"]["argc"] <= 4 and not c["heavy"]]
    pr_ = rng("c03/plant")
    pj, pm = [], []
    for i in range(min(sz["plant"], 40 * len(tests))):
        t = tests[i % len(tests)]
        c = plantable[pr_.randrange(len(plantable))]
        with open(t[2], "rb") as fh:
            text = fh.read().decode("latin-1")
        nl = text.count("\n")
        at = pr_.randrange(1, max(2, nl))
        lines = c03lib.case_lines(c, "z80", None, k0=900 + i)
        src = c03lib.plant(text, lines, at)
        f = dict(c03lib.AUX_FILES)
        f[t[0] + ".asm"] = src
        cmd = ["asl"] + t[3] + ["-q"] + list(c.get("opts", [])) + ["-i", t[1], "-i", aslrun.INCLUDE, t[0] + ".asm"]
        pj.append({"files": f, "cmd": cmd, "timeout": 90})
        pm.append((c, t[0], at, src))
    with Phase("asl planted: %d golden sources" % len(pj)):
        pres = c03run.run_jobs(bld, pj)
    for (c, tn, at, src), j, res in zip(pm, pj, pres):
        rep.evaluated()
        rep.distinct(src, True)
        fail, _ = judge_asl(rep, c, "golden", src, res, asl_doc, planted=tn)
        if fail:
            key = asl_key(c, "golden", res, fail, planted=tn)
            conf.add("asl %s with `%s` planted at line %d of %s: %s" % (fail, c03lib.render_stmt(c["s"], "z80", 1, c["g"])[:120],
                                                                        at, tn, res["san"] or res["err"][-200:]),
                     key, j, c, {tn + ".asm": src})
    rcs = {}
    for res in pres:
        rcs[res["rc"]] = rcs.get(res["rc"], 0) + 1
    rep.part("asl_planted", runs=len(pj), exit_statuses={str(k): v for k, v in rcs.items()})
    if pm:
        rep.sample({"planted_into": pm[0][1], "line": pm[0][2], "case": pm[0][0]})

    # ---- asl: histories of stateful statements (NegHist) ---------------------------------------------------
    hs_ = stratified(hists, sz["hist"], rng("c03/hist"),
                     lambda c: (c["fam"], tuple(c["shape"]), json.dumps(c["stmts"][-1], sort_keys=True)))
    qj, qm = [], []
    for i, c in enumerate(hs_):
        cpu = c03lib.HIST_CPUS[i % len(c03lib.HIST_CPUS)]
        src = c03lib.hist_source(c, cpu)
        qj.append({"files": {"a.asm": src}, "cmd": ["asl", "-q", "a.asm"], "timeout": sz["t_asl"]})
        qm.append((c, cpu, src))
    with Phase("asl histories: %d cases" % len(qj)):
        qres = c03run.run_jobs(bld, qj)
    hdrift = {}
    for (c, cpu, src), j, res in zip(qm, qj, qres):
        rep.evaluated()
        rep.distinct(src, True)
        fail = c03run.failure(res, asl_doc)
        kinds = [st["k"] for st in c["stmts"]]
        if fail:
            key = {"tool": "asl", "hist": c["fam"], "fail": fail, "where": c03run.where(res), "last": kinds[-1],
                   "len": len(kinds), "string_pushed": any(k in ("PUSHS", "PUSH2") for k in kinds),
                   "string_set": "SETS" in kinds}
            conf.add("asl %s on the %s history %s (cpu %s): %s" % (fail, c["fam"], " ; ".join(
                l.strip() for st_i, st in enumerate(c["stmts"], 1) for l in c03lib.render_hist_stmt(c["fam"], st, st_i))[:200],
                cpu, res["san"] or res["err"][-200:]), key, j, c, {"a.asm": src})
        elif res["rc"] not in c["allowed"]:
            dk = (c["fam"], kinds[-1], tuple(c["allowed"]), res["rc"])
            hdrift[dk] = hdrift.get(dk, 0) + 1
    for dk in sorted(hdrift, key=lambda k: -hdrift[k])[:8]:
        rep.drift("history %s ending in %s: model allows %s, asl exits %s (%d cases)" % (dk[0], dk[1], list(dk[2]), dk[3], hdrift[dk]))
    if qm:
        rep.sample({"history": qm[len(qm) // 2][0], "rendered": qm[len(qm) // 2][2]})

    # ---- tools: generated code files --------------------------------------------------------------------------
    tj, tm = [], []
    pairs = [(x, t) for x in cfiles for t in TOOLS]
    pairs = stratified(pairs, sz["toolruns"], rng("c03/tools"), lambda p: (p[1], p[0]["fault"]["k"], p[0]["why"], p[0]["field"]))
    for (x, t) in pairs:
        tj.append({"files": {"x.p": bytes(x["bytes"])}, "cmd": TOOLS[t], "timeout": sz["t_tool"],
                   "msglinks": [t + ".msg"] + MSGS, "env": TOOL_ENV})
        tm.append((x, t))
    # option class of the tools that filter by CPU header: 0 / 60 / 120 / 180 / 256 distinct -f values over several options
    okfile = [x for x in cfiles if x["fault"]["k"] == "none"][0]
    for t in ("pbind", "p2bin", "p2hex"):
        for nvals in (0, 60, 120, 180, 256):
            opts = []
            for lo in range(0, nvals, 60):
                opts += ["-f", ",".join("$%x" % v for v in range(lo, min(lo + 60, nvals)))]
            tj.append({"files": {"x.p": bytes(okfile["bytes"])}, "cmd": TOOLS[t] + opts, "timeout": sz["t_tool"],
                       "msglinks": [t + ".msg"] + MSGS, "env": TOOL_ENV})
            tm.append((dict(okfile, fault={"k": "option-f%d" % nvals, "off": 0}, field="cmdline", **{"class": "tolerated"},
                            expected=[0, 1, 2, 3]), t))
    with Phase("tools: %d runs" % len(tj)):
        tres = c03run.run_jobs(bld, tj)
    nrej_ok = {}
    for (x, t), j, res in zip(tm, tj, tres):
        rep.evaluated()
        rep.distinct((t, bytes(x["bytes"])), x["fault"]["k"] != "none")
        key = {"tool": t, "class": x["class"], "why": x["why"], "fault": x["fault"]["k"], "field": x["field"],
               "base": x["base"], "where": c03run.where(res)}
        fail = c03run.failure(res, tool_doc)
        desc = "%s on %s/%s@%d (%s, field %s)" % (t, x["base"], x["fault"]["k"], x["fault"]["off"], x["class"], x["field"])
        if fail:
            key["fail"] = fail
            conf.add("%s: %s %s" % (desc, fail, res["san"] or ""), key, j, x, {"x.p": bytes(x["bytes"])})
        elif x["class"] == "malformed" and res["rc"] not in x["expected"]:
            key["fail"] = "accepted"
            conf.add("%s: malformed code file (%s) not rejected, exit %s" % (desc, x["why"], res["rc"]), key, j, x,
                     {"x.p": bytes(x["bytes"])})
        elif res["rc"] not in x["expected"]:
            nrej_ok[(t, x["class"], res["rc"])] = nrej_ok.get((t, x["class"], res["rc"]), 0) + 1
    for k in sorted(nrej_ok):
        rep.drift("tools: %s exits %s on %d files of class %s" % (k[0], k[2], nrej_ok[k], k[1]))
    rep.sample({"code_file": cfiles[len(cfiles) // 2]})

    # ---- dasl ---------------------------------------------------------------------------------------------------
    hj, hm = [], []
    hs = stratified(hexfiles, sz["hex"], rng("c03/hex"), lambda x: (x["fault"]["k"], x["verdict"], x["fault"]["ch"]))
    for x in hs:
        data = bytes(x["bytes"])
        for mode in ("hexfile", "binfile"):
            hj.append({"files": {"x.dat": data}, "cmd": ["dasl", "-cpu", "6800", "-" + mode, "x.dat", "-entryaddress", "0"],
                       "timeout": sz["t_tool"], "msglinks": ["das.msg"] + MSGS, "env": TOOL_ENV})
            hm.append((x, mode))
    for opt in ("x.dat@0(0,0,0)", "x.dat@0(-1)", "x.dat@4294967296", "x.dat@0(0,4294967296)", "x.dat@0(0,4,0)", "x.dat@(",
                "x.dat@0(9,9,9", "nosuch.dat", ""):
        hj.append({"files": {"x.dat": bytes(range(64))}, "cmd": ["dasl", "-cpu", "6800", "-binfile", opt, "-entryaddress", "0"],
                   "timeout": sz["t_tool"], "msglinks": ["das.msg"] + MSGS, "env": TOOL_ENV})
        hm.append(({"fault": {"k": "option", "off": 0, "ch": 0}, "verdict": "?", "bytes": [], "opt": opt}, "binopt"))
    with Phase("dasl: %d runs" % len(hj)):
        hres = c03run.run_jobs(bld, hj)
    ndasl = {}
    for (x, mode), j, res in zip(hm, hj, hres):
        rep.evaluated()
        rep.distinct(("dasl", mode, bytes(x["bytes"]), x.get("opt")), True)
        fail = c03run.failure(res, tool_doc | {4})
        if fail:
            key = {"tool": "dasl", "mode": mode, "fault": x["fault"]["k"], "verdict": x["verdict"], "fail": fail,
                   "where": c03run.where(res), "opt": x.get("opt")}
            conf.add("dasl -%s %s@%d: %s %s" % (mode, x["fault"]["k"], x["fault"]["off"], fail, res["san"] or ""), key, j,
                     x, {"x.dat": bytes(x["bytes"])})
        elif mode == "hexfile" and ((x["verdict"] == "Reject") != (res["rc"] != 0)):
            ndasl[(x["verdict"], res["rc"])] = ndasl.get((x["verdict"], res["rc"]), 0) + 1
    for k in sorted(ndasl):
        rep.drift("dasl -hexfile: %d files the HexReader model would %s end with exit %s" % (ndasl[k], k[0], k[1]))

    # ---- dasl: control-flow shapes of the image (DasmFlow_Gen) ---------------------------------------------------
    tf.join()
    if "err" in flow_out:
        raise CheckError("DasmFlow_Gen could not be run: %s" % flow_out["err"])
    images = {}
    for isa in c03flow.ISAS:
        fr = tlc.must(flow_out[isa], "DasmFlow_Gen(%s)" % isa)
        if fr.violation:
            raise CheckError("DasmFlow_Gen(%s): the worklist design violates its invariants: %s" % (isa, fr.violation[:500]))
        rep.model("DasmFlow_Gen(%s)" % isa, fr)
        for (t, x) in fr.printed:
            if t == "OUT":
                images.setdefault(c03flow.ident(x), x)
    if not images:
        raise CheckError("DasmFlow_Gen printed no images")
    fsample = c03flow.pick(images.values(), sz["flow"], rng("c03/flow"))
    fj, fm = [], []
    for i, x in enumerate(fsample):
        for cpu in (x["cpus"] if tier != "quick" else [x["cpus"][i % len(x["cpus"])]]):
            for load in ("bin", "hex"):
                fj.append(c03flow.job(x, cpu, load, sz["t_tool"]))
                fm.append((x, cpu, load))
    with Phase("dasl control-flow shapes: %d images, %d runs" % (len(fsample), len(fj))):
        fres = c03run.run_jobs(bld, fj)
    fdrift, fclasses = {}, set()
    for (x, cpu, load), j, res in zip(fm, fj, fres):
        rep.evaluated()
        rep.distinct(("dasl-flow", cpu, load) + c03flow.ident(x),
                     any(c[2] in ("self", "start", "inside", "last") for c in x["classes"]))
        fclasses.update((x["isa"],) + tuple(c) for c in x["classes"])
        fail = c03run.failure(res, tool_doc | {4})
        if fail:
            key = {"tool": "dasl", "mode": "flow-" + load, "fault": "flow", "verdict": "terminates", "fail": fail,
                   "where": c03run.where(res), "opt": None, "cpu": cpu, "why": "flow/%s/%s" % (cpu, load),
                   "steps": x["steps"]}
            conf.add("dasl -cpu %s -%sfile on a valid %d-routine image %s (<pre, form, target routine, target position>; "
                     "%s entries %s, gap %d): %s %s; the Dasm worklist ends after %d iterations with exit %s"
                     % (cpu, load, x["k"], x["shape"], x["mode"], sorted(x["entries"]), x["gap"], fail, res["san"] or "",
                        x["steps"], x["exit"]), key, j, x, dict(j["files"]))
        elif res["rc"] not in x["exit"]:
            dk = (cpu, "exit %s, model %s" % (res["rc"], x["exit"]))
            fdrift.setdefault(dk, []).append(x["shape"])
        elif c03flow.listed(res["out"]) != c03flow.expected(x):
            dk = (cpu, "listed areas differ from the areas the Dasm worklist marks")
            fdrift.setdefault(dk, []).append((x["shape"], c03flow.listed(res["out"]), c03flow.expected(x)))
    for dk in sorted(fdrift):
        rep.drift("dasl -cpu %s on control-flow shape images: %s (%d runs, e.g. %s)" % (dk[0], dk[1], len(fdrift[dk]),
                                                                                       fdrift[dk][0]))
    rep.part("dasl_flow", images_generated=len(images), images_run=len(fsample), runs=len(fj),
             decision_classes=len(fclasses), area_or_exit_mismatches=sum(len(v) for v in fdrift.values()))
    rep.sample({"flow_image": fsample[len(fsample) // 2]})

    # ---- confirmation of unknown candidates -------------------------------------------------------------------
    with Phase("confirm candidates"):
        conf.flush(lambda key: asl_doc if key.get("tool") == "asl" else (tool_doc | ({4} if key.get("tool") == "dasl" else set())))

    # ---- (V) trace validation ------------------------------------------------------------------------------------
    if bld.hooks and execs:
        with Phase("validate %d executions" % len(execs)):
            validate_traces(rep, execs, names, "generated")
        if tier == "thorough":
            from vlib.common import pmap
            cex, cnm = [], []

            def one(t):
                res = aslrun.assemble_corpus(hook, t, events="file,stmt")
                import shutil
                shutil.rmtree(res.dir, ignore_errors=True)
                return t[0], res.trace
            for (tn, tr) in pmap(one, tests):
                for x in to_trace_events(tr):
                    cex.append(x)
                    cnm.append(tn)
            with Phase("validate corpus: %d executions" % len(cex)):
                validate_traces(rep, cex, cnm, "corpus")

    # ---- (M) result -------------------------------------------------------------------------------------------------
    th.join()
    if "err" in mc_out:
        raise CheckError("NegSpace_MC could not be run: %s" % mc_out["err"])
    mc = tlc.must(mc_out["neg"], "NegSpace_MC")
    if mc.violation:
        raise CheckError("the NegSpace design itself violates its rules: %s" % mc.violation[:600])
    rep.model("NegSpace_MC", mc)

    return rep.finish(
        rule="inputs = TLC transition cover of the NegSpace case graph (statement table x argument count x class of the "
             "varied argument x context), seed-stratified sample in the quick tier, rendered for rotating CPU dialects, "
             "for every data pseudo op the probed CPUs accept, and planted into golden sources; code files = every "
             "truncation / field edit / bit flip TLC enumerates over the base files x 5 tools; hex files x dasl; "
             "dasl on the control-flow shape images of DasmFlow_Gen (every enqueue decision class, form, pattern and "
             "entry combination at least once, each as -binfile and -hexfile); "
             "distinct = distinct rendered input; all counted inputs contain at least one erroneous or boundary statement "
             "or fault", exhaustive=False)


def replay(path):
    v = json.load(open(os.path.join(path, "violation.json")))
    bld = sanbuild.get()
    cmdp = os.path.join(path, "cmd.json")
    if not os.path.exists(cmdp):
        log("no cmd.json in %s" % path)
        return 2
    cj = json.load(open(cmdp))
    files = dict(c03lib.AUX_FILES)
    for n in os.listdir(path):
        if n in ("violation.json", "cmd.json", "stderr.txt"):
            continue
        with open(os.path.join(path, n), "rb") as f:
            files[n] = f.read()
    res = c03run.run_jobs(bld, [{"files": files, "cmd": cj["cmd"], "timeout": 60, "msglinks": cj.get("msglinks", []),
                                 "env": cj.get("env", {})}], workers=1)[0]
    log("replay: rc=%s signal=%s timeout=%s sanitizer=%s" % (res["rc"], res["sig"], res["timeout"], res["san"]))
    log(res["err"][:3000])
    log("recorded: %s" % v["what"])
    return 0


def selftest(tier):
    """Apply each stored mutation (selftest/C03-m*.diff) to a scratch copy of the repository outside /repo and
    /verif and show that the quick check reports a VIOLATION for it.  The evidence file of the real tree is kept."""
    import glob
    import shutil
    import subprocess
    import tempfile
    from vlib.common import REPO, VERIF
    ev = os.path.join(VERIF, "evidence", PID + ".json")
    saved = open(ev, "rb").read() if os.path.exists(ev) else None
    work = tempfile.mkdtemp(prefix="c03-selftest-")
    bad = 0
    try:
        for patch in sorted(glob.glob(os.path.join(VERIF, "selftest", "C03-m*.diff"))):
            copy = os.path.join(work, "repo")
            shutil.rmtree(copy, ignore_errors=True)
            shutil.copytree(REPO, copy, symlinks=True, ignore=shutil.ignore_patterns("_build"))
            if subprocess.run(["git", "-C", copy, "apply", patch]).returncode != 0:
                log("selftest: %s does not apply to the current tree (the mutated code changed)" % os.path.basename(patch))
                bad += 1
                continue
            env = dict(os.environ, VERIF_REPO=copy, VERIF_CACHE=os.path.join(work, "cache"))
            p = subprocess.run([os.path.join(VERIF, "check"), PID, "--tier", "quick"], env=env, cwd=VERIF,
                               stdout=subprocess.PIPE, stderr=subprocess.STDOUT)
            out = p.stdout.decode("latin-1")
            nv = out.count("\nVIOLATION ")
            log("selftest: %s -> exit %d, %d VIOLATION lines" % (os.path.basename(patch), p.returncode, nv))
            if p.returncode != 1 or nv == 0:
                bad += 1
    finally:
        shutil.rmtree(work, ignore_errors=True)
        shutil.rmtree(os.path.join(VERIF, "replays", PID), ignore_errors=True)
        if saved is not None:
            with open(ev, "wb") as f:
                f.write(saved)
    log("selftest: %s" % ("all mutations detected" if not bad else "%d mutation(s) NOT detected" % bad))
    return 0 if not bad else 1
