"""C14 extension (phase "isavar"): CPU-VARIANT dimensions and operand-symbol dimensions the instruction tables lacked.

Specification (all verdict-relevant knowledge is TLA+; this file renders cases, runs asl and compares with what TLC printed):
  spec/IsaPic16P.tla   PIC16C8x devices with MORE THAN ONE 2 K program page (16C873/874: 2 pages, 16C876/877: 4 pages): CALL /
                       GOTO at every page x target in every page.  doc/processor-specific-hints.md "PIC16C5x/16C8x": AS
                       prepends BCF / BSF PCLATH,3|4 ("the PA bits ... are set according to the start and target address",
                       "up to three words").  Operational JumpSeq (one BCF / BSF per DIFFERING page bit, giving it the TARGET's
                       value, then the jump word) against the declarative CPU semantics Run (every word decoded with the
                       IsaPic16 TABLE through IsaCommon's declarative decoder, BCF / BSF / CALL / GOTO executed as the data sheet
                       defines them, starting from PCLATH<4:3> = page of the statement): TLC checks Reaches, Minimal,
                       SamePageIsPlain, AtMostThree, WrongBitMisses at every case and prints `units` = JumpSeq and `alts` =
                       ALL sequences of <= 2 BCF / BSF PCLATH,3|4 + jump word that land on the target.  The emitted words must
                       be a member of `alts`; a target outside the device must be rejected (8192.., negative, mask probes;
                       pages the PCLATH bits could select but the device lacks: convention zone as in IsaPic16).
                       Case space per device: {CALL, GOTO} x statement address (every page x offsets 0, 1, interior, the last
                       words of the page) x target (every page x offsets 0, 1, interior, 2046, 2047; the statement and its
                       neighbours; 13-19 targets beyond the device): 16C877 1,608 cases (696 cross-page), 16C873 684 (244 cross-page).
                       (The single-word forms of the devices - everything but cross-page jumps - run through the normal
                       IsaPic16_Gen / _Hist / adjacency pipeline of c14.py: TLA+ Cpu constants 16C64 16C873 16C874 16C876 16C877
                       next to 16C84; spec/IsaPic16.tla.)
  spec/IsaMsp430E.tla  MSP430 emulated instructions from their DEFINITION (User's Guide "emulated instructions"): (a) TLC
                       checks the tabulated words of ADC DADC DEC DECD INC INCD INV SBC TST CLR POP BR NOP RET SETx CLRx DINT
                       EINT against core opcode + source part of the core table (EmuAgrees); (b) RLA / RLC [.B/.W] dst = ADD /
                       ADDC dst,dst - the two instructions whose SOURCE IS THE DESTINATION operand, which a table of fixed
                       instruction words cannot hold - over every destination mode (Rn, X(Rn), ADDR, &ADDR) x every register x
                       operand classes (0, 1, 2, limits, limits +- 1, patterns, mask probe, interior; symbolic mode: the addresses
                       0..5 bytes behind the first extension word and the addresses whose displacement wraps at +-32768 for one
                       of the two extension words): units = EncodeRaw of the CORE form with the operand tuple written twice;
                       SrcIsDst (the declarative decoder finds the same operand in source and destination fields; both
                       PC-relative extension words decode to the SAME address).  For X = 0 the equivalent one-extension-word
                       encoding ADD @Rn,0(Rn) is printed as admissible alternative.  1,914 statements; assembled under CPU
                       MSP430 and (variant dimension: the 430X executes the 430 instruction set unchanged) under CPU MSP430X.
  spec/IsaAvrBit.tla   AVR BIT symbols (doc/pseudo-instructions.md "BIT", "PORT"): `name BIT addr,bit` / `addr.bit` with the
                       address a number, an untyped (EQU), I/O-typed (PORT) or data-typed (SFR) symbol; `SBI|CBI|SBIC|SBIS name`
                       is the instruction `.. addr,bit` (same word; address > 31 - every data address of an I/O register - or
                       bit > 7: error and no word); also the packed operand `addr.bit` written directly, and the two-operand
                       form with a typed address symbol.  History model like IsaAlias (Define packs (space, address, bit) into
                       one integer, the use unpacks; Denotes reads the meaning off the text; SymMeaning, BitTransparent,
                       FarIsError).  quick: 2,204 statements (ATMEGA128, BIT spelling rotating), thorough: 2,908 per device (4 devices).
  VARIANT dimension of the tables themselves (c14.py ISAS): PIC16C8x 6 devices (above), AVR + AT90S2313 (classic core, 1 K
                       words, 128 bytes SRAM) and ATMEGA16 (enhanced core, 8 K words: JMP / CALL range 0..8191, no ELPM),
                       MSP430X for the MSP430 base set (thorough tier).

WHY ADDED: a change in code16c8x.c DecodeJump (the BCF / BSF choice taken from the XOR of statement and target address instead
of the target's bit: a differing page bit is always SET) compiled, passed the 201 tests and was NOT reported: the only device
of the PIC table was the single-page 16C84, no statement ever had a target in another page.  With this phase: every jump
"down" in a page bit (page 1 -> 0, 2 -> 0/1, 3 -> 0/1/2, 1 -> 2) of both tiers' devices is reported.
Two genuine defects of the pinned tree that were repaired in /repo (cdf60d6: `rla &0` assembled as `add #4,&0`; c749bf0: `rla sym`
with sym 0 or 1 bytes behind the first extension word rejected) and a third (ae3ac7b: `sbi b1` with `b1 bit portb,3`, `portb port
0x18` rejected) showed that the src = dst emulated instructions and BIT symbols were not generated at all.  Each fix reverted in
a scratch worktree is now reported by this phase (see c14.py docstring "Extension isavar" for the counts).

Finding on the unchanged tree: `rla sym` / `rlc sym` with a source displacement of 8000h / 8001h rejected ('distance too big') although
`add sym,sym` assembles: known_findings/C14.json C14-msp430-rla-symbolic-wrap-8000 / -8001 ("known"; must flip to "fixed" when
proposed_fixes/C14-msp430-rla-symbolic-wrap.diff is applied), note in proposed_fixes/C14-msp430-rla-symbolic-wrap.md.
Binding of the models: JumpSeq with BSF for every differing bit -> TLC: Reaches violated; Pack truncated to 16 bits -> SymMeaning
violated; destination displacement not re-based on the second extension word -> SrcIsDst violated.
Open gaps: thorough tier of the added variants was exercised piecewise only (AT90S2313 / ATMEGA16 / MSP430X:sample with K = 8 and
all register-symbol scenarios: no violation), not as one full `--tier thorough` run; PIC16C5x (code16c5x.c, same automatism with
the STATUS PA bits) is outside the property's CPU list; RLAX / RLCX and the 430X address space above 64 K are not modelled.
"""
import os

from vlib import isa, isa_alias, tlc
from vlib.common import CheckError, Phase, log, pmap, scratch, seed

PHASE_NAME = "isavar"

PIC = isa.IsaCfg("PIC16C8x", "IsaPic16P", [("16C873", "16C873"), ("16C874", "16C874"), ("16C876", "16C876"),
                                            ("16C877", "16C877")], unit_bytes=2, quick=["16C873", "16C877"])
MSP = isa.IsaCfg("MSP430", "IsaMsp430E", [("MSP430", "MSP430"), ("MSP430X", "MSP430X")], unit_bytes=2, addr_step=2)
AVR = isa.IsaCfg("AVR", "IsaAvrBit", [("ATMEGA128", "ATMEGA128"), ("AT90S8515", "AT90S8515"), ("ATMEGA16", "ATMEGA16"),
                                       ("AT90S2313", "AT90S2313")], unit_bytes=2, quick=["ATMEGA128"])


def _cfgdir():
    d = os.path.join(scratch(), "isavarcfg")
    os.makedirs(d, exist_ok=True)
    return d


def _gen(module, tag, consts, init, nxt, invs, timeout=600):
    path = os.path.join(_cfgdir(), "%s_%s.cfg" % (module, tag.replace(":", "_")))
    with open(path, "w") as f:
        f.write("CONSTANTS %s\nINIT %s\nNEXT %s\nINVARIANTS %s\nCHECK_DEADLOCK FALSE\n" % (consts, init, nxt, invs))
    r = tlc.must(tlc.run(module, path, workers=1, timeout=timeout, mem="4g", tags=("OUT",)), "%s(%s)" % (module, tag))
    if r.violation:
        raise CheckError("%s(%s) fails its own invariants: %s" % (module, tag, r.violation[:800]))
    cases = [c for (t, c) in r.printed if t == "OUT"]
    if not cases:
        raise CheckError("%s(%s) printed no cases" % (module, tag))
    return r, cases


def gen_pic(cpu, salt):
    return _gen("IsaPic16P", cpu, 'Cpu = "%s" Salt = %d' % (cpu, salt), "PInit", "PNext",
                "Reaches Minimal SamePageIsPlain AtMostThree WrongBitMisses PDump")


def gen_msp(salt):
    return _gen("IsaMsp430E", "MSP430", 'Cpu = "MSP430" K = 1 Salt = %d Step = 2' % salt, "EInit", "ENext",
                "EUnitsTyped SrcIsDst AltSame EDump")


def gen_avr(cpu, salt, mode):
    return _gen("IsaAvrBit", cpu, 'Cpu = "%s" Salt = %d Mode = "%s"' % (cpu, salt, mode), "BInit", "BNext",
                "PlanRuns SymMeaning BitTransparent FarIsError BDump")


def run(rep, bld, tier):
    from checks import c14
    quick = tier == "quick"
    salt = seed() % 1000
    tasks = [("pic", PIC, cpu, aslcpu) for (cpu, aslcpu) in PIC.cpus_for(tier)]
    tasks += [("msp", MSP, "MSP430", None)]
    tasks += [("avr", AVR, cpu, aslcpu) for (cpu, aslcpu) in AVR.cpus_for(tier)]

    def tlc_task(t):
        kind, cfg, cpu, aslcpu = t
        if kind == "pic":
            return gen_pic(cpu, salt)
        if kind == "msp":
            return gen_msp(salt)
        return gen_avr(cpu, salt, "rotate" if quick else "all")
    with Phase("isavar TLC: %d runs (IsaPic16P per paged device, IsaMsp430E, IsaAvrBit per device)" % len(tasks)):
        done = pmap(tlc_task, tasks, workers=4)
    for (kind, cfg, cpu, aslcpu), (r, cases) in zip(tasks, done):
        # the MSP430 cases are assembled under both CPUs of the family (the 430X executes the 430 set unchanged)
        for (vcpu, vasl) in (MSP.cpus if kind == "msp" else [(cpu, aslcpu)]):
            name = "%s(%s)" % (cfg.module, vcpu)
            with Phase("isavar replay " + name):
                if vcpu == cpu:
                    rep.model(name, r)
                srcmod = isa_alias if kind == "avr" else isa
                na, no, ns = c14.replay_cpu(rep, bld, cfg, vcpu, vasl, cases, srcmod=srcmod)
                extra = {}
                if kind == "pic":
                    extra = dict(page_pairs=len({(c["spage"], c["tpage"]) for c in cases if c["tpage"] >= 0}),
                                 cross_page=sum(1 for c in cases if c["tpage"] >= 0 and c["spage"] != c["tpage"]))
                elif kind == "msp":
                    extra = dict(modes=sorted({c["mode"] for c in cases}),
                                 with_alternative_encoding=sum(1 for c in cases if c.get("alts")))
                else:
                    extra = dict(spellings=sorted({c["scen"] for c in cases}))
                rep.part("isavar " + name, forms=len({c["id"] for c in cases}), statements=len(cases), expected_units=na,
                         expected_reject_or_convention=no, assembled_alone=ns, **extra)
                if vcpu == cfg.cpus_for(tier)[0][0]:
                    for c in [c for c in cases if c["exp"] == "units"][-1:] + [c for c in cases if c["exp"] == "reject"][:1]:
                        rep.sample({"isa": cfg.name, "cpu": vcpu, "definitions": [isa_alias.def_text(d) for d in c.get("pre", [])],
                                    "statement": isa.stmt_text(c).strip(), "pc": c["pc"], "expected": c["exp"],
                                    "units": c["units"], "admissible": c.get("alts", [])})
