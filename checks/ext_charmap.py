"""C09 extension "charmap": the CHARACTER TRANSLATION state machine (spec/CharMap.tla, CharMap_MC.tla + cfgs).

Why: the cases of c09.py set ONE map in front of a data statement and reset it behind it (DataDef.tla: CHARSET as a list
of assignments in force).  The table is however a piece of STATE with a life of its own: CHARSET in all argument forms
(none = back to 1:1, `i,v`, `i,j,v`, `i,"string"`, `"file"`), whose integer arguments are themselves translated when they are
written as character constants (the manual's CAUTION) while the characters of a string argument are not; CODEPAGE (named
tables, created on the first switch as a copy of the active or of a named table, names case-insensitive unless -U);
SAVE / RESTORE (the active table is part of the frame); every pass starts with the single 1:1 table STANDARD.

Specification (spec/CharMap.tla): CODE SIDE shaped like asmallg.c CodeCHARSET / CodeCODEPAGE / CodeSAVE / CodeRESTORE - a heap
of malloc'ed tables, the strcmp-sorted list of TTransTable cells with the Source search and the Prev/Run insertion loop,
CurrTransTable, the SaveTransTable pointers of the SAVE frames; DECLARATIVE SIDE - named pages as functions, DStep = meaning
of one statement in the manual's words, DFold = meaning of a history; BValue = a second, demand-driven reading (from a probe
BACKWARDS to the last statement that wrote the entry, through page creations and SAVE/RESTORE pairs down to the pass start);
AStep = the other reading of SAVE/RESTORE (contents snapshot) that the manual's sentence also admits; probes = where the
table is applied (strings and character constants in data statements, multi-character constants, character constants in
terms and in instruction operands) and where not (comparison of two strings).
(M) CharMap_MC.cfg        every history of <= 2 statements over 101 statements (OpsQuick) x {default, -U}: 20.8 k states
    CharMap_MC_tiny.cfg   every history of <= 3 statements over 14 statements, incl. BackwardIsFold: 2.9 k states
    thorough: CharMap_MC_full.cfg (<= 3 over OpsQuick, 2.1 M states), _tiny5 (<= 5 over 14, 1.1 M), _tinyB4 (backward, <= 4, 80 k)
    invariants: MachineIsFold (heap abstraction = declarative fold statement by statement, error verdicts included),
    FoldIsFold, WellFormed (list strictly sorted, pointers inside, no shared table), RestoreReestablishes (the page active at
    the matching SAVE is active again, with its present contents; = the saved table exactly if nobody edited that page in
    between), CopyAtCreation (CODEPAGE new[,old]: new = old's table of that moment and keeps it until a CHARSET runs while
    new is active - later edits of old do not leak), OnlyActiveWritten, ErrorsInert, BackwardIsFold.
    CharMap_MC_dev_{alias,rawindex,norestore,resetall,strtrans}.cfg: one named deviation of the code side each (new page
    shares the source's table; character-constant index not translated; RESTORE keeps the active page; CHARSET without
    arguments resets all pages; characters of a string argument translated) - TLC must refute every one (by CopyAtCreation,
    MachineIsFold, RestoreReestablishes, OnlyActiveWritten, MachineIsFold).
(G) CharMap_Gen2q.cfg (quick: the 10 k histories of exactly 2 statements over OpsQuick, a seeded share of ~2 k replayed;
    thorough CharMap_Gen2.cfg: + the capture statements, x {default, -U}: 22 k), CharMap_Gen3p.cfg (all 1 728 histories of 3
    statements over OpsPages = 12 statements concentrating CODEPAGE with and without source / SAVE / RESTORE / few edits;
    thorough CharMap_Gen4p.cfg: 4 statements, 20.7 k), CharMap_Gen4s.cfg (all 1 296 histories of 4 statements over the 6
    statements on which a wrong copy source / a RESTORE without effect become visible) and CharMap_GenSim.cfg (simulated histories of 5
    statements, statement class first, erroneous statements avoided; quick 1 000, thorough CharMap_GenSimFull.cfg 12 000 of
    6 statements over 1 000 statements).  For every history TLC prints, for the point in front of the first and behind every statement, seven probes
    with their element values under the active table of the declarative fold (string of all 8 window characters, 2-character
    constant, instruction operand, character constant, character constant in a term, two string comparisons - one of a pair
    of different characters with EQUAL translation if there is one), the expected error verdict of every statement, the value
    of every captured symbol (`s SET 'x'|0`: converted where it stands; `s SET 'x'`: a string, converted where it is used) and
    whether the two readings of SAVE/RESTORE differ at that point.  The history is rendered for z80 (DB/DW, LD A,), 68000
    (DC.B/DC.W, MOVE.B #), 6502 (BYT/ADR, LDA #) and 6809 (FCC/FCB/FDB, LDA #) - quick: one target per history in rotation,
    thorough: all four -, every fourth with a forward reference in front (two passes: the second pass must start from the
    1:1 table again), assembled by the real asl (with -U where the history says so, table files written from what TLC
    printed); the code file is cut into the probes' elements (byte order and instruction opcode of the target are the only
    things Python knows) and compared with TLC's values.  Histories containing an erroneous statement produce no code file:
    their probes are read from the emit hook events, the lines with errors from the diag events.
Verdict (C09: data statements lay down the documented bytes): a wrong element of a data probe, or an error message, in a
    history WITHOUT erroneous statements is a violation.  SPEC-DRIFT only: instruction operands, everything in histories with
    an erroneous statement (bytes seen through hooks, which lines report errors), points where the two readings of
    SAVE/RESTORE differ (the code keeps the contents of the page; expected = the code's reading).
Named deviation kept on the declarative side (DevSourceChecked): `CODEPAGE existing,unknown` - the manual says the second
    parameter only has a meaning for the first switch, the code reports "unknown codepage" and does not switch.  Not filed as
    a finding (an error message for a name that does not exist is defensible); such histories are error histories (drift only).
NOT covered: a deleting form of CHARSET (this version of AS has none: every entry is always defined; `CHARSET 'a'` alone is a
    wrong-argument-count error, `CHARSET "a"` a file name); wrap-around of `i,j,v` beyond 255 (the code wraps mod 256, the
    manual is silent; statements leaving the 8-code window are not followed); files shorter than 256 bytes (fatal error);
    more than 3 page names; SAVE/RESTORE of the other frame members (C18/C10); the listing's code page report; translation in
    the TI/AVR/other target-specific data statements (c09.py covers their layouts with a single map).
Mutations tried on scratch copies (quick tier; all caught, counts in the section "Extension charmap" of checks/c09.py's docstring):
    CODEPAGE copies from the active instead of the named page; RESTORE keeps the active page; CHARSET i,"string" translates
    the string; CODEPAGE's second name not upper-cased; TranslateString indexes with 7 bits; pages survive into the next pass;
    CHARSET without arguments resets half the table; only the last character of a multi-character constant translated.
"""
import json

from vlib import aslrun, tlc
from vlib.common import CheckError, Phase, pmap, rng

NAMES = {1: "ALPHA", 2: "STANDARD", 3: "ZETA"}
# rendering + tokenising knowledge per target: mnemonics, byte order of a word, opcode bytes in front of the immediate
TARGETS = {
    "z80": dict(cpu="z80", hdr=[], str="db", byte="db", word="dw", big=False, insn="ld\ta,%s", pre=[0x3E]),
    "68000": dict(cpu="68000", hdr=["\tpadding\toff"], str="dc.b", byte="dc.b", word="dc.w", big=True,
                  insn="move.b\t#%s,d0", pre=[0x10, 0x3C, 0x00]),
    "6502": dict(cpu="6502", hdr=[], str="byt", byte="byt", word="adr", big=False, insn="lda\t#%s", pre=[0xA9]),
    "6809": dict(cpu="6809", hdr=[], str="fcc", byte="fcb", word="fdb", big=True, insn="lda\t#%s", pre=[0x86]),
}
ORDER = ["z80", "68000", "6502", "6809"]
DATA_FORMS = ("str", "chr", "multi", "expr", "cmp", "cap")
QUICK_HISTORIES = 6000
BATCH = 12


def ch(c):
    """one character inside a quoted string"""
    return chr(c) if 33 <= c < 127 and chr(c) not in "'\"\\{}" else "\\%d" % c


def spell_arg(a):
    sp, v = a
    return "'%s'" % ch(v) if sp == "chr" else "%d" % v


def spell_name(n):
    return NAMES[n[0]].lower() if n[1] else NAMES[n[0]]


def spell_stmt(st, i):
    k, a, b, c, s, n, q = st
    if k == "reset":
        return "\tcharset"
    if k == "one":
        return "\tcharset\t%s,%s" % (spell_arg(a), spell_arg(b))
    if k == "range":
        return "\tcharset\t%s,%s,%s" % (spell_arg(a), spell_arg(b), spell_arg(c))
    if k == "str":
        return "\tcharset\t%s,\"%s\"" % (spell_arg(a), "".join(ch(x) for x in s))
    if k == "file":
        return "\tcharset\t\"t%d.bin\"" % a[1]
    if k == "cp":
        return "\tcodepage\t%s%s" % (spell_name(n), "," + spell_name(q) if q[0] else "")
    if k in ("save", "restore"):
        return "\t" + k
    if k == "capE":
        return "s%d\tset\t%s|0" % (i, spell_arg(a))
    if k == "capL":
        return "s%d\tset\t%s" % (i, spell_arg(a))
    raise ValueError(k)


def spell_probe(t, f, cs):
    if f == "str":
        return "\t%s\t\"%s\"" % (t["str"], "".join(ch(x) for x in cs))
    if f == "chr":
        return "\t%s\t'%s'" % (t["byte"], ch(cs[0]))
    if f == "multi":
        return "\t%s\t'%s%s'" % (t["word"], ch(cs[0]), ch(cs[1]))
    if f == "expr":
        return "\t%s\t'%s'|0" % (t["byte"], ch(cs[0]))
    if f == "insn":
        return "\t" + t["insn"] % ("'%s'" % ch(cs[0]))
    if f == "cmp":
        return "\t%s\t(\"%s\"=\"%s\")&1" % (t["byte"], ch(cs[0]), ch(cs[1]))
    raise ValueError(f)


class Case:
    """one history rendered for one target: source text + the probes (line, form, width, expected values, flags)"""

    def __init__(self, rec, tname, two):
        t = TARGETS[tname]
        self.rec, self.tname, self.t = rec, tname, t
        self.errs = rec["err"]
        self.has_err = any(self.errs)
        self.two = two and not self.has_err
        lines = ["\tcpu\t%s" % t["cpu"]] + t["hdr"]
        self.skip = 0
        if self.two:
            lines.append("\t%s\tfwd" % t["word"])      # forward reference: a second pass
            self.skip = 2
        self.probes = []
        self.err_lines = set()
        self.stmt_line = {}
        h = rec["h"]
        for n in range(len(h) + 1):
            if n:
                lines.append(spell_stmt(h[n - 1], n))
                self.stmt_line[n] = len(lines)
                if self.errs[n - 1]:
                    self.err_lines.add(len(lines))
            pos = rec["pos"][n]
            for f, cs, vals in pos["pr"]:
                lines.append(spell_probe(t, f, cs))
                self.probes.append(dict(line=len(lines), form=f, width=2 if f == "multi" else 1, vals=vals, amb=pos["amb"],
                                        pre=t["pre"] if f == "insn" else [], n=n, text=lines[-1].strip()))
        for i, cap in enumerate(rec["caps"], 1):
            if cap:
                lines.append("\t%s\ts%d" % (t["byte"], i))
                self.probes.append(dict(line=len(lines), form="cap", width=1, vals=[cap[0]], amb=cap[1], pre=[], n=i,
                                        text="%s  (%s)" % (lines[-1].strip(), spell_stmt(h[i - 1], i).strip())))
        lines += ["\trestore"] * rec["open"]          # an open SAVE frame at the end of the source is an error of its own
        if self.two:
            lines.append("fwd:")
        self.src = "\n".join(lines) + "\n"
        self.opts = ["-q"] + (["-U"] if rec["cs"] else [])

    def size(self, p):
        return len(p["pre"]) + p["width"] * len(p["vals"])

    def decode(self, p, bs):
        """bytes of one probe -> element values (None: opcode bytes differ / wrong length)"""
        if len(bs) != self.size(p) or list(bs[:len(p["pre"])]) != p["pre"]:
            return None
        bs = bs[len(p["pre"]):]
        if p["width"] == 1:
            return list(bs)
        big = self.t["big"]
        return [(bs[i] << 8 | bs[i + 1]) if big else (bs[i + 1] << 8 | bs[i]) for i in range(0, len(bs), 2)]


def observe(case, res):
    """-> (per probe: decoded element values or None, lines with error messages or None if unknown)"""
    if case.has_err:
        if res.trace is None:
            return None, None
        last = max([e.get("pass", 1) for e in res.trace if e.get("e") == "emit"] or [1])
        by_line = {}
        for e in res.trace:
            if e.get("e") == "emit" and e.get("pass") == last:
                by_line.setdefault(e["line"], bytearray()).extend(bytes.fromhex(e.get("bytes", "")))
        errl = {e["line"] for e in res.trace if e.get("e") == "diag" and e.get("cls") in ("error", "fatal")}
        return [case.decode(p, bytes(by_line.get(p["line"], b""))) for p in case.probes], errl
    if res.p is None:
        return None, None
    flat = {}
    for (seg, a), vals in res.parsed().image().items():
        flat.setdefault(a, vals[0])
    img = bytes(flat.get(a, 0) for a in range(0, (max(flat) + 1) if flat else 0))
    out, at = [], case.skip
    for p in case.probes:
        out.append(case.decode(p, img[at:at + case.size(p)]))
        at += case.size(p)
    if len(img) != at:                     # bytes nobody asked for / missing bytes: nothing can be attributed
        out.append(("length", len(img), at))
    return out, set()


def judge(rep, case, res, stats):
    rec = case.rec
    info = {"target": case.tname, "opts": case.opts, "history": [spell_stmt(s, i + 1).strip() for i, s in enumerate(rec["h"])],
            "expected_errors": rec["err"], "two_passes": case.two}
    files = dict(stats["bins"])
    files["a.asm"] = case.src + "; asl %s a.asm   (t1.bin / t2.bin next to it)\n" % " ".join(case.opts)

    def drift(kind, what):
        stats["drift"] += 1
        stats["drift_kinds"][kind] = stats["drift_kinds"].get(kind, 0) + 1
        if stats["drift"] <= 4:
            rep.drift("charmap %s: %s | %s [%s%s]" % (kind, what, " / ".join(info["history"]), case.tname,
                                                      " -U" if rec["cs"] else ""))

    if res.timeout or res.sig is not None:
        rep.violation("charmap: assembler ended abnormally (sig=%s timeout=%s) on a CHARSET/CODEPAGE history" % (res.sig, res.timeout),
                      case=info, files=files, key={"kind": "charmap-crash", "target": case.tname})
        stats["bad"] += 1
        return
    if not case.has_err and (res.rc != 0 or res.p is None):
        rep.violation("charmap: every statement of the history is documented as valid, but the assembly fails (rc=%s): %s"
                      % (res.rc, (res.out + res.err).strip()[-300:]), case=info, files=files,
                      key={"kind": "charmap-rejected", "target": case.tname})
        stats["bad"] += 1
        return
    got, errl = observe(case, res)
    if got is None:
        raise CheckError("charmap: no observation (code file / hook trace missing) for %s" % info)
    if case.has_err:
        if errl != case.err_lines:
            drift("errors", "statements expected to be rejected: lines %s, rejected: lines %s" % (sorted(case.err_lines), sorted(errl)))
    for p, g in zip(case.probes, got):
        if g == p["vals"]:
            continue
        what = ("%s behind statement %d: expected element value(s) %s, %s has %s"
                % (p["text"], p["n"], p["vals"], "hook trace" if case.has_err else "code file", g))
        if case.has_err:
            drift("probe-in-error-history", what)
        elif p["amb"]:
            drift("save-restore-contents", what)
        elif p["form"] not in DATA_FORMS:
            drift("instruction-operand", what)
        else:
            stats["bad"] += 1
            rep.violation("charmap: wrong translated byte in a data statement: " + what, case=dict(info, probe=p), files=files,
                          key={"kind": "charmap", "form": p["form"], "target": case.tname})
        return                                    # the first differing probe of a history is the one to look at
    if len(got) > len(case.probes):
        stats["bad"] += 1
        rep.violation("charmap: the code file holds %d bytes where the probes lay down %d" % got[-1][1:], case=info, files=files,
                      key={"kind": "charmap-length", "target": case.tname})


class Obs:
    """what judge() needs of one assembly"""

    def __init__(self, rc=0, p=None, out="", err="", timeout=False, sig=None, trace=None):
        self.rc, self.p, self.out, self.err, self.timeout, self.sig, self.trace = rc, p, out, err, timeout, sig, trace

    def parsed(self):
        from vlib import codefile
        return codefile.parse(self.p)


def assemble_cases(bld, cases, bins):
    """-> one observation per case.  Histories without an erroneous statement are assembled BATCH sources per asl invocation
    (`asl h0.asm h1.asm ...`: one code file each; the start-up of a process costs more than a history); a batch that does
    not end cleanly is repeated source by source, like the histories with erroneous statements (hook trace needed)."""
    out = [None] * len(cases)
    groups = {}
    for i, c in enumerate(cases):
        if not c.has_err:
            groups.setdefault(tuple(c.opts), []).append(i)
    batches = [g[k:k + BATCH] for g in groups.values() for k in range(0, len(g), BATCH)]
    res = aslrun.assemble_many(bld, [{"sources": {"h%d.asm" % n: cases[i].src for n, i in enumerate(b)}, "bin": bins,
                                      "main": ["h%d.asm" % n for n in range(len(b))], "opts": cases[b[0]].opts,
                                      "want": ["h%d.p" % n for n in range(1, len(b))]} for b in batches])
    for b, r in zip(batches, res):
        ps = [r.p] + [r.files.get("h%d.p" % n) for n in range(1, len(b))]
        if r.rc == 0 and not r.timeout and r.sig is None and all(x is not None for x in ps):
            for i, x in zip(b, ps):
                out[i] = Obs(p=x)
    single = [i for i in range(len(cases)) if out[i] is None]
    res = aslrun.assemble_many(bld, [{"sources": {"a.asm": cases[i].src}, "opts": cases[i].opts, "bin": bins,
                                      "events": "emit,diag" if cases[i].has_err else None} for i in single])
    for i, r in zip(single, res):
        out[i] = Obs(r.rc, r.p, r.out, r.err, r.timeout, r.sig, r.trace)
    return out


def table_file(tab):
    b = bytearray(range(256))
    for k, v in tab.items():
        b[int(k)] = v
    return bytes(b)


def run(rep, bld, tier):
    quick = tier == "quick"
    mc = [("CharMap_MC.cfg", 2), ("CharMap_MC_tiny.cfg", 2)] if quick else \
         [("CharMap_MC_full.cfg", 4), ("CharMap_MC_tiny5.cfg", 4), ("CharMap_MC_tinyB4.cfg", 4), ("CharMap_MC.cfg", 1),
          ("CharMap_MC_tiny.cfg", 1)]
    devs = ["alias", "rawindex", "norestore", "resetall", "strtrans"]
    jobs = [("mc", c, w) for c, w in mc] + [("dev", "CharMap_MC_dev_%s.cfg" % d, 1) for d in devs]
    jobs += [("gen", "CharMap_Gen2q.cfg" if quick else "CharMap_Gen2.cfg", 1), ("gen", "CharMap_Gen3p.cfg" if quick else "CharMap_Gen4p.cfg", 1),
             ("gen", "CharMap_Gen4s.cfg", 1),
             ("sim", "CharMap_GenSim.cfg" if quick else "CharMap_GenSimFull.cfg", 1)]

    def do(j):
        kind, cfg, w = j
        if kind == "sim":
            return tlc.run("CharMap_MC", cfg, workers=1, simulate=1000 if quick else 12000, depth=6 if quick else 7, deadlock=True,
                           timeout=1500, mem="2g", tags=("CM", "CMF"))
        return tlc.run("CharMap_MC", cfg, workers=w, timeout=1700, mem="2g" if quick else "6g", tags=("CM", "CMF"),
                       collect=kind == "gen")
    with Phase("charmap: TLC (%d runs: model check, deviations, generators)" % len(jobs)):
        results = pmap(do, jobs, workers=5 if quick else 4)
    recs, ftabs = [], None
    for (kind, cfg, w), r in zip(jobs, results):
        if kind == "dev":
            if r.error and not r.violation:
                raise CheckError("CharMap_MC(%s): %s" % (cfg, r.error[:400]))
            if not r.violation:
                raise CheckError("CharMap_MC(%s): the named deviation is not refuted" % cfg)
            continue
        tlc.must(r, "CharMap_MC(%s)" % cfg)
        if r.violation:
            raise CheckError("CharMap_MC(%s): the specification violates its own laws: %s" % (cfg, r.violation[:600]))
        rep.model("CharMap_MC(%s)" % cfg, r)
        if kind in ("gen", "sim"):
            for tag, o in r.printed:
                if tag == "CMF":
                    ftabs = o
                else:
                    recs.append(o)
    rep.part("CharMap deviations refuted by TLC", cfgs=devs)
    if not recs or ftabs is None:
        raise CheckError("charmap: the generators printed nothing")
    seen, uniq = set(), []
    for o in recs:
        k = json.dumps([o["cs"], o["h"]])
        if k not in seen:
            seen.add(k)
            uniq.append(o)
    bins = {"t%d.bin" % (i + 1): table_file(t) for i, t in enumerate(ftabs)}
    r = rng("c09/charmap")
    off = r.randrange(4)
    if quick and len(uniq) > QUICK_HISTORIES:          # seeded share of the length-2 histories, all simulated ones
        short = [o for o in uniq if len(o["h"]) <= 2]
        keep = set(map(id, r.sample(short, max(0, QUICK_HISTORIES - (len(uniq) - len(short))))))
        uniq = [o for o in uniq if len(o["h"]) > 2 or id(o) in keep]
    stats = {"bad": 0, "drift": 0, "drift_kinds": {}, "bins": bins}
    tot = {"sources": 0, "err": 0, "two": 0, "cs": 0, "amb": 0, "probes": 0}
    sampled = False
    CH = 6000                                          # histories per round (bounds the memory of the thorough tier)
    with Phase("charmap: assemble %d histories x %d target(s)" % (len(uniq), 1 if quick else 4)):
        for lo in range(0, len(uniq), CH):
            cases = []
            for i, o in enumerate(uniq[lo:lo + CH], lo):
                for tn in ([ORDER[(i + off) % 4]] if quick else ORDER):
                    cases.append(Case(o, tn, two=(i % 4 == 1)))
            results = assemble_cases(bld, cases, bins)
            for c, res in zip(cases, results):
                rep.evaluated()
                rep.distinct(("charmap", c.tname, c.src), True)
                judge(rep, c, res, stats)
                tot["sources"] += 1
                tot["err"] += c.has_err
                tot["two"] += c.two
                tot["cs"] += bool(c.rec["cs"])
                tot["amb"] += any(p["amb"] for p in c.probes)
                tot["probes"] += len(c.probes)
                if not sampled and len(c.rec["h"]) > 2 and not c.has_err:
                    sampled = True
                    rep.sample({"charmap_history": [spell_stmt(x, i + 1).strip() for i, x in enumerate(c.rec["h"])],
                                "target": c.tname, "opts": c.opts,
                                "expected_after_last_statement": [(p["text"], p["vals"]) for p in c.probes
                                                                  if p["n"] == len(c.rec["h"]) and p["form"] != "cap"][:3]}, limit=8)
            rep.traces(len(cases))
    if stats["drift"] > 4:
        rep.drift("charmap: %d drift observations in all: %s" % (stats["drift"], stats["drift_kinds"]))
    rep.part("CharMap(replay)", histories=len(uniq), sources=tot["sources"], with_erroneous_statement=tot["err"],
             two_pass=tot["two"], case_sensitive=tot["cs"], ambiguous_points=tot["amb"], probes=tot["probes"],
             mismatches=stats["bad"], drift=stats["drift_kinds"])


def replay(path):
    """re-assemble a recorded violation (a.asm carries the command line in its first line)"""
    import os
    from vlib import build
    from vlib.common import log
    v = json.load(open(os.path.join(path, "violation.json")))
    bld = build.get("hook")
    src = open(os.path.join(path, "a.asm")).read()
    bins = {n: open(os.path.join(path, n), "rb").read() for n in os.listdir(path) if n.endswith(".bin")}
    res = aslrun.assemble(bld, {"a.asm": src}, opts=(v.get("case") or {}).get("opts", ["-q"]), binary_sources=bins)
    log("replay rc=%s\n%s%s" % (res.rc, res.out, res.err))
    if res.p:
        log("code: %s" % [(rec.start, list(rec.data)) for rec in res.parsed().data_records()])
    log("recorded: %s" % v["what"])
    return 0
