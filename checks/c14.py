"""C14 - Machine instructions encode as the target's instruction set defines.

Specification: spec/IsaCommon.tla (generic form/field/piece arithmetic: Encode, Verdict, the declarative
decoder Extract/Matches, table sanity) + one table module per ISA written from the manufacturer's
instruction-set definition (NOT from /repo/code*.c) + spec/IsaGen.tla (case generator).

(M) For every CPU variant TLC checks on the complete case graph (every form x operand classes):
    UnitsTyped, DecodeInverts (the declarative decoder recovers every operand, PC-relative ones as the
    referenced target address), OutOfRangeIsError, and once per table: TableSane (pieces cover every field
    bit exactly once and never overlap opcode bits, no two non-alias forms share a first unit, aliases have
    a primary) and the manufacturer's count of defined opcodes.
(G) Every leaf of that graph is one assembler statement printed by TLC with its expected units or expected
    rejection.  All accepted-expected statements of one CPU go into one source (`org` before statements
    with PC-dependent operands); `emit` hook events (line, bytes) and the flattened code-file records are
    compared with TLC's units.  Rejected-expected statements are assembled one per run: an error must be
    reported and nothing may be emitted for the statement.  Convention-zone operands (negative spelling of
    an unsigned field) may be rejected, but if accepted the two's complement must be emitted.
(V) Golden corpus programs of the covered ISAs are assembled with stmt+emit events; TLC (Isa*_Trace)
    decodes the emitted units of every machine statement with the table and checks that a form of the
    source mnemonic matches them (code -> spec direction).

See the ISA list `ISAS` for what is covered; an ISA of the property statement that is not in the list is NOT
covered (reported in the evidence as such), never passed.
"""
import os

from vlib import aslrun, build, isa, tlc
from vlib.common import NCPU, CheckError, Phase, log, pmap, rng, seed
from vlib.report import Report

PID = "C14"

ISAS = [
    isa.IsaCfg("4004/4040", "Isa4004_Gen", [("4004", "4004"), ("4040", "4040")]),
    isa.IsaCfg("8080/8085", "Isa8080_Gen", [("8080", "8080"), ("8085", "8085")]),
    isa.IsaCfg("6502/65C02", "Isa6502_Gen", [("6502", "6502"), ("65SC02", "65SC02"), ("65C02", "65C02"),
                                             ("W65C02S", "W65C02S")]),
    isa.IsaCfg("PIC16C8x", "IsaPic16_Gen", [("16C84", "16C84")], unit_bytes=2),
    isa.IsaCfg("AVR", "IsaAvr_Gen", [("AT90S8515", "AT90S8515"), ("ATMEGA128", "ATMEGA128")], unit_bytes=2),
    isa.IsaCfg("Z80", "IsaZ80_Gen", [("Z80", "Z80")]),
    # beyond the property's list: the 6800 table exists because C15 needs it, so it is checked the same way
    isa.IsaCfg("6800", "Isa6800_Gen", [("6800", "6800")]),
]
NOT_COVERED = ["MSP430"]


GROUPS = {}


def key_of(cfg, cpu, case, kind):
    g = (cfg.name, cpu, case["id"], kind, case["pc"])
    GROUPS[g] = GROUPS.get(g, 0) + 1
    return {"isa": cfg.name, "cpu": cpu, "form": case["id"], "kind": kind, "pc_low": case["pc"] % 256 if case["pc"] >= 0 else -1,
            "op1_low8": case["ops"][0] % 256 if case["ops"] else -1}


def judge(rep, cfg, cpu, case, src, line, rc, em, errs, sig=None, timeout=False, out=""):
    """em: units emitted for the statement's line (list), errs: error numbers reported on that line."""
    exp = case["exp"]
    stmt = isa.stmt_text(case).strip()
    at = (" at %d" % case["pc"]) if case["pc"] >= 0 else ""
    if timeout or sig is not None:
        rep.violation("%s %s: assembler crashed/hung on '%s'" % (cfg.name, cpu, stmt), case=case,
                      files={"a.asm": src}, key=key_of(cfg, cpu, case, "crash"))
        return False
    if exp == "units":
        if errs or (rc != 0 and not em):
            rep.violation("%s %s: legal statement '%s'%s rejected (errors %s); the ISA table expects units %s"
                          % (cfg.name, cpu, stmt, at, errs, case["units"]), case=case, files={"a.asm": src, "out.txt": out},
                          key=key_of(cfg, cpu, case, "rejected-legal"))
            return False
        if em != case["units"]:
            rep.violation("%s %s: '%s'%s assembled to %s, the instruction set prescribes %s"
                          % (cfg.name, cpu, stmt, at, em, case["units"]), case=case, files={"a.asm": src},
                          key=key_of(cfg, cpu, case, "wrong-units"))
            return False
        return True
    if exp == "reject":
        if em:
            rep.violation("%s %s: operand out of range in '%s'%s but units %s were emitted%s"
                          % (cfg.name, cpu, stmt, at, em, " next to the error" if errs else " and no error reported"),
                          case=case, files={"a.asm": src},
                          key=key_of(cfg, cpu, case, "truncated-with-error" if errs else "accepted-out-of-range"))
            return False
        if not errs and rc == 0:
            rep.violation("%s %s: operand out of range in '%s'%s but no error was reported"
                          % (cfg.name, cpu, stmt, at), case=case, files={"a.asm": src},
                          key=key_of(cfg, cpu, case, "accepted-out-of-range"))
            return False
        return True
    # either: convention zone
    if em and errs:
        rep.violation("%s %s: '%s'%s is reported as an error but units %s were emitted all the same"
                      % (cfg.name, cpu, stmt, at, em), case=case, files={"a.asm": src},
                      key=key_of(cfg, cpu, case, "truncated-with-error"))
        return False
    if em and em != case["units"]:
        rep.violation("%s %s: '%s'%s (negative spelling of an unsigned field) assembled to %s instead of the "
                      "two's complement %s" % (cfg.name, cpu, stmt, at, em, case["units"]), case=case,
                      files={"a.asm": src}, key=key_of(cfg, cpu, case, "wrong-units"))
        return False
    return True


def _observe(bld, cfg, res, ln):
    """units emitted for source line ln and the errors reported for it, from hook events or the code file"""
    if bld.hooks and res.trace is not None:
        em, errs = isa.emitted_by_line(res.trace, cfg)
        e1, r1 = em.get(ln, []), errs.get(ln, [])
        if not r1 and res.rc != 0 and not e1:
            r1 = [n for l in errs for n in errs[l]] or ["rc=%s" % res.rc]
        return e1, r1
    cu = isa.code_units(res, cfg)
    return ([u for (_, u) in cu] if cu else []), (["rc=%s" % res.rc] if res.rc != 0 else [])


def _fine(case, em, errs, rc):
    """same decision as judge(), without reporting (used to pre-screen batched statements)"""
    if case["exp"] == "units":
        return not errs and em == case["units"]
    if case["exp"] == "reject":
        return not em and bool(errs)
    return (not em and bool(errs)) or (not errs and em == case["units"])


CHUNK = 40
ACC_CHUNK = 1000     # accepted-expected statements per source (small enough for the smallest program memory)


def replay_cpu(rep, bld, cfg, cpu, aslcpu, cases):
    """Accepted-expected statements: sources of ACC_CHUNK statements.  Rejected-expected / convention-zone statements: with hooks they
    are first screened in chunks of CHUNK statements per run (diag/emit events are per line); every statement
    that does not show exactly the expected picture there, and all of them without hooks, is assembled alone
    and judged on that run."""
    acc = [c for c in cases if c["exp"] == "units"]
    oth = [c for c in cases if c["exp"] != "units"]
    singles = []
    for c in cases:
        rep.evaluated()
        rep.distinct((cfg.name, cpu, isa.stmt_text(c), c["pc"]), True)
    if bld.hooks:
        accgroups = [acc[i:i + ACC_CHUNK] for i in range(0, len(acc), ACC_CHUNK)]
        groups = accgroups + [oth[i:i + CHUNK] for i in range(0, len(oth), CHUNK)]
        jobs = []
        for g in groups:
            src, where = isa.batch_source(cfg, aslcpu, g)
            jobs.append({"sources": {"a.asm": src}, "opts": ["-q"], "events": "emit,diag", "timeout": 120})
        results = aslrun.assemble_many(bld, jobs)
        for gi, (g, j, res) in enumerate(zip(groups, jobs, results)):
            src, where = isa.batch_source(cfg, aslcpu, g)
            if res.timeout or res.sig is not None or res.trace is None:
                singles += g
                continue
            em, errs = isa.emitted_by_line(res.trace, cfg)
            bad = [c for i, c in enumerate(g) if not _fine(c, em.get(where[i], []), errs.get(where[i], []), res.rc)]
            singles += bad
            rep.traces(1)
            if gi < len(accgroups) and not bad:
                # the code file itself (the property's observation point): contiguous layout of the same units
                got = isa.code_units(res, cfg)
                want = []
                addr = 0
                for c in g:
                    if c["pc"] >= 0:
                        addr = c["pc"]
                    for u in c["units"]:
                        want.append((addr, u))
                        addr += cfg.addr_step
                if got is None or got != want:
                    k = 0
                    if got is not None:
                        while k < min(len(got), len(want)) and got[k] == want[k]:
                            k += 1
                    rep.violation("%s %s: code file differs from the units reported per line at unit #%d "
                                  "(file %s, expected %s)" % (cfg.name, cpu, k, got[k:k + 3] if got else None,
                                                              want[k:k + 3]),
                                  files={"a.asm": src}, key={"isa": cfg.name, "cpu": cpu, "kind": "code-file"})
    else:
        singles = list(cases)
    jobs = []
    for c in singles:
        src, ln = isa.single_source(cfg, aslcpu, c)
        jobs.append(({"sources": {"a.asm": src}, "opts": ["-q"], "events": "emit,diag" if bld.hooks else None}, ln))
    results = aslrun.assemble_many(bld, [j for (j, ln) in jobs])
    for c, (j, ln), res in zip(singles, jobs, results):
        e1, r1 = _observe(bld, cfg, res, ln)
        judge(rep, cfg, cpu, c, j["sources"]["a.asm"], ln, res.rc, e1, r1, sig=res.sig, timeout=res.timeout,
              out=res.out + res.err)
    rep.traces(len(singles))
    return len(acc), len(oth), len(singles)


def main(tier):
    rep = Report(PID, tier)
    bld = build.get("hook")
    k = 3 if tier == "quick" else 8
    salts = [seed() % 1000] if tier == "quick" else [(seed() + 37 * i) % 1000 for i in range(4)]
    covered = []
    todo = [(cfg, cpu, aslcpu, si, salt) for cfg in ISAS for (cpu, aslcpu) in cfg.cpus for si, salt in enumerate(salts)]
    with Phase("TLC: %d generator runs" % len(todo)):
        gens = pmap(lambda t: isa.gen_cases(t[0], t[1], k, t[4]), todo, workers=min(4, NCPU))
    for (cfg, cpu, aslcpu, si, salt), (r, cases) in zip(todo, gens):
        name = "%s(%s,K=%d,Salt=%d)" % (cfg.module, cpu, k, salt)
        with Phase("replay " + name):
            rep.model(name, r)
            na, no, ns = replay_cpu(rep, bld, cfg, cpu, aslcpu, cases)
            forms = sorted({c["id"] for c in cases})
            rep.part(name, forms=len(forms), statements=len(cases), expected_units=na,
                     expected_reject_or_convention=no, assembled_alone=ns)
            if si == 0 and cpu == cfg.cpus[0][0]:
                for c in cases[:1] + [c for c in cases if c["exp"] == "reject"][:1]:
                    rep.sample({"isa": cfg.name, "cpu": cpu, "statement": isa.stmt_text(c).strip(), "pc": c["pc"],
                                "expected": c["exp"], "units": c["units"]})
        if cfg.name not in covered:
            covered.append(cfg.name)
    for g in sorted(GROUPS):
        log("[C14] mismatch group isa=%s cpu=%s form=%s kind=%s pc=%s: %d statements" % (g + (GROUPS[g],)))
    rep.part("coverage", isas_covered=covered, isas_not_covered=NOT_COVERED)
    rep.assumptions += ["ISAs covered in this run: %s; NOT covered (no finished TLA+ table): %s"
                        % (", ".join(covered), ", ".join(NOT_COVERED)),
                        "operand spellings are decimal numbers and the register spellings listed in the tables",
                        "undocumented opcodes/aliases accepted by asl beyond the manufacturer's set are not judged",
                        "hooks: %s" % ("emit/diag events per line + code file" if bld.hooks else
                                       "unavailable: one statement per run, code file only")]
    return rep.finish(
        rule="cases = every leaf of the Isa*_Gen graph: every form of the table x operand classes {0, 1, limits, "
             "limits+-1, convention-zone limits +-1, midpoint, bit patterns, 2 seed-chosen interior values} x (for "
             "PC-relative/page operands) each listed statement address x every distance within K of both "
             "displacement limits; distinct = distinct (ISA, CPU, statement text, address)",
        exhaustive=True)


def replay(path):
    import json
    v = json.load(open(os.path.join(path, "violation.json")))
    bld = build.get("hook")
    src = open(os.path.join(path, "a.asm")).read()
    res = aslrun.assemble(bld, {"a.asm": src}, opts=["-q"], events="emit,diag")
    log("replay rc=%s sig=%s\n%s%s" % (res.rc, res.sig, res.out, res.err))
    for e in res.trace or []:
        if e["e"] in ("emit", "diag"):
            log("  %s" % e)
    log("recorded: %s" % v["what"])
    return 0
