"""C14 - Machine instructions encode as the target's instruction set defines.

Specification (all verdict-relevant knowledge is TLA+):
  spec/IsaCommon.tla  form / field / piece arithmetic (div-mod only): Encode, Verdict, the declarative decoder
                      Extract / Matches, table sanity (FormWellFormed, AmbiguousOpcodes, FormsDistinct, DefinedOpcodes)
  spec/Isa4004 Isa8080 Isa6502 IsaPic16 IsaAvr IsaZ80 IsaMsp430 (+ Isa6800)
                      one finite table per ISA written from the manufacturer's instruction-set definition
                      (NOT from /repo/code*.c): [mnemonic, argument templates, operand fields (width, signedness,
                      scaling, PC-relative base / in-page rule), opcode pattern with bit pieces, length]
  spec/IsaGen.tla     case generator: Init picks a form (and the statement address for PC-dependent operands), each
                      step fixes the next operand to one member of its class set; a leaf = one assembler statement;
                      second state space SInit: one state per ordered pair of mnemonics (adjacency dimension)
  spec/IsaAlias.tla   REGISTER-SYMBOL dimension (+ IsaAliasTab.tla, instantiated by Isa4004_Alias / IsaAvr_Alias /
                      IsaMsp430_Alias): a case is a HISTORY - definition statements build a symbol table (operational
                      Define / Eval, declarative Denotes on the program text), the machine statement reads it
  spec/Isa8080Z.tla   SYNTAX dimension: the 8080 / 8085 instruction set in the second syntax asl accepts for it
                      (Z80SYNTAX ON / EXCLUSIVE); no second table: the Z80-style spellings are DERIVED as the forms of
                      IsaZ80.tla whose encoding is an unprefixed opcode of Isa8080.tla (+ the manual's CP A,n, LD A,IM, LD IM,A)
  spec/IsaHist.tla    HISTORY dimension (+ IsaCtxTab.tla, instantiated by Isa*_Hist on top of Isa*_Gen): every leaf of the
                      case graph is printed with a CONTEXT statement for the line in front of it; the expectation is the
                      context-free one of the table
  spec/Isa_Trace.tla  (V) explains recorded statements of golden programs with the tables

(M) per CPU variant TLC explores the complete case graph and checks at every leaf UnitsTyped, DecodeInverts (the
    declarative decoder recovers every operand, PC-relative ones as the referenced target address) and
    OutOfRangeIsError; once per table: pieces cover every field bit exactly once and never overlap opcode bits, no two
    non-alias forms can yield the same opcode, and the manufacturer's opcode counts (4004 239 / 4040 253, 8080 244 /
    8085 246, 6502 151 / 65SC02 178 / 65C02 210 / W65C02S 212, 6800 197, Z80 pages 252 / 248 CB / 56 ED, PIC16 word count).
(G) every leaf is printed by TLC as statement pieces + expected units or expected rejection, together with its context
    statement (H).  Expected-accepted statements: sources of 500 cases (context statement, statement) after `cpu <name>`
    (`org` before cases with PC-dependent operands); the `emit` hook events (line, bytes) AND the flattened code-file
    records are compared with TLC's units.  Expected-rejected / convention-zone statements: screened in chunks of 40
    cases per run (diag/emit events are per line); every case that does not show exactly the expected picture - and,
    without hooks, every case - is assembled alone and judged there, and if it is fine alone, in its context (H): an
    error must be reported and NOTHING may be emitted for the statement; convention-zone operands (negative spelling of
    an unsigned field, address beyond the device) may be rejected, but if accepted the two's complement must be emitted.
(S) SYNTAX dimension (spec/Isa8080Z.tla; generator Isa8080Z_Gen / Isa8080Z_Hist).  asl accepts a SECOND syntax for the
    8080 / 8085 (doc/pseudo-instructions.md "Z80SYNTAX", doc/processor-specific-hints.md "8080/8085"): with Z80SYNTAX
    ON (almost) every instruction may also be written the way Zilog defined it for the Z80, with EXCLUSIVE only that way.
    It is the same machine: same reference encoder, same range limits.  The Z80-style forms are not tabulated again but
    derived: ZCore = the forms of the Z80 table (Zilog manual) whose encoding is one unprefixed opcode byte the 8080
    table (Intel manual) defines (72 forms: LD in 15 shapes, the 8 ALU operations x r / n / (HL), INC / DEC r, ss, (HL),
    ADD HL,ss, PUSH / POP qq, EX DE,HL, EX (SP),HL, JP / CALL [cc,]nn, JP (HL), RET [cc], RST p, IN A,(n), OUT (n),A,
    RLCA .. HALT); TLC checks ZAgrees (every opcode a ZCore form can start with starts an Intel form of the same length,
    operand byte layout and range limits) and, in EXCLUSIVE mode, that the 244 / 246 opcodes are reached with the Z80
    spellings alone.  From the manual: `CP n` and one-operand `JP nn` keep their Intel meaning in mode ON (shadowed Z
    forms are dropped there, the comparison is written `CP A,n`), RIM / SIM = `LD A,IM` / `LD IM,A` (8085).  RST in mode
    ON (manual silent): 0..7 is the Intel vector number, 8.. the Zilog address - generated with operand windows.
    CPU variants (TLA+ Cpu constant = asl CPU : mode): 8080:ZON 8085:ZON (all Intel forms + unshadowed Z forms, 154
    forms) 8080:ZEX 8085:ZEX (75 forms); each gets the full treatment (G) + (H) + (A).  quick: 8085:ZON, 8085:ZEX
    (the 8080 differs by RIM / SIM only); thorough: all four.
(H) HISTORY dimension (spec/IsaHist.tla, IsaCtxTab.tla; every ISA).  The instruction sets are context free, so a leaf of
    the case graph - above all one with an operand just outside its range - must get the same verdict and units on the
    line directly after ANY legal statement as at the start of a program; what the operand decoders of the previous
    statement left behind (operand size, addressing mode, prefix / extension words) must not reach it.  TLC groups all
    forms of the CPU that have representative legal operands by OPERAND SHAPE (number of units, set of (kind, width)
    of the operand fields; 8 shapes on the 8080, 9 in its Z80 syntax, 22 on the Z80, 15 on the AVR) and gives every leaf one
    context statement:
    shape = (Salt + form number + sum of the ranks of the operand values in their class sets) mod (shapes + 1) (0 = no
    context), form within the shape = the quotient mod the row length.  Along every operand dimension consecutive class
    members (limit, limit + 1, the mask probes ...) therefore meet consecutive shapes, and over forms and seeds every
    form of the table serves as context.  TLC checks at every leaf that the context is a legal judged statement of the
    table that ends where the statement begins, and that the printed expectation is the table's alone.  thorough: 4
    salts = 4 different rotations.
    WHY (S) + (H) WERE ADDED: a change in code85.c (the per-statement reset `OpSize = 0` removed from MakeCode_85, an
    `OpSize = 0` added to the 8-bit-register branch of DecodeAdr_Z80) compiled, passed the 201 tests and was NOT
    reported: with Z80SYNTAX ON / EXCLUSIVE the 8/16-bit immediate selector then survives from one statement to the
    next, and after `LD HL,nn` / `INC DE` / `CALL nn` ... the immediates of `LD (HL),n` and of one-operand SUB / AND /
    OR / XOR are range-checked as 16 bit: `LD (HL),300` -> 36 2C instead of an error.  Neither dimension existed: no
    statement was ever written in the second syntax, and every out-of-range statement was judged ALONE (a deviation in a
    screening chunk was re-run without its predecessors); the adjacency pairs (A) are legal statements only, one form
    per mnemonic.  Now: 53 violations (LD (HL),n / SUB n / AND n / OR n / XOR n, both modes), exit 1.
(A) ADJACENCY dimension (inter-instruction state; IsaGen.tla SInit / SeqOut): per CPU variant TLC enumerates every
    ORDERED PAIR of mnemonics of the table (6502: 56 x 56, W65C02S: 98 x 98, ATMEGA128: 111 x 111 ...), picks a
    representative form and legal operands for both and prints the two statements with their units; the harness puts
    the two statements of a pair on CONSECUTIVE source lines (an `org` before the pair, nothing between them), 400 pairs
    per source.  Each statement is compared, in that context, with the context-free units of the table - except where
    the ISA module's operator `After(cpu, previous form, form, units)` names assembler behaviour (only MELPS740, below).
    A deviating pair is re-run as a two-statement source and judged there (never statement by statement: the context
    is the point).  Quick tier included.
    CPU MELPS740 (Mitsubishi 740, not in the property's CPU list) is covered by this dimension only, with its
    6502-compatible base set: there asl inserts a NOP behind PLP and in front of SEC / CLC / CLD that directly follow
    ADC / SBC (usage cautions of the 740 family); Isa6502.tla `After` states exactly that, every other 65xx CPU is
    context free.
(R) REGISTER-SYMBOL dimension (IsaAlias.tla; targets whose syntax has register symbols, doc/assembler-usage.md "Register
    Symbols": 4004/4040, AVR, MSP430).  The manual: a register may be given a symbolic name with REG, EQU (=) or SET
    (EVAL where SET is a machine instruction; :=), `myreg2 reg myreg` makes myreg2 denote the same register.  So a
    machine statement whose register operand is written through a symbol is the same instruction as the statement
    with the literal the symbol denotes.  Per CPU variant TLC explores: every form with a register field x every
    register field position (MSP430: Rn, X(Rn), @Rn, @Rn+, source and destination) x EVERY register literal the table
    lists for the field (all spellings: PC / SP / SR and R0 / R1 / R2, RA and R10, pairs R0R1 and R0P) x definition
    scenario (REG, EQU, =, SET/EVAL, :=-redefinition, SET-redefinition, REG of a REG symbol, EQU of a SET symbol,
    snapshot: a copy taken before the original is re-defined keeps the old register).  Where the table lists all
    registers an instruction takes (AVR: LDI R16..R31, ADIW R24/26/28/30, MOVW even, MULSU R16..R23; 4004: register
    vs. pair) a symbol for any OTHER register literal of the CPU is generated too and must be rejected with nothing
    emitted (a masked register number would be "emitted truncated").  Each behaviour executes the definitions one
    by one (state: program text + symbol table), the last step resolves the operand through the table; TLC checks
    SymMeaning (table = declarative meaning of the text, at every state), PlanMeaning, Transparent (units = units of
    the literal statement, the declarative decoder finds the denoted register) and UnknownIsError, and prints the
    definitions + statement + expected units.  The harness writes the definition lines directly in front of the
    statement (symbol names are made unique by TLC from the case's coordinates) and replays like (G).
    quick: 4004/4040 every scenario for every (form, position, register); ATMEGA128 and the MSP430 sample rotate the
    scenario over (form, position, register) so that every register and every form meets every scenario (~10,500
    statements, 4 TLC runs of 4-8 s in the pool); thorough: every scenario everywhere, all CPU variants (109,500
    statements, 5 runs, 14-48 s each).
    WHY ADDED: a one-line change in codemsp.c DecodeReg (the register-symbol path no longer strips the internal mark
    bit 16 that tells PC/SP/SR from R0/R1/R2, so `mysp reg sp` / `mov mysp,r7` assembles to 5107h = ADD instead of
    4107h) compiled, passed the 201 tests and was NOT reported: every generated statement spelled its registers with
    literals, the symbol path of DecodeReg was never taken.  Now: 169 mismatch groups, exit 1.
(V) machine statements of 15 golden programs (stmt + emit events, CPU tracked through the CPU statements) are validated
    by TLC against the tables (a mnemonic of the table must be explained by one of its forms).  A rejection is
    reported as SPEC-DRIFT (table gap or defect), the verdict stays with (G).  Runs in the background of the TLC pool.

Out-of-range operand classes (IsaGen.tla NumClasses) contain, next to limits +-1, MASK PROBES: values congruent to small
legal ones modulo 2^j, j = w..w+5 (2^j, 2^j + 5, and 2^w + 2^j + 5 = the same behind a rebase by the field's own range):
an encoder that masks the operand before its range check lets them through (AVR `sbi 0x205,1`, below).

6502 forced addressing (`<addr`): code65.c accepts `<` (force zero page) / `>` (force absolute) in front of an address.
    The manual (/repo/doc) says NOTHING about these prefixes for the 65xx family of code65.c; only the MELPS-7700/65816
    section (another code generator) documents them ("an address length that is not allowed for the current
    instruction ... an error message is the result").  Decision: `<` on an instruction that has NO zero-page form of the
    mode (JMP / JSR abs, ORA AND EOR ADC STA LDA CMP SBC abs,Y: forms "abso<" / "absyo<" of Isa6502.tla) is generated
    but its ACCEPTANCE IS NOT JUDGED (Isa6502.tla `Unjudged`, verdict "either"): an error message and the promotion
    to the three-byte absolute encoding are both admitted.  If the statement is accepted, the emitted units must be
    an encoding the instruction set has for it, and that is only the absolute one (opcode, low byte, 00) - a two-byte
    JMP is no 6502 instruction under either reading.  `<` where a zero-page form exists and `>` are not generated.

ISAs covered: see ISAS.  quick: K = 3, one seed-derived salt, 6502 + W65C02S (+ MELPS740 adjacency), ATMEGA128,
16C84 + 16C877, 8085 in
both Z80-syntax modes, MSP430 sample subset (MOV / ADD.B / CMP[.B] + format II + jumps + emulated); thorough: K = 8, 4 salts, all CPU variants, all
12 MSP430 format-I operations.  The evidence names the ISAs of the run; nothing outside the list is "passed".
Measured (VERIF_JOBS=6, machine shared): quick 62 s (23 single-worker TLC runs in a pool of 6: 48 s; replay of
~259,000 statements: 12 s); with the register-symbol dimension 27 TLC runs, ~269,700 statements: same wall time
within the noise of the shared machine (under load: TLC phase 101 / 106 / 110 / 128 s with it, 109 s without it; the
four added runs cost ~25 CPU-seconds in the pool of 6, their replay ~1.5 s).
With the syntax + history dimensions (31 TLC runs, ~293,700 statements + their context lines; load average 60-110 from
other jobs): quick 79 - 143 s wall / 420 - 450 CPU-s against 398 CPU-s before on the same day (+6 .. 13 %: the context costs
~0.2 ms per leaf, W65C02S generator 14.5 -> 19.7 CPU-s; the two Z80-syntax generator runs 6-9 s each, their adjacency
runs 5-9 s; replay of a CPU variant +45 %, MSP430 sample 1.4 -> 2.1 s); thorough 618 s wall (96 TLC runs, 1,513,000
statements), no suspect on the unchanged tree in either tier.

NOT covered / not judged: Z80 syntax: CPU 8085UNDOC (no manufacturer's table), the 8008 (no modelled ISA), explicit
accumulator `SUB A,..` / `AND A,..` and Intel register names in Z80-style statements (manual silent), that EXCLUSIVE
rejects the Intel mnemonics; history: contexts of more than one statement, REJECTED statements as context (a statement
with an error leaves decoder state behind too), every shape for every single operand value (rotation); number
spellings other than decimal; register aliases beyond the tables (AVR XL..ZH, MSP430
R3); register symbols: forward references (the manual warns they become plain numbers), section-local symbols, a
symbol name where a NUMBER is expected, lower/mixed-case spellings, the other operands at more than IsaGen's one
representative value, MSP430 registers a field of the reduced table does not list; undocumented
opcodes and assembler conveniences (NMOS 6502 JMP ($xxFF) guard, MSP430 0(Rn)->@Rn and constant-generator choice for
65535 / 255, PIC omitted destination, OPTION/TRIS, BANKSEL, AVR CBR); MSP430 full
source x destination cross product (every mode x register appears against a register operand, two-extension-word
combinations only for MOV and CMP.B); the MSP430X's own instructions, AVR devices other than AT90S2313 / AT90S8515 / ATMEGA16 /
ATMEGA128 (other cores: 90S1200, tiny, reduced tiny with 16 registers), Z80 undocumented, Z180/Z380; MELPS740's own
instructions (bit operations, JMP ($zz), BBC/BBS after CLI/SEI).  Adjacency: contexts longer than one
statement, and pairs of different FORMS of the same two mnemonics, are not enumerated.

Extension "isavar" (checks/ext_isavar.py, last phase of main(); spec modules "IsaPic16P", "IsaMsp430E", "IsaAvrBit"; details and
bounds in the docstring there) + DEVICE dimension of the tables themselves:
  PIC16C8x: TLA+ Cpu constants 16C84 16C64 16C873 16C874 16C876 16C877 (spec/IsaPic16.tla: program memory 1 K / 2 K / 2 pages /
      4 pages; quick: 16C84 + 16C877, thorough: all six) through the whole pipeline (G) (H) (A); CALL / GOTO on the paged
      devices: page-0 statement to page-0 target in the table, every statement page x target page x device in IsaPic16P
      (operational prefix rule vs. declarative execution of the emitted words by the table's own decoder; quick 16C873 + 16C877).
  AVR: + AT90S2313 (classic core, 1 K words, SRAM ..0DFH) and ATMEGA16 (enhanced core, 8 K words, JMP / CALL 0..8191, no ELPM);
      one statement address of each in the last two words of the flash so that branch targets straddle the end of the device
      (quick: ATMEGA128 as before; thorough: all four, register symbols too).  BIT symbols: IsaAvrBit.
  MSP430: RLA / RLC (source = destination) derived from the core table (IsaMsp430E; CPU MSP430 and MSP430X); thorough: the sample
      subset of the table also under CPU MSP430X.
  WHY ADDED: a change in code16c8x.c DecodeJump (`(AdrWord & Mask)` -> `(XORVal & Mask)`: a differing page bit is always SET, never
      cleared) compiled, passed the 201 tests and was NOT reported - the PIC table knew the single-page 16C84 only.  Now:
      442 violations (16C873: page 1 -> 0; 16C877: every jump that has to clear a page bit), exit 1.
  Reverting the three repaired defects of the pinned tree in a scratch worktree (each alone; quick tier, phase isavar):
      cdf60d6 (`rla &0` -> `add #4,&0`): 12 violations (RLA / RLC x "" .B .W, &0, both CPUs: 52A2 0000 instead of 5292 0000 0000);
      c749bf0 (`rla sym`, sym 0 / 1 bytes behind the first extension word, rejected): 48 violations;
      ae3ac7b (`sbi b1` with b1 BIT of a PORT symbol rejected): 80 violations (SBI CBI SBIC SBIS x PORT-typed address 0 1 24 30 31
      x bit x both BIT spellings).
  Measured (machine loaded with ~30 other jobs, load average > 100): the added quick-tier TLC runs cost 16C877 2 x ~20, isavar
      4 runs ~25 CPU-seconds; replay of the added ~14,000 statements ~5 s.

Findings (known_findings/C14.json).  "fixed" (diffs applied to /repo, the entries suppress nothing):
  4004 ISZ at words 254/255 of a page checked against page of pc+1 (legal target rejected, unreachable one encoded);
  65SC02 / W65C02S JMP ($xxFF) rejected; 6800 JMP/JSR and MSP430 (every format) emit a truncated instruction next to
  the range error.
  C14-msp430-rla-symbolic-wrap-8000 / -8001 ("known", proposed_fixes/C14-msp430-rla-symbolic-wrap.diff + .md; must flip to "fixed"
      when the diff is applied): `rla sym` / `rlc sym` whose source displacement is 8000h / 8001h rejected with 'distance too
      big' although `add sym,sym` assembles and every address is reachable in symbolic mode (found by IsaMsp430E; match key
      `srcdst_disp` = 16-bit source displacement of a src = dst emulated form in symbolic mode).
"known" (reproduced by hand on the unchanged tree, diff + note in proposed_fixes/, ctest 201/201 with all three
applied, `./check C14` on that copy: no finding left; each entry must flip to "fixed" when its diff is applied):
  C14-6502-forced-zp-promotion   `jmp <$12` -> 4C 12, `lda <$12,y` -> B9 00: DecodeNorm appends the high byte through
      the unrelated global AdrCnt (codevars.c) instead of AdrResult.AdrCnt: length stays 2, the first use zeroes the
      low byte, every further use writes one byte further behind the 2-byte stack array (100 statements: SIGSEGV).
  C14-melps740-insnop-*          MELPS740 `adc $12` / `clc` -> EA 12 instead of EA 18: InsNOP() memmove()s the wrong
      way (found by the adjacency dimension; 6 entries: SEC/CLC/CLD after ADC/SBC).
  C14-avr-*-port-aliased         AVR SBI/CBI/SBIC/SBIS: address masked with 0x1ff before the 0..31 range check
      (`sbi 0x205,1` -> 9A29 = port 5; probes 512, 517, 1024, 1029 on the ATMEGA128 of the quick tier).
  The match keys use descriptors computed by key_of(): `forced` (first character of a `<`/`>` operand), `dev` (shape
  of the unit mismatch: "len2/3,opcode-ok", "unit1-differs"), `prev` (previous mnemonic of a pair), `op1_low9_lt32`.

Mutations of the real code tried (scratch copy, `VERIF_REPO=... ./check C14 --tier quick`), all of them compile and pass
the 201 ctest tests, all were reported as VIOLATION:
  code4004.c DecodeImm4 UInt4 -> UInt8 (BBL/LDM 16 accepted);  code65.c branch limit 127 -> 128;
  code16c8x.c bit number UInt3 -> UInt4;  code4004.c JCN page rule pc+2 -> pc+1;  code85.c LXI Int16 -> Int32;
  code65.c DecodeFixed: the 740-only "NOP before SEC/CLC/CLD after ADC/SBC" moved out of the `MomCPU == CPUM740`
      guard (inter-instruction state; MISSED before the adjacency dimension existed: ~1000 accepted statements per
      source never had the adjacency) -> 12 violations: 6502 and W65C02S, CLC / SEC / CLD on the line directly after
      ADC / SBC assemble to EA 00 instead of 18 / 38 / D8 (84 s).
  register-symbol dimension (one scratch copy with both, ctest 201/201): codeavr.c DecodeReg symbol path
      `RegDescr.Reg ^ (RegDescr.Reg == 31)` (a symbol for R31 encodes R30) -> 84 mismatch groups over all AVR forms
      incl. ADIW / MOVW accepting the symbol where R31 must be rejected; code4004.c DecodeReg symbol path
      `RegDescr.Reg ^ (RegDescr.Reg == 13)` -> 162 groups (INC ADD SUB LD XCH ISZ, RD and R13, every scenario), exit 1.
      The seeded codemsp.c change above: 169 groups (every MSP430 mode, PC / SP / SR, every scenario), exit 1.
      Binding of the model itself: Define without replacing the old entry of a re-defined name makes TLC report
      SymMeaning violated (REDEF / := / SNAPSHOT scenarios).
  syntax + history dimension (scratch worktree, ctest 201/201): the seeded code85.c change above -> 53 violations,
      exit 1; on the unchanged tree the two Z80-syntax variants and all contexts pass without a single suspect.
Binding of (V): truncating the recorded units of a JMP or flipping opcode bit 0 of an MVI event makes Isa_Trace reject.

Extension isa8051 (checks/ext_isa8051.py, one call at the end of main(); spec modules Isa8051, Isa8051_Gen, Isa8051_Hist,
Isa8051X, Isa8051_Trace; details in the docstring of checks/ext_isa8051.py): Intel MCS-51 (8051 / 8052, /repo/code51.c; beyond the
property's CPU list, checked the same way).  Isa8051.tla states the instruction set twice, from the manufacturer's definition:
the 111 instructions by operand form (IsaCommon form records) and the opcode map 00..FF by rows (mnemonic + length, A5
undefined); TLC: every defined opcode starts exactly one form and A5 none, mnemonic / length of that form = the map,
Decode(Encode(i)) = i at every leaf, HwTarget(bytes) = operand and "accepted iff reachable" for every branch (AJMP / ACALL: 2K
page of the FOLLOWING instruction; rel: -128..127 from the following instruction), byte.b <-> bit address bijection (20H..2FH
and SFRs divisible by 8).  Replay: every leaf of the IsaGen graph (with IsaHist context statement) through replay_hist above,
statement addresses 07FEH 07FDH 0800H 07FFH 1234H (quick, K = 1: ~37,300 statements, 3 TLC runs of 13,200-13,450 states) and
+ 0FFH 0F7FEH 0FF00H, K = 8, 2 salts, + CPU 8052 (thorough: ~383,000 statements); Isa8051X: 3,072 (thorough 12,288) bit
operands written byte.b (number / SFR / SFRB / BIT symbol) + 402 generic JMP / CALL cases (admissible = reaching options of
minimal length; 40 cases with two admissible encodings), each behind a context statement; t_mic51 + t_bas52: 10,274 machine
statements explained by the table.  Cost of the phase: quick 63-88 s wall at load average 80-150 (26 builders on the
machine; TLC 4 JVMs in parallel 34-68 s there, 7-14 s each when the machine was quiet, replays 2-10 s each); thorough 383 s.
Findings (known_findings/C14-isa8051.json, 12 entries "known"; proposed_fixes/C14-8051-ajmp-page.diff,
C14-8051-bit-notation.diff; ctest 201/201 with both, the phase then reports nothing; flip to "fixed" when applied):
AJMP / ACALL at offsets 7FEH / 7FFH of a 2K page are checked against the page of their own address (`org 7feh / ajmp 800h`
rejected, `ajmp 0` -> 01 00); `setb 30h.1` -> D2 81 silently, `setb 81h.1` -> D2 82 with a warning only.
Mutations of code51.c (scratch copies /tmp/g51-m1..3, each builds, ctest 201/201, full `./check C14 --tier quick`, exit 1):
  m1 DecodeDJNZ (Rn): distance limit 127 -> 128                  40 violations `DJNZ Rn,<pc+130>` -> D8+n 80, all 5 addresses
  m2 DecodeBitAdr: bit number of byte.b UInt3 -> UInt4            926 violations (`clr 32.8` -> C2 08 ...; Isa8051X only)
  m3 DecodeJMP: SJMP chosen for distance <= 128                   7 violations (`jmp $+130` -> 80 80; Isa8051X only)

EXTENSION "isa6809" (checks/ext_isa6809.py, last phase of main(); spec/Isa6809.tla, Isa6809_Gen.tla / .cfg, Isa6809_MC.cfg,
Isa6809_Trace.tla / .cfg; details in the docstring of ext_isa6809.py): the Motorola MC6809 (no 6309), written from the
programming manual.  Machine instructions (MEncode / MDecode from the byte side / PubLen / Sem) - statements
(Readings = EVERY encoding the instruction set has for the statement: no offset / 5 / 8 / 16 bit, PCR 8 / 16, direct /
extended by ASSUME DPR; Choices = Motorola convention) - Expect (units / reject / either = what ISA + manual fix; the
choice among valid encodings, `<` `>` `<<` and two's-complement spellings are never a verdict, only SPEC-DRIFT).
TLC: table sanity once (opcode map injective, 221 / 38 / 9 opcodes on pages 1 / 2 / 3, 205 canonical postbytes injective,
[,R+] [,-R] on no legal postbyte, edges -17/-16/15/16, -129/-128/127/128, short branch -128..127 from the following
instruction, LBRA 3 / LBcc 4 bytes, PCR bases with $10 / $11 prefix, S-vs-U exclusion, 8/16-bit register mixing); at
every leaf MDecode(MEncode(m)) = m, published length, same meaning, distinct bytes, choice is a shortest reading.
quick: 27,390 leaves (4 single-worker TLC runs of 6,176..7,574 states in parallel), thorough: 103,878 leaves (23,778..30,801);
every leaf is assembled twice: alone and directly behind a context statement of another operand shape (21 shapes);
(V) tests/t_full09 assembled for CPU 6809: 422 machine statements, all 139 mnemonics, explained by Isa6809_Trace.
Measured at load average 100..160 (16 cores): quick TLC 28..32 s wall (12..14 CPU-s per run, ~6.5 of them JVM / TLC
start-up), replay 2 x 5 s, (V) in the background; thorough 105 s.
Finding (known_findings/C14-isa6809.json, proposed_fixes/C14-6809-indirect-autoinc1.diff / .md): `lda [,x+]` -> A6 90,
`lda [,-x]` -> A6 92 (all 57 indexed mnemonics, X Y U S) - postbytes the 6809 does not have ($90 = [,W] on the 6309); with
the diff: ctest 201/201, phase without finding.  SPEC-DRIFT on the unchanged tree (8 summary lines): offset / PCR distance
127 gets the 16-bit form and `<127,R` is refused (code6809.c MayShort `Arg < 127`).
Mutations of code6809.c (scratch copies /tmp/g09-m1..4, each builds, ctest 201/201; the phase run on them with the
same Report, exit 1 each; three further candidates - 5-bit edge 15 -> 16, direct page test against page 0, stale high byte of
every 16-bit offset - were already killed by the repo's own t_full09 and dropped):
  m1 DecodeTFR_TFM_EXG: size-mixing test only when the destination is 16 bit   96 violations (`EXG S,A` -> 1E 48 ...)
  m2 DecodeALU: only the $10 prefix counted into the PCR base (page-3 CMPU / CMPS)   1752 violations (`CMPS n,PCR` off by one)
  m3 DecodeAdr: high byte of a 16-bit PCR offset only written when non-zero (stale byte of the PREVIOUS statement)
        873 violations, NONE of them alone: 138 directly behind their context statement (history dimension), 463 behind
        the statement in front of them in the batch, 272 only inside the batch program
  m4 DecodeRel: short branch limit 127 -> 128                                   76 violations (`BRA <pc+130>` -> 20 80)
Binding of (V): truncating an indexed LDA, flipping an opcode bit of LBNE, postbyte $91 -> $90 make Isa6809_Trace reject;
binding of the model: postbyte of D,R 11 -> 10 makes TLC report RoundTrip violated.
"""
import os

from vlib import aslrun, build, isa, isa_alias, isa_hist, tlc
from vlib.common import NCPU, CheckError, Phase, log, pmap, rng, seed
from vlib.report import Report

PID = "C14"

ISAS = [
    isa.IsaCfg("4004/4040", "Isa4004_Gen", [("4004", "4004"), ("4040", "4040")]),
    isa.IsaCfg("8080/8085", "Isa8080_Gen", [("8080", "8080"), ("8085", "8085")]),
    # SYNTAX dimension (spec/Isa8080Z.tla): the same instruction set in the second syntax asl accepts for it; the TLA+ Cpu
    # constant names CPU and mode, the mode statement is the header line behind `cpu`
    isa.IsaCfg("8080/8085 Z80SYNTAX ON", "Isa8080Z_Gen", [("8080:ZON", "8080"), ("8085:ZON", "8085")],
               header=["\tz80syntax\ton"], quick=["8085:ZON"]),
    isa.IsaCfg("8080/8085 Z80SYNTAX EXCLUSIVE", "Isa8080Z_Gen", [("8080:ZEX", "8080"), ("8085:ZEX", "8085")],
               header=["\tz80syntax\texclusive"], quick=["8085:ZEX"]),
    isa.IsaCfg("6502/65C02", "Isa6502_Gen", [("6502", "6502"), ("65SC02", "65SC02"), ("65C02", "65C02"),
                                             ("W65C02S", "W65C02S")], quick=["6502", "W65C02S"],
               seq_only=[("MELPS740", "MELPS740")]),
    # DEVICE dimension (spec/IsaPic16.tla): 1 K / 2 K single-page devices, 4 K = 2 pages, 8 K = 4 pages
    isa.IsaCfg("PIC16C8x", "IsaPic16_Gen", [("16C84", "16C84"), ("16C64", "16C64"), ("16C873", "16C873"),
                                             ("16C874", "16C874"), ("16C876", "16C876"), ("16C877", "16C877")],
               unit_bytes=2, quick=["16C84", "16C877"]),
    # DEVICE dimension (spec/IsaAvr.tla): two cores x two memory sizes (program / data address ranges, JMP / CALL, ELPM)
    isa.IsaCfg("AVR", "IsaAvr_Gen", [("AT90S8515", "AT90S8515"), ("ATMEGA128", "ATMEGA128"), ("AT90S2313", "AT90S2313"),
                                      ("ATMEGA16", "ATMEGA16")], unit_bytes=2, quick=["ATMEGA128"]),
    isa.IsaCfg("Z80", "IsaZ80_Gen", [("Z80", "Z80")]),
    # "MSP430:sample" = MOV / ADD.B / CMP[.B] + format II + jumps + emulated (see IsaMsp430.tla)
    # "MSP430X:sample" = the same subset under CPU MSP430X (variant dimension: the base set is unchanged on the 430X)
    isa.IsaCfg("MSP430", "IsaMsp430_Gen", [("MSP430:sample", "MSP430"), ("MSP430", "MSP430"), ("MSP430X:sample", "MSP430X")],
               unit_bytes=2, addr_step=2, quick=["MSP430:sample"], thorough=["MSP430", "MSP430X:sample"]),
    # beyond the property's list: the 6800 table exists because C15 needs it, so it is checked the same way
    isa.IsaCfg("6800", "Isa6800_Gen", [("6800", "6800")]),
]
NOT_COVERED = []
# register-symbol dimension: targets whose assembler syntax has register symbols (doc/assembler-usage.md "Register
# Symbols") among the modelled ISAs -> TLA+ module (spec/IsaAlias.tla instantiated on the ISA table)
ALIAS = {"4004/4040": "Isa4004_Alias", "AVR": "IsaAvr_Alias", "MSP430": "IsaMsp430_Alias"}
# quick tier: CPU variants whose case space takes every definition scenario for every (form, position, register);
# the others rotate the scenario (IsaAlias.tla ScenMode); thorough: every scenario everywhere
ALIAS_ALL_QUICK = ("4004", "4040")
# quick tier: CPU variants of the DEVICE dimension that get no register-symbol run of their own (same DecodeReg path, forms a
# subset of the device that has one); thorough: every variant
ALIAS_SKIP_QUICK = ("AT90S2313",)


GROUPS = {}


def deviation(case, em):
    """shape of a mismatch (only a descriptor for known_findings matching and the log, never a verdict)"""
    want = case["units"]
    if not em or not want:
        return ""
    op = "opcode-ok" if em[0] == want[0] else "opcode-differs"
    if len(em) != len(want):
        return "len%d/%d,%s" % (len(em), len(want), op)
    k = [i for i in range(len(want)) if em[i] != want[i]]
    return ("unit%d-differs" % k[0]) if k else ""


def key_of(cfg, cpu, case, kind, em=None):
    g = (cfg.name, cpu, case["id"], kind, case["pc"])
    GROUPS[g] = GROUPS.get(g, 0) + 1
    a1 = case["args"][0] if case["args"] else ""
    return {"isa": cfg.name, "cpu": cpu, "form": case["id"], "kind": kind, "pc_low": case["pc"] % 256 if case["pc"] >= 0 else -1,
            "op1_low8": case["ops"][0] % 256 if case["ops"] else -1,
            # operand 1 aliases a value 0..31 once everything above bit 8 is dropped
            "op1_low9_lt32": bool(case["ops"]) and isinstance(case["ops"][0], int) and 0 <= case["ops"][0] % 512 < 32,
            "forced": a1[:1] if a1[:1] in ("<", ">") else "", "prev": case.get("prev", ""),
            # register-symbol dimension: definition scenario and the register literal the symbol denotes
            "alias": case.get("scen", ""), "reg": case.get("reg", ""),
            # history dimension: form of the context statement on the line in front (judged in that context)
            "ctx": case.get("ctxid", ""),
            # src = dst emulated forms (spec/IsaMsp430E.tla): 16-bit displacement of the SOURCE extension word in symbolic mode
            "srcdst_disp": (case["ops"][0] - case["pc"] - 2) % 65536 if case.get("core") and case.get("mode") == "ADDR" else -1,
            "dev": deviation(case, em)}


def zone_text(case):
    a1 = case["args"][0] if case["args"] else ""
    if a1[:1] == "<":
        return ("forced zero-page spelling '<' on an instruction without zero-page form: rejecting it is admitted, but if "
                "accepted the only encoding the instruction set has is the absolute one")
    return "negative spelling of an unsigned field"


def judge(rep, cfg, cpu, case, src, line, rc, em, errs, sig=None, timeout=False, out=""):
    """em: units emitted for the statement's line (list), errs: error numbers reported on that line."""
    exp = case["exp"]
    if em and em != case["units"] and em in case.get("alts", ()):
        # TLC printed more than one admissible encoding of this statement (checks/ext_isavar.py): the emitted one is among them
        case = dict(case, units=em)
    stmt = isa.stmt_text(case).strip()
    at = (" at %d" % case["pc"]) if case["pc"] >= 0 else ""
    if case.get("prev"):
        at += " on the line directly after a %s statement" % case["prev"]
    if case.get("ctxstmt"):
        at += " on the line directly after the statement '%s'" % case["ctxstmt"]
    if case.get("pre"):
        at += " after the definitions [%s] (%s for %s)" % (
            "; ".join(" ".join(isa_alias.def_text(d).split("\t")) for d in case["pre"]), case.get("symkind", "register symbol"),
            case.get("reg"))
    if timeout or sig is not None:
        rep.violation("%s %s: assembler crashed/hung on '%s'" % (cfg.name, cpu, stmt), case=case,
                      files={"a.asm": src}, key=key_of(cfg, cpu, case, "crash"))
        return False
    if exp == "units":
        if errs or (rc != 0 and not em):
            rep.violation("%s %s: legal statement '%s'%s rejected (errors %s); the ISA table expects units %s"
                          % (cfg.name, cpu, stmt, at, errs, case["units"]), case=case, files={"a.asm": src, "out.txt": out},
                          key=key_of(cfg, cpu, case, "rejected-legal"))
            return False
        if em != case["units"]:
            rep.violation("%s %s: '%s'%s assembled to %s, the instruction set prescribes %s"
                          % (cfg.name, cpu, stmt, at, em, case["units"]), case=case, files={"a.asm": src},
                          key=key_of(cfg, cpu, case, "wrong-units", em))
            return False
        return True
    if exp == "reject":
        if em:
            rep.violation("%s %s: operand out of range in '%s'%s but units %s were emitted%s"
                          % (cfg.name, cpu, stmt, at, em, " next to the error" if errs else " and no error reported"),
                          case=case, files={"a.asm": src},
                          key=key_of(cfg, cpu, case, "truncated-with-error" if errs else "accepted-out-of-range"))
            return False
        if not errs and rc == 0:
            rep.violation("%s %s: operand out of range in '%s'%s but no error was reported"
                          % (cfg.name, cpu, stmt, at), case=case, files={"a.asm": src},
                          key=key_of(cfg, cpu, case, "accepted-out-of-range"))
            return False
        return True
    # either: convention zone
    if em and errs:
        rep.violation("%s %s: '%s'%s is reported as an error but units %s were emitted all the same"
                      % (cfg.name, cpu, stmt, at, em), case=case, files={"a.asm": src},
                      key=key_of(cfg, cpu, case, "truncated-with-error"))
        return False
    if em and em != case["units"]:
        rep.violation("%s %s: '%s'%s (%s) assembled to %s instead of %s"
                      % (cfg.name, cpu, stmt, at, zone_text(case), em, case["units"]), case=case,
                      files={"a.asm": src}, key=key_of(cfg, cpu, case, "wrong-units", em))
        return False
    return True


def _observe(bld, cfg, res, ln):
    """units emitted for source line ln and the errors reported for it, from hook events or the code file"""
    if bld.hooks and res.trace is not None:
        em, errs = isa.emitted_by_line(res.trace, cfg)
        e1, r1 = em.get(ln, []), errs.get(ln, [])
        if not r1 and res.rc != 0 and not e1:
            r1 = [n for l in errs for n in errs[l]] or ["rc=%s" % res.rc]
        return e1, r1
    cu = isa.code_units(res, cfg)
    return ([u for (_, u) in cu] if cu else []), (["rc=%s" % res.rc] if res.rc != 0 else [])


def _fine(case, em, errs, rc):
    """same decision as judge(), without reporting (used to pre-screen batched statements)"""
    good = em == case["units"] or (bool(em) and em in case.get("alts", ()))
    if case["exp"] == "units":
        return not errs and good
    if case["exp"] == "reject":
        return not em and bool(errs)
    return (not em and bool(errs)) or (not errs and good)


def _many(bld, jobs):
    """assemble_many; if another run has meanwhile evicted the shared build cache, rebuild once and retry"""
    try:
        return aslrun.assemble_many(bld, jobs)
    except FileNotFoundError:
        build.get(bld.flavour)
        return aslrun.assemble_many(bld, jobs)


CHUNK = 40
ACC_CHUNK = 1000     # accepted-expected statements per source (small enough for the smallest program memory)


def replay_cpu(rep, bld, cfg, cpu, aslcpu, cases, srcmod=isa):
    """srcmod: renderer (isa: one statement per case; isa_alias: definition statements + the statement).
    Accepted-expected statements: sources of ACC_CHUNK statements.  Rejected-expected / convention-zone statements: with hooks they
    are first screened in chunks of CHUNK statements per run (diag/emit events are per line); every statement
    that does not show exactly the expected picture there, and all of them without hooks, is assembled alone
    and judged on that run."""
    acc = [c for c in cases if c["exp"] == "units"]
    oth = [c for c in cases if c["exp"] != "units"]
    singles = []
    for c in cases:
        rep.evaluated()
        rep.distinct((cfg.name, cpu, isa.stmt_text(c), c["pc"]), True)
    if bld.hooks:
        accgroups = [acc[i:i + ACC_CHUNK] for i in range(0, len(acc), ACC_CHUNK)]
        groups = accgroups + [oth[i:i + CHUNK] for i in range(0, len(oth), CHUNK)]
        jobs = []
        for g in groups:
            src, where = srcmod.batch_source(cfg, aslcpu, g)
            jobs.append({"sources": {"a.asm": src}, "opts": ["-q"], "events": "emit,diag", "timeout": 120})
        results = _many(bld, jobs)
        for gi, (g, j, res) in enumerate(zip(groups, jobs, results)):
            src, where = srcmod.batch_source(cfg, aslcpu, g)
            if res.timeout or res.sig is not None or res.trace is None:
                singles += g
                continue
            em, errs = isa.emitted_by_line(res.trace, cfg)
            bad = [c for i, c in enumerate(g) if not _fine(c, em.get(where[i], []), errs.get(where[i], []), res.rc)]
            singles += bad
            rep.traces(1)
            if gi < len(accgroups) and not bad:
                # the code file itself (the property's observation point): contiguous layout of the same units
                got = isa.code_units(res, cfg)
                want = []
                addr = 0
                for i, c in enumerate(g):
                    if c["pc"] >= 0:
                        addr = c["pc"]
                    # (a statement with several admissible encodings: the one reported for its line, checked above)
                    for u in (em.get(where[i], []) if c.get("alts") else c["units"]):
                        want.append((addr, u))
                        addr += cfg.addr_step
                if got is None or got != want:
                    k = 0
                    if got is not None:
                        while k < min(len(got), len(want)) and got[k] == want[k]:
                            k += 1
                    rep.violation("%s %s: code file differs from the units reported per line at unit #%d "
                                  "(file %s, expected %s)" % (cfg.name, cpu, k, got[k:k + 3] if got else None,
                                                              want[k:k + 3]),
                                  files={"a.asm": src}, key={"isa": cfg.name, "cpu": cpu, "kind": "code-file"})
    else:
        singles = list(cases)
    jobs = []
    for c in singles:
        src, ln = srcmod.single_source(cfg, aslcpu, c)
        jobs.append(({"sources": {"a.asm": src}, "opts": ["-q"], "events": "emit,diag" if bld.hooks else None}, ln))
    results = _many(bld, [j for (j, ln) in jobs])
    for c, (j, ln), res in zip(singles, jobs, results):
        e1, r1 = _observe(bld, cfg, res, ln)
        judge(rep, cfg, cpu, c, j["sources"]["a.asm"], ln, res.rc, e1, r1, sig=res.sig, timeout=res.timeout,
              out=res.out + res.err)
    rep.traces(len(singles))
    return len(acc), len(oth), len(singles)


HIST_ACC_CHUNK = 500    # statements per source in the history layout (context + statement: as many units as ACC_CHUNK before)


def _ctx_fine(x, em, errs):
    return x is None or (not errs and em == x["units"])


def replay_hist(rep, bld, cfg, cpu, aslcpu, cases):
    """HISTORY dimension (spec/IsaHist.tla): every case is a leaf statement + the context statement TLC chose for it; the
    context stands on the line directly in front of the statement (vlib.isa_hist.batch_source), in the sources of
    accepted-expected statements as well as in the screening chunks of rejected-expected / convention-zone statements.
    A case whose statement or context does not show exactly the expected picture is a suspect: it is assembled ALONE
    (as before the dimension existed) and judged there, and if that is fine it is assembled IN ITS CONTEXT as a
    two-statement program and judged there - the expectation is the same, that is the property."""
    acc = [c for c in cases if c["exp"] == "units"]
    oth = [c for c in cases if c["exp"] != "units"]
    singles = []
    for c in cases:
        rep.evaluated()
        rep.distinct((cfg.name, cpu, isa.stmt_text(c), c["pc"]), True)
    if bld.hooks:
        accgroups = [acc[i:i + HIST_ACC_CHUNK] for i in range(0, len(acc), HIST_ACC_CHUNK)]
        groups = accgroups + [oth[i:i + CHUNK] for i in range(0, len(oth), CHUNK)]
        jobs, metas = [], []
        for g in groups:
            src, where, cwhere = isa_hist.batch_source(cfg, aslcpu, g)
            jobs.append({"sources": {"a.asm": src}, "opts": ["-q"], "events": "emit,diag", "timeout": 120})
            metas.append((src, where, cwhere))
        results = _many(bld, jobs)
        for gi, (g, (src, where, cwhere), res) in enumerate(zip(groups, metas, results)):
            if res.timeout or res.sig is not None or res.trace is None:
                singles += g
                continue
            em, errs = isa.emitted_by_line(res.trace, cfg)
            bad = [c for i, c in enumerate(g)
                   if not (_fine(c, em.get(where[i], []), errs.get(where[i], []), res.rc)
                           and _ctx_fine(isa_hist.ctx_of(c), em.get(cwhere.get(i), []), errs.get(cwhere.get(i), [])))]
            singles += bad
            rep.traces(1)
            if gi < len(accgroups) and not bad:
                # the code file itself (the property's observation point): contiguous layout of the same units
                got = isa.code_units(res, cfg)
                want = isa_hist.layout(cfg, g)
                if got is None or got != want:
                    k = 0
                    if got is not None:
                        while k < min(len(got), len(want)) and got[k] == want[k]:
                            k += 1
                    rep.violation("%s %s: code file differs from the units reported per line at unit #%d "
                                  "(file %s, expected %s)" % (cfg.name, cpu, k, got[k:k + 3] if got else None,
                                                              want[k:k + 3]),
                                  files={"a.asm": src}, key={"isa": cfg.name, "cpu": cpu, "kind": "code-file"})
    else:
        singles = list(cases)
    # suspects, alone ---------------------------------------------------------------------------------------------
    jobs = []
    for c in singles:
        src, ln = isa.single_source(cfg, aslcpu, c)
        jobs.append(({"sources": {"a.asm": src}, "opts": ["-q"], "events": "emit,diag" if bld.hooks else None}, ln))
    results = _many(bld, [j for (j, ln) in jobs])
    incontext = []
    for c, (j, ln), res in zip(singles, jobs, results):
        e1, r1 = _observe(bld, cfg, res, ln)
        ok = judge(rep, cfg, cpu, c, j["sources"]["a.asm"], ln, res.rc, e1, r1, sig=res.sig, timeout=res.timeout,
                   out=res.out + res.err)
        if ok and isa_hist.ctx_of(c) is not None:
            incontext.append(c)
    # suspects that are fine alone, in their context -----------------------------------------------------------------
    jobs = []
    for c in incontext:
        src, ln, cln = isa_hist.context_source(cfg, aslcpu, c)
        jobs.append(({"sources": {"a.asm": src}, "opts": ["-q"], "events": "emit,diag" if bld.hooks else None}, ln, cln))
    results = _many(bld, [j for (j, ln, cln) in jobs])
    for c, (j, ln, cln), res in zip(incontext, jobs, results):
        x = isa_hist.ctx_of(c)
        src = j["sources"]["a.asm"]
        xcase = dict(x, id=x["id"] + " (as context statement)", exp="units", ops=[],
                     pc=c.get("org", -1) if c.get("org", -1) >= 0 else -1)
        if bld.hooks and res.trace is not None:
            xe, xr = _observe(bld, cfg, res, cln)
            e1, r1 = _observe(bld, cfg, res, ln)
        else:
            # without hooks only the code file is seen: the context's units come first
            allu, r1 = _observe(bld, cfg, res, ln)
            n = len(x["units"])
            xe, xr, e1 = allu[:n], [], allu[n:]
            if allu[:n] != x["units"]:
                xe, e1 = allu, []
        if not judge(rep, cfg, cpu, xcase, src, cln, res.rc, xe, xr, sig=res.sig, timeout=res.timeout, out=res.out + res.err):
            continue
        judge(rep, cfg, cpu, dict(c, ctxstmt=isa.stmt_text(x).strip().replace("\t", " "), ctxid=x["id"]), src, ln, res.rc,
              e1, r1, sig=res.sig, timeout=res.timeout, out=res.out + res.err)
    rep.traces(len(singles) + len(incontext))
    return len(acc), len(oth), len(singles), len(incontext)


PAIRS_PER_SOURCE = 400
# rough relative TLC cost per ISA (scheduling order only)
WEIGHT = {"PIC16C8x": 5, "MSP430": 4, "AVR": 3, "6502/65C02": 2, "Z80": 2}


def replay_seq(rep, bld, cfg, cpu, aslcpu, pairs):
    """Adjacency dimension: the two statements of every ordered mnemonic pair stand on consecutive lines (an `org`
    before the pair).  Judged in that context from the emit/diag events of the batch run; a deviating pair is re-run
    as a two-statement source and judged there (never statement by statement: the context is the point)."""
    if not bld.hooks:
        return 0
    groups = [pairs[i:i + PAIRS_PER_SOURCE] for i in range(0, len(pairs), PAIRS_PER_SOURCE)]
    jobs, metas = [], []
    for g in groups:
        flat = [c for p in g for c in (p["a"], p["b"])]
        src, where = isa.batch_source(cfg, aslcpu, flat)
        jobs.append({"sources": {"a.asm": src}, "opts": ["-q"], "events": "emit,diag", "timeout": 120})
        metas.append((g, flat, where))
    results = _many(bld, jobs)
    suspects = []
    for (g, flat, where), res in zip(metas, results):
        rep.traces(1)
        if res.timeout or res.sig is not None or res.trace is None:
            suspects += g
            continue
        em, errs = isa.emitted_by_line(res.trace, cfg)
        for k, p in enumerate(g):
            fine = all(_fine(flat[2 * k + i], em.get(where[2 * k + i], []), errs.get(where[2 * k + i], []), res.rc)
                       for i in (0, 1))
            if not fine:
                suspects.append(p)
    jobs = []
    for p in suspects:
        src, where = isa.batch_source(cfg, aslcpu, [p["a"], p["b"]])
        jobs.append(({"sources": {"a.asm": src}, "opts": ["-q"], "events": "emit,diag"}, where))
    results = _many(bld, [j for (j, w) in jobs])
    for p, (j, where), res in zip(suspects, jobs, results):
        for i, c in enumerate((p["a"], p["b"])):
            e1, r1 = _observe(bld, cfg, res, where[i])
            c = dict(c, id=c["id"] + (" after " + p["a"]["mn"] if i else " (first of pair)"), prev=p["a"]["mn"] if i else "")
            judge(rep, cfg, cpu, c, j["sources"]["a.asm"], where[i], res.rc, e1, r1, sig=res.sig, timeout=res.timeout,
                  out=res.out + res.err)
    for p in pairs:
        rep.evaluated(2)
        rep.distinct((cfg.name, cpu, "pair", p["a"]["mn"], p["b"]["mn"]), True)
    return len(suspects)


CPU2ISA = {"4004": ("4004", 1), "4040": ("4004", 1), "8080": ("8080", 1), "8085": ("8080", 1), "6502": ("6502", 1),
           "65SC02": ("6502", 1), "65C02": ("6502", 1), "W65C02S": ("6502", 1), "16C84": ("PIC16", 2),
           "AT90S8515": ("AVR", 2), "ATMEGA128": ("AVR", 2), "Z80": ("Z80", 1), "MSP430": ("MSP430", 2), "6800": ("6800", 1)}
TRACE_TESTS = ["t_4004", "t_85", "t_65", "t_w65c02s", "t_tmpsym", "t_16c84", "t_avr", "t_msp", "t_msp430x",
               "t_charset", "t_defined", "t_dup", "t_enum", "t_macovr", "t_shift"]


def corpus_events(bld):
    """(V) machine statements of golden programs under a covered CPU -> Isa_Trace events, one execution per test"""
    import re
    import shutil
    execs, names = [], []
    for t in aslrun.corpus():
        if t[0] not in TRACE_TESTS:
            continue
        res = aslrun.assemble_corpus(bld, t, events="stmt,emit")
        shutil.rmtree(res.dir, ignore_errors=True)
        if not res.trace:
            continue
        src = open(t[2], encoding="latin-1").read().splitlines()
        lp = isa.last_pass(res.trace)
        cur, pend, first = None, b"", None
        ev = []
        for e in res.trace:
            if e.get("pass") != lp:
                continue
            if e["e"] == "emit":
                if first is None:
                    first = e["addr"]
                pend += bytes.fromhex(e["bytes"])
            elif e["e"] == "stmt":
                op = e["op"].upper()
                if op == "CPU":
                    m = re.match(r"^\s*(?:\S+:?\s+)?cpu\s+([^\s;]+)", src[e["line"] - 1], re.I) if 0 < e["line"] <= len(src) else None
                    cur = m.group(1).upper() if m else None
                elif pend and cur in CPU2ISA and e["seg"] == 1 and not e["rec"]:
                    iname, ub = CPU2ISA[cur]
                    if len(pend) % ub == 0:
                        units = [int.from_bytes(pend[i:i + ub], "little") for i in range(0, len(pend), ub)]
                        ev.append({"a": "STMT", "isa": iname, "cpu": "MSP430:all" if cur == "MSP430" else cur, "op": op, "units": units, "pc": first,
                                   "line": e["line"]})
                pend, first = b"", None
        if ev:
            execs.append(ev)
            names.append(t[0])
    return execs, names


def main(tier):
    rep = Report(PID, tier)
    bld = build.get("hook")
    k = 3 if tier == "quick" else 8
    salts = [seed() % 1000] if tier == "quick" else [(seed() + 37 * i) % 1000 for i in range(4)]
    covered = []
    todo = [(cfg, cpu, aslcpu, si, salt) for cfg in ISAS for (cpu, aslcpu) in cfg.cpus_for(tier)
            for si, salt in enumerate(salts)]
    # adjacency dimension: every ordered pair of mnemonics on consecutive lines (one run per CPU variant)
    seqtodo = [(cfg, cpu, aslcpu) for cfg in ISAS for (cpu, aslcpu) in list(cfg.cpus_for(tier)) + list(cfg.seq_only)]
    # all TLC generator runs (single-worker JVMs) share one pool; longest first
    # register-symbol dimension: one run per CPU variant of the targets that have register symbols
    aliastodo = [(cfg, cpu, aslcpu, "all" if tier != "quick" or cpu in ALIAS_ALL_QUICK else "rotate")
                 for cfg in ISAS if cfg.name in ALIAS for (cpu, aslcpu) in cfg.cpus_for(tier)
                 if tier != "quick" or cpu not in ALIAS_SKIP_QUICK]
    tasks = [("gen", t) for t in todo] + [("seq", t) for t in seqtodo] + [("alias", t) for t in aliastodo]
    order = sorted(range(len(tasks)), key=lambda i: -WEIGHT.get(tasks[i][1][0].name, 1))

    def tlc_task(i):
        kind, t = tasks[i]
        if kind == "alias":
            return isa_alias.gen_alias(t[0], ALIAS[t[0].name], t[1], salts[0], t[3])
        return isa_hist.gen_cases(t[0], t[1], k, t[4]) if kind == "gen" else isa.gen_seq(t[0], t[1], salts[0])
    vfut = None
    if bld.hooks:
        import concurrent.futures
        from vlib import tracecheck

        def corpus_validate():
            execs, names = corpus_events(bld)
            return execs, names, tracecheck.validate("Isa_Trace", execs, cfg="Isa_Trace.cfg", timeout=900)
        vpool = concurrent.futures.ThreadPoolExecutor(max_workers=1)
        vfut = vpool.submit(corpus_validate)
    with Phase("TLC: %d case generator runs + %d adjacency generator runs + %d register-symbol generator runs"
               % (len(todo), len(seqtodo), len(aliastodo))):
        done = dict(zip(order, pmap(tlc_task, order, workers=min(6, NCPU))))
    gens = [done[i] for i in range(len(todo))]
    seqs = [done[len(todo) + i] for i in range(len(seqtodo))]
    aliases = [done[len(todo) + len(seqtodo) + i] for i in range(len(aliastodo))]
    for (cfg, cpu, aslcpu, si, salt), (r, cases) in zip(todo, gens):
        name = "%s(%s,K=%d,Salt=%d)" % (isa_hist.hist_module(cfg), cpu, k, salt)
        with Phase("replay " + name):
            rep.model(name, r)
            na, no, ns, nc = replay_hist(rep, bld, cfg, cpu, aslcpu, cases)
            forms = sorted({c["id"] for c in cases})
            ctxs = [isa_hist.ctx_of(c) for c in cases]
            rep.part(name, forms=len(forms), statements=len(cases), expected_units=na,
                     expected_reject_or_convention=no, assembled_alone=ns, assembled_in_context=nc,
                     statements_with_context=sum(1 for x in ctxs if x is not None),
                     rejected_or_convention_with_context=sum(1 for c, x in zip(cases, ctxs)
                                                             if x is not None and c["exp"] != "units"),
                     context_forms=len({x["id"] for x in ctxs if x is not None}),
                     context_shapes=len({x["shape"] for x in ctxs if x is not None}))
            if si == 0 and cpu == cfg.cpus[0][0]:
                for c in cases[:1] + [c for c in cases if c["exp"] == "reject"][:1]:
                    x = isa_hist.ctx_of(c)
                    rep.sample({"isa": cfg.name, "cpu": cpu, "statement": isa.stmt_text(c).strip(), "pc": c["pc"],
                                "context_statement_on_the_line_before": isa.stmt_text(x).strip() if x else None,
                                "expected": c["exp"], "units": c["units"]})
        if cfg.name not in covered:
            covered.append(cfg.name)
    # adjacency dimension ---------------------------------------------------------------------------------------
    for (cfg, cpu, aslcpu), (r, pairs) in zip(seqtodo, seqs):
        name = "%s(%s) adjacency" % (cfg.module, cpu)
        with Phase("replay " + name):
            rep.model(name, r)
            ns = replay_seq(rep, bld, cfg, cpu, aslcpu, pairs)
            rep.part(name, ordered_mnemonic_pairs=len(pairs), rerun_as_pair=ns)
    # register-symbol dimension -------------------------------------------------------------------------------
    for (cfg, cpu, aslcpu, mode), (r, cases) in zip(aliastodo, aliases):
        name = "%s(%s,scenarios=%s) register symbols" % (ALIAS[cfg.name], cpu, mode)
        with Phase("replay " + name):
            rep.model(name, r)
            na, no, ns = replay_cpu(rep, bld, cfg, cpu, aslcpu, cases, srcmod=isa_alias)
            rep.part(name, forms=len({c["id"].split(" <")[0] for c in cases}), statements=len(cases),
                     registers=sorted({c["reg"] for c in cases}), scenarios=sorted({c["scen"] for c in cases}),
                     expected_units=na, expected_reject=no, assembled_alone=ns)
            if cpu == cfg.cpus[0][0]:
                for c in cases[:1] + [c for c in cases if c["exp"] == "reject"][:1]:
                    rep.sample({"isa": cfg.name, "cpu": cpu, "definitions": [isa_alias.def_text(d) for d in c["pre"]],
                                "statement": isa.stmt_text(c).strip(), "expected": c["exp"], "units": c["units"]})
    # (V) golden corpus statements explained by the tables (started before the generator runs) ---------------------
    if vfut is not None:
        with Phase("corpus statements vs tables (waiting for the background run)"):
            execs, names, v = vfut.result()
            vpool.shutdown()
        rep.part("Isa_Trace(corpus)", tests=names, statements=sum(len(x) for x in execs), accepted=v.accepted,
                 distinct_states=v.states, wall_s=v.wall)
        rep.cov["states"] += v.states
        rep.cov["transitions"] += v.generated
        rep.traces(v.executions)
        if not v.accepted:
            # the table does not explain a statement of a golden program: table gap or encoding defect - the
            # property-level verdict stays with the generated cases, this is reported as drift
            rep.drift("golden test %s: %s" % (names[v.fail_exec], v.detail))
    for g in sorted(GROUPS):
        log("[C14] mismatch group isa=%s cpu=%s form=%s kind=%s pc=%s: %d statements" % (g + (GROUPS[g],)))
    rep.part("coverage", isas_covered=covered, isas_not_covered=NOT_COVERED)
    rep.assumptions += ["ISAs covered in this run: %s; NOT covered (no finished TLA+ table): %s"
                        % (", ".join(covered), ", ".join(NOT_COVERED)),
                        "operand spellings are decimal numbers and the register spellings listed in the tables",
                        "undocumented opcodes/aliases accepted by asl beyond the manufacturer's set are not judged",
                        "hooks: %s" % ("emit/diag events per line + code file" if bld.hooks else
                                       "unavailable: one statement per run, code file only")]
    __import__("checks.ext_isa8051", fromlist=["run"]).run(rep, bld, tier)      # phase "isa8051": Intel MCS-51 table (spec/Isa8051*.tla)
    __import__("checks.ext_isa6809", fromlist=["run"]).run(rep, bld, tier)      # phase "isa6809": Motorola MC6809 table (spec/Isa6809*.tla)
    __import__("checks.ext_isavar", fromlist=["run"]).run(rep, bld, tier)       # phase "isavar": device / page variants, src = dst emulated forms, BIT symbols (spec/IsaPic16P IsaMsp430E IsaAvrBit)
    return rep.finish(
        rule="cases = every leaf of the Isa*_Gen graph: every form of the table (8080/8085: in Intel syntax, in Z80 "
             "syntax mixed with it (Z80SYNTAX ON) and in Z80 syntax alone (EXCLUSIVE)) x operand classes {0, 1, limits, "
             "limits+-1, convention-zone limits +-1, midpoint, bit patterns, mask probes, 2 seed-chosen interior values} x "
             "(for PC-relative/page operands) each listed statement address x every distance within K of both "
             "displacement limits, each leaf on the line directly after one context statement (a legal statement of "
             "the table; operand shape rotating with the ranks of the leaf's operand values, 0 = no context); "
             "+ every ordered pair of mnemonics on consecutive lines; + (4004/4040, AVR, MSP430) "
             "every leaf of the Isa*_Alias graph: every form with a register field x field position x every register "
             "literal of the table (where the table is complete: also the registers the form does not take) x "
             "definition scenario of the register symbol the operand is written with; "
             "+ (phase isavar) PIC16C8x devices with 2 / 4 program pages: CALL / GOTO x statement address in every page x target "
             "in every page and beyond the device; MSP430 RLA / RLC (source = destination) x destination mode x register x operand "
             "classes; AVR SBI / CBI / SBIC / SBIS with BIT symbols x address x bit x address spelling x definition spelling; "
             "distinct = distinct (ISA, CPU, statement text, address)",
        exhaustive=True)


def replay(path):
    import json
    v = json.load(open(os.path.join(path, "violation.json")))
    bld = build.get("hook")
    src = open(os.path.join(path, "a.asm")).read()
    res = aslrun.assemble(bld, {"a.asm": src}, opts=["-q"], events="emit,diag")
    log("replay rc=%s sig=%s\n%s%s" % (res.rc, res.sig, res.out, res.err))
    for e in res.trace or []:
        if e["e"] in ("emit", "diag"):
            log("  %s" % e)
    log("recorded: %s" % v["what"])
    return 0
