"""C08, literal half: integer notations x RADIX x enabled-notation sets (spec/IntLit.tla, IntLit_MC.tla).

TLC prints, for every literal (notation of the manual's table applied to a digit list) under every RADIX and every
notation set, the value the manual's reading gives (8 bytes), "error" (not a number in this mode), or "unspec"
(ambiguous spelling / the `08` case where manual and code disagree by design).  Each (radix, set) becomes three files on
z80 (and on 68000 for the sets that are natural there); the set is switched on with RELAXED ON or with INTSYNTAX
+/-ident relative to the target's default, RADIX is set around every statement (its own argument is always decimal).
"""
from checks import c08 as base
from vlib import exprrender as er
from vlib import tlc
from vlib.common import CheckError, Phase, pmap, rng

NATIVE = {"z80": {"hexh", "binb", "octo", "octq", "dec"}, "68000": {"$hex", "%bin", "@oct", "dec"}}
ON_68K = {"moto", "relaxed", "intel", "all4"}


def generate(rep, tier):
    cfg = "IntLit_MC.cfg" if tier == "quick" else "IntLit_MC_full.cfg"
    r = tlc.must(tlc.run("IntLit_MC", cfg, workers=3, timeout=1700, mem="6g"), "IntLit_MC")
    if r.violation:
        raise CheckError("IntLit_MC(%s): the specification violates its own invariants: %s" % (cfg, r.violation[:600]))
    rep.model("IntLit_MC(%s)" % cfg, r)
    return [o for (tag, o) in r.printed if tag == "OUT"]


class LitDialect:
    """target + the directives that switch the notation set on"""

    def __init__(self, dia, how, on):
        self.dia = dia
        self.name = dia.name
        self.big = dia.big
        self.how = how
        self.on = set(on)

    def header(self):
        lines = ["\tcpu %s" % self.dia.cpu] + ["\t" + p for p in self.dia.pre]
        native = NATIVE[self.dia.name]
        if self.how == "relaxed":
            lines.append("\trelaxed\ton")
        elif self.on != native:
            args = ["-" + i for i in sorted(native - self.on)] + ["+" + i for i in sorted(self.on - native)]
            lines.append("\tintsyntax\t" + ",".join(args))
        return lines


def replay_cases(rep, bld, cases, tier):
    groups = {}
    for c in cases:
        groups.setdefault((c["radix"], c["set"]), []).append(c)
    work = []
    n = 0
    for (radix, setname), cs in sorted(groups.items()):
        for dname in ("z80", "68000"):
            if dname == "68000" and setname not in ON_68K:
                continue
            how = cs[0]["how"]
            on = set(cs[0]["on"])
            if how == "native" and on != NATIVE[dname]:
                how = "intsyntax"
            if how == "intsyntax" and on == NATIVE[dname]:
                how = "native"
            ld = LitDialect(er.DIALECTS[dname], how, on)
            r = rng("c08lit/%s/%d/%s" % (dname, radix, setname))
            by = {"value": [], "error": [], "unspec": []}
            for c in cs:
                it = base.Item()
                n += 1
                it.idx = n
                it.case = dict(c)
                it.case["depth"] = 1
                it.case["op"] = "literal"
                it.case["src"] = "lit radix=%d set=%s" % (radix, setname)
                txt = "".join(c["cs"])
                it.expr = txt.lower() if r.random() < 0.4 else txt
                it.stmt = ld.dia.stmt_flt if c["o"]["k"] == "float" else ld.dia.stmt_int
                it.before = ["\tradix\t%d" % radix]
                it.after = ["\tradix\t10"]
                k = c["o"]["k"]
                by["value" if k in ("int", "float") else k].append(it)
            for kind, items in by.items():
                for ch in base.chunks(items, 150):
                    work.append((kind, ld, ch))

    def do(w):
        kind, ld, ch = w
        if kind == "value":
            base.judge_value_batch(rep, bld, ld, ch)
        elif kind == "error":
            base.judge_error_batch(rep, bld, ld, ch)
        else:
            base.judge_survival(rep, bld, ld, ch, "ambiguous literal")
        return len(ch)
    with Phase("replay %d literals (%d files)" % (n, len(work))):
        total = sum(pmap(do, work))
    rep.evaluated(total)
    rep.traces(total)
    for kind, ld, ch in work:
        for it in ch:
            rep.distinct(("lit", ld.name, it.case["radix"], it.case["set"], it.expr), True)
    rep.part("replay_literals", cases=n, files=len(work), groups=len(groups))
    k0, ld0, ch0 = work[0]
    rep.sample({"literal": ch0[0].expr, "radix": ch0[0].case["radix"], "set": ch0[0].case["set"],
                "directives": ld0.header(), "expected": ch0[0].case["o"]})
