"""C17 extension: the working directory AND WHAT LIES IN IT as a configuration variable of the file search of
INCLUDE / BINCLUDE / IFEXIST / IFNEXIST (bpemu.c FSearch, asmallg.c INCLUDE_SearchCore, asmif.c CodeIFEXIST).

Why: the clause "the working directory ... never alters the code file" was only exercised with working directories
that held nothing of interest: a change that let FSearch probe the name as given (i.e. the working directory) before
the -i include path passed the check, because no run had a same-named DECOY file lying in the working directory.

Specification: spec/IncSearch.tla (FSearch / AssembleAndCheck / FExpand transcribed over path STRINGS resolved against
the working directory; the manual's search rule DocOutcome, which never mentions the working directory), spec/
IncSearch_MC.tla (groups, invariants, case export).  This file renders the cases TLC prints into file trees and asl
invocations, tokenises exit status + code file and compares with what TLC printed.

Dimension (all of it, bounded): a file of the looked-up name lies in any subset (quick: <= 2, thorough: all 64) of six
directories: the directory of the main source, its parent, a directory below it, two -i directories, an unrelated
one; the assembler is started in the source directory, its parent, the directory below, the unrelated directory;
source and include path spelled relative to the working directory or absolute (thorough: also mixed); the name written
plain, without suffix, with a sub-directory, with `..`, absolute; the statement in the main source or in an include
file found through -i (directory of the including file = an include directory); include path empty, one directory,
two in either order; programs IFEXIST+IFNEXIST and BINCLUDE+INCLUDE as two sources of one invocation (a failed INCLUDE is
fatal and would hide the IFEXIST answers; thorough: also a mixed program and the sources swapped).  Every file holds
its own content (a tag naming its directory), so the code file tells which file was read.
(M) TLC, every group: RepairedIsManual, CwdNeverMatters, DeviationsAreNamed, DecoyOnlyByDevs (see IncSearch_MC.tla).
(G) every group is run once per variant (quick 770 groups x 8, thorough 6 720 x 16), the two / three sources of a group in
    ONE invocation (`asl -i .. -o .. -o .. main1.asm main2.asm`), all variants of a group in the same tree.  Verdict-bearing: the C17
    clause itself - all variants of a group (same sources, same include path, another working directory / spelling)
    leave byte-identical code files or none (rep.violation kind=incsearch-cwd); no abnormal end.  Where TLC predicted
    exactly the observed dependence from a named deviation of the pinned code, the key carries the deviation, so that a
    known_findings entry can match it; every other dependence is `explained: false` and never matches.  Which file was
    found vs. the model (search order, the manual's rule for names with a path) is compared too: SPEC-DRIFT.
Named deviations (IncSearch.tla AllDevs; Fixed = those recorded as "status": "fixed" with a "dev" field in
known_findings/*.json, or VERIF_INCSEARCH_FIXED=<dev,...> for trying a proposed fix on a scratch copy):
  IfExistDot        IFEXIST / IFNEXIST search "." (the working directory) in front of the include path: the answer and
                    so the code depend on where asl is started, and IFEXIST says yes where INCLUDE then fails
                    (proposed_fixes/C17-ifexist-working-directory)
  EmptyPathCwd      without any -i, FSearch walks the empty list as one empty component = the name as given: INCLUDE /
                    BINCLUDE / IFEXIST find files of the working directory (proposed_fixes/C17-empty-include-path)
  PathNameSearched  names with a path specification are still looked up along -i (manual: "the search list is
                    ignored"); independent of the working directory, not C17's business: recorded, no verdict
Not covered: symbolic links, unreadable files / directories, names longer than STRINGSIZE, Windows drive letters and
back slashes (DRSEP / DeCygwinPath are compiled out on Unix), the message-file search of nlmessages.c (it uses FSearch
with the documented "current directory first" rule).
Mutations of the real code tried (scratch copies; `./check C17 --tier quick` resp. this extension alone reports
VIOLATION for each): FSearch probing the name as given before the include path (the seeded change, passes the 201 golden
tests: 69 more groups depend on the working directory, 270 violations here); FSearch falling back to the name as given
after the include path (201); FSearch ignoring the directory of the including file (447); BINCLUDE preferring a file of
the working directory (157).  Both proposed repairs, alone and together, were run against the model with the
corresponding deviation in Fixed: 0 differences; 201/201 golden tests with both applied.
"""
import glob
import json
import os
import threading

from vlib import codefile, incrun, tlc
from vlib.common import CheckError, Phase, VERIF, log, subdir

ALLDEVS = ["IfExistDot", "EmptyPathCwd", "PathNameSearched"]
INVS = "RepairedIsManual CwdNeverMatters DeviationsAreNamed DecoyOnlyByDevs Emit"
TIERS = {
    "quick": dict(maxhas=2, sess=["two"], forms=["plain", "noext", "sub", "up", "abs"], spell=["rr", "aa"]),
    "thorough": dict(maxhas=6, sess=["two", "three", "swapped"], forms=["plain", "noext", "sub", "up", "abs"],
                     spell=["rr", "aa", "ra", "ar"]),
}


def repaired():
    out = {d for d in os.environ.get("VERIF_INCSEARCH_FIXED", "").split(",") if d in ALLDEVS}
    for path in glob.glob(os.path.join(VERIF, "known_findings", "*.json")):
        try:
            for f in json.load(open(path)).get("findings", []):
                if f.get("status") == "fixed" and f.get("dev") in ALLDEVS:
                    out.add(f["dev"])
        except (OSError, ValueError):
            pass
    return sorted(out)


def _set(names):
    return "{%s}" % ", ".join('"%s"' % n for n in names)


def _cfg(tier, fixed):
    t = TIERS[tier]
    text = ("CONSTANTS Fixed = %s MaxHas = %d SessNames = %s FormNames = %s Spellings = %s\nSPECIFICATION Spec\n"
            "INVARIANTS %s\nCHECK_DEADLOCK FALSE\n" % (_set(fixed), t["maxhas"], _set(t["sess"]), _set(t["forms"]),
                                                      _set(t["spell"]), INVS))
    path = os.path.join(subdir("incsearchcfg"), "IncSearch_MC_%s.cfg" % tier)
    with open(path, "w") as f:
        f.write(text)
    return path


def start(bld, tier):
    """TLC and the runs of the real asl work beside the other phases of the check (a thread; the runs use worker
    processes); finish() waits for them and judges"""
    fixed = repaired()
    box = {"fixed": fixed, "tier": tier}
    cfg = _cfg(tier, fixed)

    def work():
        try:
            with Phase("(beside) TLC IncSearch_MC"):
                r = box["r"] = tlc.run("IncSearch_MC", cfg, workers=2 if tier == "quick" else 4, timeout=3000, mem="4g", tags=("TR",))
            if r.error or r.violation:
                return
            box["cases"] = [c for (tag, c) in r.printed if tag == "TR"]
            box["groups"] = [make_group(case) for case in box["cases"]]
            n = sum(len(g["runs"]) for g in box["groups"])
            with Phase("(beside) include search: %d groups, %d runs" % (len(box["cases"]), n)):
                box["results"] = incrun.run_groups(bld, box["groups"])
        except BaseException as ex:                      # reported by finish()
            box["ex"] = ex
    th = threading.Thread(target=work, daemon=True)
    th.start()
    box["thread"] = th
    return box


# ---- rendering -----------------------------------------------------------------------------------------------------
def _text(p):
    """a path string of the model as text"""
    return ("{ROOT}/" if p["abs"] else "") + "/".join(p["c"])


def _source(case, src):
    name = _text(case["name"])
    lines = []
    for st in src["stmts"]:
        op = st["op"].lower()
        if st["branch"]:
            lines += ['\t%s\t"%s"' % (op, name), "\tdb\t%d" % st["branch"][0], "\telse", "\tdb\t%d" % st["branch"][1], "\tendif"]
        else:
            lines.append('\t%s\t"%s"' % (op, name))
    return "\n".join(lines) + "\n"


def make_group(case):
    files = {"/".join(d + [".keep"]): "" for d in case["dirs"]}
    for f in case["files"]:
        files["/".join(f["path"])] = bytes(f["bytes"])
    outs = []
    for k, src in enumerate(case["sources"]):
        body = _source(case, src)
        if src["outer"]:
            files["/".join(src["outer"])] = body
            files["/".join(src["main"])] = '\tcpu\tz80\n\tinclude\t"%s"\n' % src["outername"]
        else:
            files["/".join(src["main"])] = "\tcpu\tz80\n" + body
        outs.append("out%d.p" % (k + 1))     # -o: one name per source (without -o, `asl ../x/y.asm` writes a file called `.p`)
    runs = []
    for v in sorted(case["variants"], key=lambda v: (v["cwd"], v["sform"], v["iform"])):
        argv = ["-q"]
        if v["inc"]:
            argv += ["-i", ":".join(_text(p) for p in v["inc"])]
        for o in outs:
            argv += ["-o", "{ROOT}/" + o]
        argv += [_text(p) for p in v["src"]]
        runs.append({"cwd": "/".join(v["cwd"]), "argv": argv, "outs": outs, "v": v})
    return {"files": files, "runs": runs}


def observe(res, n):
    """(per source: [status, data bytes], raw code files) - tokenising only"""
    ps = res["p"]
    if res["timeout"] or res["sig"] is not None:
        return ("abnormal", [], ps)
    if res["rc"] not in (0, 3):
        return ("rc%s" % res["rc"], [], ps)
    per = []
    for k, p in enumerate(ps):
        if p is None:
            # exit status 3: the source that met the fatal error leaves no code file, the ones behind it were not assembled
            per.append(["fatal" if (res["rc"] == 3 and (k == 0 or per[k - 1][0] == "ok")) else "notrun" if res["rc"] == 3 else "nofile", []])
            continue
        pr = codefile.parse(p)
        if pr.problems:
            return ("badfile", [], ps)
        data = []
        for r in sorted(pr.data_records(), key=lambda r: r.start):
            data += list(r.data)
        per.append(["ok", data])
    if res["rc"] == 0 and any(x[0] != "ok" for x in per) or res["rc"] == 3 and all(x[0] == "ok" for x in per):
        return ("rc%s-files%s" % (res["rc"], [x[0] for x in per]), [], ps)
    return ("done", per, ps)


def _brief(case):
    return "%s of %s (%s) in %s, files in %s, include path %s" % (
        " | ".join("+".join(st["op"] for st in src["stmts"]) for src in case["sources"]), _text(case["name"]), case["form"],
        "the main sources" if case["nest"] == "main" else "include files in " + "/".join(case["sources"][0]["outer"][:-1]),
        sorted("/".join(h) for h in case["has"]) or "no directory", ":".join("/".join(d) for d in case["ipath"]) or "empty")


def finish(rep, box):
    tier = box["tier"]
    with Phase("waiting for the include search"):
        box["thread"].join()
    if "ex" in box:
        raise CheckError("IncSearch_MC: %r" % (box["ex"],))
    r = tlc.must(box["r"], "IncSearch_MC(%s)" % tier)
    if r.violation:
        raise CheckError("IncSearch_MC: model and manual disagree: %s" % r.violation[:1200])
    rep.model("IncSearch_MC(%s)" % tier, r)
    cases = box.get("cases")
    if not cases:
        raise CheckError("IncSearch_MC printed no case")
    fixed, groups, results = box["fixed"], box["groups"], box["results"]
    nruns = sum(len(g["runs"]) for g in groups)
    by = {}
    for ci, (grp, ress) in enumerate(zip(groups, results)):
        by[ci] = [(run["v"], run, res, observe(res, len(cases[ci]["sources"]))) for run, res in zip(grp["runs"], ress)]
    st = {"depends_pred": 0, "depends_obs": 0, "drift": 0, "pathdev": 0}
    for ci, runs in by.items():
        case = cases[ci]
        say = _brief(case)
        for (v, job, res, obs) in runs:
            rep.evaluated()
            rep.distinct(json.dumps([ci, job["argv"], job["cwd"]]), True)
            if obs[0] != "done":
                rep.violation("asl ended abnormally / left a malformed code file (rc=%s sig=%s timeout=%s) in %s: %s; %s"
                              % (res["rc"], res["sig"], res["timeout"], job["cwd"], " ".join(job["argv"]), say), case=case,
                              files={"argv": " ".join(job["argv"]), "cwd": job["cwd"], "stderr.txt": res["err"][-3000:]},
                              key={"kind": "incsearch-abnormal"})
        if case["depends"]:
            st["depends_pred"] += 1
        if case["pathdev"]:
            st["pathdev"] += 1
        expd = lambda e: [[x["status"], x["bytes"]] for x in e]
        asexp = all(obs[0] == "done" and obs[1] == expd(v["exp"]) for (v, job, res, obs) in runs)
        kinds = {}
        for (v, job, res, obs) in runs:
            kinds.setdefault((obs[0], tuple(obs[2])), []).append((v, job, res, obs))
        if len(kinds) > 1:
            # the clause itself: same sources, same include path, another working directory -> another code file
            st["depends_obs"] += 1
            parts = sorted(kinds.values(), key=lambda g: -len(g))
            a, b = parts[0][0], parts[-1][0]
            blame = sorted(set(case["blame"]) & {"IfExistDot", "EmptyPathCwd"}) if asexp else []
            for dev in blame or ["none"]:
                rep.violation("the working directory alters the code file: %s; `cd %s; asl %s` -> %s %s, `cd %s; asl %s` -> %s %s"
                              "  (deviation TLC blames: %s)"
                              % (say, a[1]["cwd"], " ".join(a[1]["argv"]), a[3][0], a[3][1], b[1]["cwd"], " ".join(b[1]["argv"]),
                                 b[3][0], b[3][1], dev if blame else "none: not what the model of the code as it is expects"),
                              case=case,
                              files={"first.argv": " ".join(a[1]["argv"]), "first.cwd": a[1]["cwd"], "second.argv": " ".join(b[1]["argv"]),
                                     "second.cwd": b[1]["cwd"], "first.stderr.txt": a[2]["err"][-2000:], "second.stderr.txt": b[2]["err"][-2000:],
                                     "tree.json": json.dumps({k: (x.decode("latin-1") if isinstance(x, bytes) else x)
                                                              for k, x in groups[ci]["files"].items()}, indent=1)},
                              key={"kind": "incsearch-cwd", "explained": bool(blame), "dev": dev})
        elif not asexp:
            st["drift"] += 1
            if st["drift"] <= 6:
                v, job, res, obs = runs[0]
                rep.drift("include search: %s -> %s %s in every working directory, the %s of the code as it is expects %s "
                          "(manual: %s)" % (say, obs[0], obs[1], "model", expd(v["exp"]), expd(case["doc"])))
    if st["drift"] > 6:
        rep.drift("include search: %d more groups differ from the model without depending on the working directory" % (st["drift"] - 6))
    rep.traces(nruns)
    rep.part("ext_incsearch", groups=len(cases), runs=nruns, repaired=fixed, predicted_cwd_dependent=st["depends_pred"],
             observed_cwd_dependent=st["depends_obs"], groups_with_PathNameSearched=st["pathdev"], drift=st["drift"])
    rep.sample({"include_search": _brief(cases[len(cases) // 2]), "argv": groups[len(groups) // 2]["runs"][0]["argv"], "cwd": groups[len(groups) // 2]["runs"][0]["cwd"]})
    log("[C17/incsearch] %d groups, %d runs; cwd-dependent: predicted %d, observed %d; deviations repaired: %s"
        % (len(cases), nruns, st["depends_pred"], st["depends_obs"], fixed))
