"""C15 - Disassembling and re-assembling reproduces the original bytes.

Specification:
  spec/Dasm.tla      the tracer of /repo/das.c main as a worklist machine over an ISA table: entry-address queue with
                     the "preferred next address" rule of entryaddress.c, code chunks, data chunks; operators PopEntry,
                     DecodeAt (length + successor set from the table: fall-through, branch target, call target +
                     return, none after return / jump / indirect jump), MarkCode, EnqueueSuccessors, Step, Run; next to
                     it the declarative reachability closure ReachStarts / ReachBytes.  Deviations of the code are named,
                     not idealised: SkipTargetInsideCode, ZeroLengthOutside, VectorNotChecked.
  spec/Isa4004.tla, spec/Isa6800.tla   the ISA tables (shared with C14)
  spec/Dasm_MC.tla   (M) exhaustive over all small images;  spec/Dasm_Gen.tla, spec/Dasm_Cover.tla  (G) image generators
  spec/Dasm87_Gen.tla  87C800 displacement / distance fields and their limit classes (no instruction table)
  spec/DasmSole_Gen.tla  (G) SOLE-EDGE images for all three targets: a routine reachable ONLY through the target operand of
                     one control-transfer instruction; spec/Isa87FlowX.tla = the 87C00 control-flow table of C03
                     (spec/Isa87Flow.tla: NOP, RET, RETI, JRS T/F, JR cc, JR, JP, CALL) + RETN + CALLP (CallpInPageFF)

(M) TLC, all images of 3 (thorough: 4) cells with representative bytes, 1..2 entry addresses incl. the address behind
    the image, 6800 with an optional vector: termination (liveness `<>Done` and a step bound), InsideImage, marked code
    is a subset of Reach, = Reach for non-overlapping code (without that premise TLC finds the counterexample
    `14 41 00 00`, entry 257: a successor inside an already marked instruction is never queued), code/data disjoint
    when data is unreachable, recursive Run = machine, and Encode(Decode(bytes)) = bytes; Dasm_RT_*.cfg put EVERY byte
    value 0..255 into the opcode cell with operand bytes {00,12,7F,80,FF}.  The 6800 table itself is validated against
    asl with the C14 machinery (Isa6800_Gen: every form x operand classes).
(G) Dasm_Gen (TLC -simulate): valid instruction streams (forms of the table drawn by category, operand pools, branches
    and calls to instruction items, embedded data only behind non-falling-through instructions, 6800: 2-byte vectors
    as indirect entries, 1..4 entries); Dasm_Cover: one image per opcode high nibble with EVERY falling-through
    instruction variant (form x register/condition value) + one image per jump/return variant, so that every opcode
    of both tables is round-tripped in every run.  TLC prints the image (Encode), the entries and the areas the
    worklist model marks.  The harness writes the image as a binary and as an Intel-hex file, runs the real dasl on
    both (and on every 10th image additionally with `-entryaddress <addr>,<name>`), feeds stdout - prefixed only by
    `cpu <name>` - to the real asl -> p2bin and compares bytes over the areas dasl lists as disassembled.
    Dasm_Cover EInit (Dasm_Edge_*.cfg): page-edge images - every instruction whose target depends on its own address
    (4004 JCN / ISZ in-page rule, FIN / JIN; 6800 all relative branches and BSR) with its first byte at page offsets
    FC, FD, FE, FF, 00 of two page boundaries, once per legal target item before and behind it (328 images).
    Verdict-bearing: dasl ends normally; -binfile and -hexfile give the same text; the label printed for every
    branch / call operand is the target the table decodes (TLC prints <<address, target>>); asl accepts the text; bytes
    identical over the listed areas; listed code and data areas disjoint and inside the image.  When asl rejects the
    text, the cause is classified from the failing line and (diagnosis only) repaired so that the remaining checks
    still run; every cause is a separate finding key.
    SPEC-DRIFT only: listed areas = areas marked by the Dasm model (deco68 stops behind clv/sev/txs/lds/sts ext).
(G2) SOLE-EDGE images (round 6; DasmSole_Gen): which EDGE of the control-flow graph is the only way to a routine.  In the
    streams of Dasm_Gen / Dasm_Cover / the golden slices nearly every branch target is also reached by fall-through, so a
    successor that a Disassemble() callback prints as a label but does not report to the tracer was invisible.  Image =
    `E: <pre NOPs> X [closer]` + `T: NOP term`, T behind or in front of E, only entry E.  X = EVERY form with a target
    operand of the three tables x every register / condition / 4-bit operand value (87C00: JRS T, JRS F, JR cc x 8, JR,
    JP, CALL, CALLP (page FF); 6800: BRA, 14 Bcc, BSR, JMP ext, JSR ext; 4004: JUN, JMS, ISZ x 16, JCN x 16 masks); closer
    (X conditional / call) = every non-falling-through form: jump back to E, jump to itself, every return, indirect jumps;
    term = every return form or a jump back to E.  "Reachable only through X" is decided by the MODEL, not by the
    layout: T is in Dasm's reachability closure and not in the closure of the image whose decode at X has lost its target
    successor (Sole); e.g. 87C00 images closed by RET/RETI/RETN are sole only with T in front (RetFallsThrough).  TLC checks
    on every image: the worklist ends, marks exactly ReachBytes, the whole target routine is code, control flow stays on
    instruction starts, and without the edge no byte of the target routine is code; the harness checks that every variant
    x {behind, before} occurs (else CHECK-ERROR).  The images go through the same judge_image as the others (-binfile and
    -hexfile, label = target of the table, asl accepts, bytes equal, areas disjoint/inside).  An unreported successor
    leaves the label undefined -> "asl rejects the disassembly" (VIOLATION); "the target routine is not listed as code" by
    itself is SPEC-DRIFT like every area comparison.  quick: 87C00 272 + 6800 456 + 4004 140 images (one NOP in front; term
    = first return / jump back; inner values of 4-bit operands in one context; lowest legal load address of {200h|100h,
    FF00h|F00h}); thorough: pre 0..1, all terms, all values in all contexts, both load addresses.
    NOT in this dimension: 87C00 CALLV (target read from the vector cells FFC0+2n: a function of the image, not of the
    instruction), indirect JP/CALL (no target), two sole edges in one image, sole targets inside another instruction.
87C800: no TLA+ instruction table of the whole set.  (a) Images are assembled from the golden tests/t_87c800 source (whole program and
    12-instruction slices, entry = first address); round trip + disjoint/inside checks, NO reachability oracle; an
    image whose branches leave the image is outside the property's domain and not judged.
    (b) FIELD-LIMIT images (operand field limits on the disassembler side; the golden source has no -128): spec/
    Dasm87_Gen.tla describes the three operand fields with a signed displacement / PC-relative distance that the
    golden source exercises - "(HL+d)" behind the memory prefix E4/F4 (signed 8 bit), "JR [cc,]a" (signed 8 bit from
    the address behind the instruction), "JRS T/F,a" (signed 5 bit in the opcode) - with the IsaCommon field
    machinery; TLC checks that every class is encodable and that the declarative decoder (SignExt) inverts the
    field bits, and prints the classes {min, min+1, -1, 0, 1, max-1, max} (+ -2, -3 for the branches; JR -1 = target
    inside the instruction itself is excluded as not a valid stream), the spelling offset of a PC-relative operand
    and the field bits.  The harness takes EVERY statement template with such a field from the golden source (28
    (hl+d) statements incl. jp/call (hl+d) and the bit forms, 12 jr cc + jr, jrs t/f; the 87C800 has no (IX+d) /
    (SP+d) forms), substitutes the displacement, places branches between enough `nop`s that the target lies in the
    image, assembles with the real asl (origin 200h, `ret` behind) and checks that the image carries TLC's field bits
    at the field position (else SPEC-DRIFT: the image would not exercise the limit).  These 318 images are round-
    tripped via -binfile and -hexfile exactly as the slices; as all their branches stay inside the image by
    construction, an undefined label is a rejected disassembly (never "out of domain"), and the label printed for
    jr / jrs must be the target TLC's offset defines.  (HL+0) is assembled as (HL) (no field; round trip only).

quick: 2 x 2 x 150 simulated traces + 44 coverage images + 328 page-edge images + 868 sole-edge images + 31 golden 87C800
images (20 of them slices relocated to origins F0..100h and 7FF7h) + 318 87C800 field-limit images; thorough: 2 x 4 x 5000
traces, 4-cell exhaustive models, full sole-edge product.  Measured (VERIF_JOBS=6, machine shared): quick 63 s before the
sole-edge images (TLC pool 43 s, 567 + 31 + 318 images 16 s); the sole-edge images add 3 single-worker TLC runs of 12-25 s
inside the pool (pool widened 5 -> 6) and ~12 s of round trips (868 images).

NOT covered: CPU name 6802 (dasl knows it, asl does not); -symbol; LSB vectors; images with several chunks; forced
extended addressing of page-0 operands on the 6800; vectors on the 4004 (dasl prints `dw`, unknown to that target);
robustness on invalid input (a vector that leaves the image makes dasl print forever: dasl always runs under a
timeout and an output limit here).

Findings on the pinned tree (known_findings/C15.json; the diffs proposed_fixes/C15-*.diff except the optional
flow-flags one are applied to /repo by now, so the entries are "fixed" and suppress nothing): `org $hex` headers rejected for
4004/87C800; vector message printed to stdout; named direct entry refused; 87C800 label `h` suffix and
register-prefixed ALU immediate without `h`; 6800 `dess`; 4004 JIN falls through into data; 4004 ISZ page rule.
Still open ("known", proposed_fixes/C15-4004-jcn-forward-label-page.diff): asl rejects a JCN at xFE/xFF whose next-page
target is a label defined further down (found by the page-edge images).

Mutations tried on a scratch copy containing the proposed fixes (`VERIF_REPO=... ./check C15`), all reported:
  deco68.c mnemonic of 4C inca->deca (bytes differ); deco68.c branch target pc+2 -> pc+1 (undefined label);
  deco4004.c FIM pair number (bytes differ); das.c hex loader start +1 (hex/bin differ); das.c code chunk length +1
  (rejected); deco4004.c ROM page of the ISZ target from Address+1 instead of Address+2 (only wrong at offset xFE: 10
  page-edge images rejected, quick tier) and the same for JCN; code68.c TAB opcode 16 -> 17 (assembler side: bytes differ; fails 1 ctest); deco68.c extended operand
  byte order (undefined label).
  deco87c800.c (HL+d) prefix E4/F4: sign extension `Dist & 0x80` -> `Dist > 0x80` (only d = -128 printed as (hl+128); MISSED
  by the golden slices, which contain no -128) -> 28 field-limit images rejected ("range overflow"), quick tier, 66 s;
  deco87c800.c jr cc: `Dist & 0x80` -> `Dist > 0x80` (12 images: wrong target label + undefined symbol) and jrs t:
  `Dist & 0x10` -> `Dist > 0x10` (1 image, d = -16), quick tier.
  Successor not reported (round 6, sole-edge images, quick tier; all MISSED before): deco87c800.c JRS F target stored with
  `NextAddresses[1] =` without counting it (22 images rejected, "symbol undefined"); the same for CALLP (22 images);
  deco68.c table entry of bne: successor flags 3 -> 1 (28 images); deco4004.c table entry of opcode 14 (jcn 4): 3 -> 1
  (2 images: the inner mask values have one context per position in the quick tier).
"""
import os
import re

from vlib import aslrun, build, dasm, isa, tlc
from vlib.common import NCPU, CheckError, Phase, log, pmap, rng, seed
from vlib.report import Report

PID = "C15"
GROUPS = {}


def note(key):
    g = tuple(sorted(key.items()))
    GROUPS[g] = GROUPS.get(g, 0) + 1
    return key


def failing_line(msgs, text, aslcpu):
    """source line (of the text fed to asl, prelude = 1 line) named by the first error message"""
    m = re.search(r"r\.asm\((\d+)\)", msgs)
    if not m:
        return None, ""
    n = int(m.group(1)) - 2
    lines = text.splitlines()
    if 0 <= n < len(lines):
        return n, lines[n]
    return None, ""


def cause_of(line):
    s = line.split(";")[0]
    if dasm.NOISE.match(s):
        return "stdout-message"
    toks = s.replace(":", ": ").split()
    toks = [t for t in toks if not t.endswith(":")]
    if not toks:
        return "empty"
    op = toks[0].lower()
    rest = " ".join(toks[1:])
    if op == "org" and rest.startswith("$"):
        return "org-dollar-hex"
    if op in ("jcn", "jcm") and rest.startswith(","):
        return "jcn-empty-condition"
    if re.search(r"\b(lab|sub)_[0-9A-Fa-f]{4}h\b", rest):
        return "label-with-h-suffix"
    return op


class Collector:
    """violations found by one judge_image call (reported later from the main thread)"""

    def __init__(self):
        self.items = []

    def violation(self, what, case=None, files=None, key=None):
        self.items.append((what, case, files, key))

    def flush(self, rep):
        for (what, case, files, key) in self.items:
            note(key)
            rep.violation(what, case=case, files=files, key=key)


def judge_image(rep, bld, im, dcpu, aslcpu, oracle=True):
    """im: dict printed by Dasm_Gen (or built from a golden image with oracle=False).
    rep: anything with .violation(what, case=, files=, key=).  Returns the drift text or None.
    im["closed"]: every branch of the image is known to stay inside it (generated field-limit images): a label
    outside the image is then a wrong disassembly, not a reason to leave the image unjudged."""
    org, data = im["org"], bytes(im["bytes"])
    ents = sorted(im["entries"])
    vecs = [(v[0], "vec%d" % i) for i, v in enumerate(sorted(im.get("vecs", [])), 1)]
    base = {"isa": im["isa"]}
    files = {"image.bin": data, "image.txt": "org=%d entries=%s vecs=%s ids=%s\n" % (org, ents, vecs, im.get("ids"))}
    rb = dasm.run_dasl(bld, dcpu, data, org, ents, vecs, "bin")
    files["dasl.cmd"] = rb.cmd + "\n"
    files["dasl.out"] = rb.out[:200000]
    if rb.timeout or rb.killed or rb.rc != 0:
        rep.violation("%s: dasl did not end normally (rc=%s timeout=%s) on a valid image: %s"
                      % (im["isa"], rb.rc, rb.timeout, rb.err[-200:]), case=im, files=files,
                      key=(dict(base, kind="dasl-abnormal")))
        return
    if im.get("named_entry"):
        # documented syntax -entryaddress <address>,<name>: same disassembly, the entry carries the given label
        rn = dasm.run_dasl(bld, dcpu, data, org, ents, vecs, "bin", name_first="start")
        if rn.timeout or rn.killed or rn.rc != 0:
            rep.violation("%s: dasl refuses a named direct entry address (-entryaddress %d,start): rc=%s %s"
                          % (im["isa"], ents[0], rn.rc, rn.err.strip()[-120:]), case=im, files=files,
                          key=(dict(base, kind="named-entry-refused")))
    rh = dasm.run_dasl(bld, dcpu, data, org, ents, vecs, "hex")
    if rh.out != rb.out or rh.rc != rb.rc:
        files["dasl-hex.out"] = rh.out[:200000]
        rep.violation("%s: -hexfile and -binfile loading of the same image give different disassemblies (rc %s/%s)"
                      % (im["isa"], rh.rc, rb.rc), case=im, files=files, key=(dict(base, kind="hex-differs")))
    areas = dasm.listed_areas(rb.out)
    code = set()
    dat = set()
    for (lo, hi, k) in areas:
        (code if k == "code" else dat).update(range(lo, hi + 1))
    inside = set(range(org, org + len(data)))
    if not (code | dat) <= inside:
        rep.violation("%s: listed areas leave the loaded image %d..%d: %s" % (im["isa"], org, org + len(data) - 1,
                      dasm.intervals((code | dat) - inside)), case=im, files=files,
                      key=(dict(base, kind="outside-image")))
    if code & dat:
        rep.violation("%s: listed code and data areas overlap at %s" % (im["isa"], dasm.intervals(code & dat)),
                      case=im, files=files, key=(dict(base, kind="overlap")))
    if not oracle and not im.get("closed"):
        # golden-source images: a branch/call that leaves the image puts the image outside the property's domain
        # ("branches and calls into the image"): its label can never be defined.  Not judged further.
        defined = set(m.group(1).lower() for m in re.finditer(r"(?m)^((?:lab|sub)_[0-9A-Fa-f]+):", rb.out))
        for m in re.finditer(r"\b((?:lab|sub)_([0-9A-Fa-f]{4}))", rb.out):
            if m.group(1).lower() not in defined and int(m.group(2), 16) not in inside:
                return "out-of-domain"
    # the label printed for a branch / call operand names the target the ISA table decodes (in-page and relative
    # rules applied to the instruction's own address); a wrong label cannot re-assemble to the original bytes
    for (a, t) in im.get("targets", []):
        if a not in code:
            continue
        sl = re.sub(r"^\S+:", "", dasm.line_at(rb.out, a)).split(";")[0]
        m = re.search(r"\b(?:lab|sub)_([0-9A-Fa-f]{4})\b", sl)
        if m and int(m.group(1), 16) != t:
            rep.violation("%s: instruction at %d (offset %02X of its page) is disassembled with target %s, the instruction "
                          "set defines target %04X: '%s'" % (im["isa"], a, a % 256, m.group(1), t, sl.strip()), case=im,
                          files=files, key=(dict(base, kind="wrong-target-label")))
            break
    # re-assembly: verbatim first; remedies only to find out what is wrong and to still compare bytes
    text = rb.out
    rc, msgs, mem = dasm.reassemble(bld, aslcpu, text)
    tried = 0
    while mem is None and tried < 6:
        tried += 1
        n, line = failing_line(msgs, text, aslcpu)
        cause = cause_of(line) if line else "unknown"
        if cause in ("jcn", "jcm") and n is not None and "jump distance" in msgs:
            # JCN in the last two words of a ROM page with a label operand that is defined further down
            fa = dasm.addr_of_line(text, n)
            if fa is not None and fa % 256 in (254, 255):
                cause = "jcn-forward-label-at-page-end"
        if oracle and n is not None and "stopends" in im:
            # the rejected line lies in an area the Dasm model does not mark as code and that starts directly behind
            # a reachable indirect jump: the real tracer fell through an unconditional jump into data
            fa = dasm.addr_of_line(text, n)
            if fa is not None and fa not in set(im["code"]):
                lo = fa
                while lo - 1 in code and lo - 1 not in set(im["code"]):
                    lo -= 1
                if lo in set(im["stopends"]):
                    cause = "traced-into-data-behind-indirect-jump"
        so = im.get("sole")
        edge = (" [sole-edge image: the routine at %04X is reachable only through the %s at %04X]"
                % (so["target"], so["form"], so["at"])) if so else ""
        rep.violation("%s: asl rejects the disassembly (cause %s): line '%s': %s%s"
                      % (im["isa"], cause, line.strip()[:60], " | ".join(msgs.strip().splitlines()[:2])[:200], edge),
                      case=im, files=dict(files, **{"reasm.asm": "\tcpu\t%s\n%s" % (aslcpu, text)}),
                      key=(dict(base, kind="rejected", cause=cause)))
        # remedies (diagnosis only)
        if cause == "stdout-message":
            text = dasm.strip_noise(text)
        elif cause == "org-dollar-hex":
            text = re.sub(r"(?m)^(\s*org\s+)\$([0-9A-Fa-f]+)", lambda m: "%s%d" % (m.group(1), int(m.group(2), 16)), text)
        elif cause == "jcn-empty-condition":
            text = re.sub(r"(?m)^(.*\bjc[nm]\s+),", r"\g<1>0,", text)
        elif cause == "label-with-h-suffix":
            text = re.sub(r"\b((?:lab|sub)_[0-9A-Fa-f]{4})h\b", r"\1", text)
        else:
            break
        rc, msgs, mem = dasm.reassemble(bld, aslcpu, text)
    if mem is not None:
        bad = [a for a in sorted(code | dat) if a in inside and mem.get(a) != data[a - org]]
        if bad:
            a = bad[0]
            ident = ""
            if "starts" in im:
                st = sorted(s for s in im["starts"] if s <= a)
                ident = " (instruction at %d)" % st[-1] if st else ""
            sl = dasm.line_at(rb.out, a)
            cause = "reg8-alu-immediate-without-h" if re.match(
                r"^\s*(add|addc|sub|subb|and|or|xor|cmp)\s+[a-ehlw],[0-9A-Fa-f]+\s*$", sl.split(";")[0]) else cause_of(sl)
            rep.violation("%s: re-assembled bytes differ from the image at %s%s: image %02X, re-assembled %s; dasl line '%s'"
                          % (im["isa"], dasm.intervals(bad)[:3], ident, data[a - org],
                             "%02X" % mem[a] if a in mem else "nothing", sl.strip()[:60]), case=im,
                          files=dict(files, **{"reasm.asm": "\tcpu\t%s\n%s" % (aslcpu, text)}),
                          key=(dict(base, kind="bytes-differ", cause=cause)))
    if oracle:
        want_code, want_data = set(im["code"]), set(im["data"])
        so = im.get("sole")
        if so and not set(so["tbytes"]) <= code:
            return "sole edge: the routine at %04X, reachable only through the %s at %04X, is not disassembled (dasl lists code %s)" % (
                so["target"], so["form"], so["at"], dasm.intervals(code))
        if code != want_code or dat != want_data:
            return "areas: dasl lists code %s data %s, the Dasm model marks code %s data %s" % (
                dasm.intervals(code), dasm.intervals(dat), dasm.intervals(want_code), dasm.intervals(want_data))
    return None


def golden_87c800(bld):
    """images from the golden t_87c800 source: the whole program and instruction-wise slices"""
    t = [x for x in aslrun.corpus() if x[0] == "t_87c800"]
    if not t:
        return []
    src = open(t[0][2], encoding="latin-1").read().splitlines()
    body = [l for l in src if l.strip() and not l.strip().startswith(";")]
    head = [l for l in body if l.split()[0].lower() in ("cpu", "page", "include")]
    ins = [l for l in body if l not in head]
    progs = [("whole", src)]
    r = rng("c15/87c800")
    for k in range(0, len(ins), 12):
        progs.append(("slice%d" % k, head + ins[k:k + 12]))
    # relocated slices: the relative jumps (jrs / jr in the first slices) land on different offsets around a page end
    for k in (0, 12):
        for o in (0xF0, 0xF3, 0xF6, 0xF9, 0xFC, 0xFD, 0xFE, 0xFF, 0x100, 0x7FF7):
            progs.append(("slice%d@%X" % (k, o), head + ["\torg\t%d" % o] + ins[k:k + 12]))
    out = []
    for name, lines in progs:
        res = aslrun.assemble(bld, {"a.asm": "\n".join(lines) + "\n"}, opts=["-q", "-i", aslrun.INCLUDE])
        if res.rc != 0 or res.p is None:
            continue
        pr = res.parsed()
        recs = [x for x in pr.data_records() if x.seg == 1]
        if not recs:
            continue
        lo = min(x.start for x in recs)
        hi = max(x.start + len(x.data) for x in recs)
        mem = bytearray(hi - lo)
        for x in recs:
            mem[x.start - lo:x.start - lo + len(x.data)] = x.data
        out.append({"isa": "87C800", "cpu": "87C00", "org": lo, "bytes": list(mem), "entries": [lo], "vecs": [],
                    "name": name})
    return out


ORG87 = 0x200


def limit_images_87c800(bld, cases):
    """Field-limit images: every statement template of the golden t_87c800 source that has a signed displacement
    ((hl+d) behind the memory prefix) or a PC-relative distance (jr / jrs) x every displacement class printed by TLC
    (spec/Dasm87_Gen.tla).  One image per (template, class): the statement (branches: inside enough `nop`s that the
    target lies in the image) + `ret`, assembled by the real asl.  Returns (images, notes); notes = images whose
    field position does not carry the bits TLC computed (assembler side, reported as drift)."""
    t = [x for x in aslrun.corpus() if x[0] == "t_87c800"]
    if not t:
        return [], ["golden test t_87c800 not found"]
    src = open(t[0][2], encoding="latin-1").read().splitlines()
    body = [l for l in src if l.strip() and not l.strip().startswith(";")]
    head = [l for l in body if l.split()[0].lower() in ("cpu", "page", "include")]
    templ = {"hld": [], "jr": [], "jrs": []}
    for l in body:
        code = l.split(";")[0]
        m = re.search(r"\(hl[+-]\d+\)", code, re.I)
        if m:
            templ["hld"].append((code[:m.start()].lstrip() + "(hl@D@)" + code[m.end():].rstrip(), None))
            continue
        m = re.match(r"^(?:\w+:)?\s*(jrs?)\s+(?:(\w+)\s*,\s*)?\w+\s*$", code, re.I)
        if m:
            templ[m.group(1).lower()].append(("%s %s" % (m.group(1), (m.group(2) + ",") if m.group(2) else ""), m.group(2)))
    for k in templ:
        templ[k] = sorted(set(templ[k]))
    jobs, metas = [], []
    for c in cases:
        for (tp, cc) in templ[c["kind"]]:
            if c["kind"] == "hld":
                stmt, nb, na = tp.replace("@D@", "%+d" % c["d"]), 0, 0
            else:
                off = c["off"]
                stmt = tp + ("$" if off == 0 else "$%+d" % off)
                nb, na = max(0, -off) + 3, max(0, off) + 3
            lines = head + ["\torg\t%d" % ORG87] + ["\tnop"] * nb + ["\t" + stmt] + ["\tnop"] * na + ["\tret"]
            jobs.append({"sources": {"a.asm": "\n".join(lines) + "\n"}, "opts": ["-q", "-i", aslrun.INCLUDE]})
            metas.append((c, stmt, nb))
    try:
        results = aslrun.assemble_many(bld, jobs)
    except FileNotFoundError:
        build.get(bld.flavour)
        results = aslrun.assemble_many(bld, jobs)
    images, notes = [], []
    for (c, stmt, nb), res in zip(metas, results):
        name = "limit %s d=%d: %s" % (c["kind"], c["d"], stmt)
        recs = [x for x in res.parsed().data_records() if x.seg == 1] if (res.rc == 0 and res.p is not None) else []
        if not recs:
            notes.append("%s: asl rejects the in-range statement (%s)" % (name, (res.out + res.err).strip()[-120:]))
            continue
        lo = min(x.start for x in recs)
        hi = max(x.start + len(x.data) for x in recs)
        mem = bytearray(hi - lo)
        for x in recs:
            mem[x.start - lo:x.start - lo + len(x.data)] = x.data
        a = ORG87 + nb
        im = {"isa": "87C800", "cpu": "87C00", "org": lo, "bytes": list(mem), "entries": [lo], "vecs": [],
              "name": name, "closed": True, "field": c}
        # the image carries the bits TLC computed at the field position (else it does not exercise the limit)
        i = a - lo
        if c["kind"] == "hld":
            ok = c["fieldless"] or (mem[i] in (0xE4, 0xF4) and mem[i + 1] == c["bits"])
        elif c["kind"] == "jr":
            ok = mem[i + 1] == c["bits"]
            im["targets"] = [(a, a + c["off"])]
        else:
            ok = mem[i] % 32 == c["bits"]
            im["targets"] = [(a, a + c["off"])]
        if not ok:
            notes.append("%s: image bytes %s do not carry the field bits %d" % (name, list(mem[i:i + 3]), c["bits"]))
        images.append(im)
    return images, notes


def json_key(v):
    import json
    return json.dumps(v, sort_keys=True)


def main(tier):
    rep = Report(PID, tier)
    bld = build.get("hook")
    quick = tier == "quick"
    rep.assumptions += ["ISA tables Isa4004 / Isa6800 are the reference for lengths and successors; 87C800 has no table of "
                        "the whole instruction set: golden images get round trip and disjoint/inside checks only, no "
                        "reachability oracle; its displacement fields (Dasm87_Gen) are exercised only through the statement "
                        "templates of the golden source; its control-transfer forms (Isa87FlowX: no CALLV, CALLP only in "
                        "page FF) have the Dasm reachability oracle in the sole-edge images",
                        "dasl output is prefixed with `cpu <name>` only; images are single-chunk, loaded by -binfile and -hexfile",
                        "renderers, hex writer and byte comparison (Python) are trusted; images, entries and predicted areas are TLC's"]
    # (M) ---------------------------------------------------------------------------------------------
    cfgs = ["Dasm_MC.cfg", "Dasm_MC_6800.cfg", "Dasm_RT_4004.cfg", "Dasm_RT_6800.cfg"]
    if not quick:
        cfgs += ["Dasm_MC4.cfg", "Dasm_MC4_6800.cfg"]
    n = 150 if quick else 5000
    gens = [("4004", "Dasm_Gen_4004.cfg", 11, "4004", "4004"), ("6800", "Dasm_Gen_6800.cfg", 13, "6800", "6800")]
    covs = [("4004", "Dasm_Cover_4004.cfg"), ("6800", "Dasm_Cover_6800.cfg"),
            ("4004", "Dasm_Edge_4004.cfg"), ("6800", "Dasm_Edge_6800.cfg")]
    # sole-edge images (spec/DasmSole_Gen.tla): (table / dasl -cpu / asl cpu)
    soles = [("87C00", "87C00", "87C00"), ("6800", "6800", "6800"), ("4004", "4004", "4004")]

    def tlc_task(t):
        if t[0] == "mc":
            return tlc.run("Dasm_MC", t[1], workers=2, timeout=2400, mem="6g", collect=False)
        if t[0] == "gen":
            g = t[1]
            return tlc.run("Dasm_Gen", g[1], workers=2 if quick else 4, simulate=n, depth=g[2], deadlock=True,
                           timeout=2400, mem="6g", tags=("BEH",))
        if t[0] == "f87":
            return tlc.run("Dasm87_Gen", "Dasm87_Gen.cfg", workers=1, timeout=600, mem="1g", tags=("OUT",))
        if t[0] == "sole":
            return tlc.run("DasmSole_Gen", "DasmSole_Gen%s_%s.cfg" % ("Q" if quick else "", t[1][0]), workers=1,
                           timeout=1800, mem="2g", tags=("OUT", "FORMS"))
        return tlc.run("Dasm_Cover", t[1][1], workers=1, deadlock=True, timeout=900, mem="4g", tags=("BEH", "BAD"))
    tasks = ([("mc", c) for c in cfgs] + [("gen", g) for g in gens] + [("cov", c) for c in covs] + [("f87", None)]
             + [("sole", x) for x in soles])
    with Phase("TLC: %d Dasm_MC configurations, %d generators" % (len(cfgs), len(gens) + len(covs) + len(soles))):
        allruns = pmap(tlc_task, tasks, workers=min(6, NCPU))
    runs = allruns[:len(cfgs)]
    sims = allruns[len(cfgs):len(cfgs) + len(gens)]
    covruns = allruns[len(cfgs) + len(gens):len(cfgs) + len(gens) + len(covs)]
    f87run = allruns[len(cfgs) + len(gens) + len(covs)]
    soleruns = allruns[len(cfgs) + len(gens) + len(covs) + 1:]
    for c, r in zip(cfgs, runs):
        tlc.must(r, "Dasm_MC(%s)" % c)
        if r.violation:
            raise CheckError("the Dasm design violates its own properties (%s): %s" % (c, r.violation[:800]))
        rep.model("Dasm_MC(%s)" % c, r)
    # the 6800 table against the assembler (C14 machinery; mismatches are not C15 verdicts)
    from checks import c14
    cfg68 = isa.IsaCfg("6800", "Isa6800_Gen", [("6800", "6800")])
    with Phase("Isa6800 table vs asl"):
        r68, cases68 = isa.gen_cases(cfg68, "6800", 3, seed() % 1000)
        rep.model("Isa6800_Gen(6800)", r68)
        sub = Report("C14", tier)
        sub.known = []
        import io
        import contextlib
        buf = io.StringIO()
        with contextlib.redirect_stdout(buf):
            c14.replay_cpu(sub, bld, cfg68, "6800", "6800", cases68)
        import shutil
        for (_, d) in sub.violations:
            shutil.rmtree(d, ignore_errors=True)
        forms_bad = sorted({g[2] + "/" + g[3] for g in c14.GROUPS if g[0] == "6800"})
        rep.part("Isa6800 table vs asl", statements=len(cases68), mismatching=len(sub.violations), forms=forms_bad)
        if sub.violations:
            rep.drift("Isa6800 table vs asl: %d statements differ (%s) - encoding findings, not C15 verdicts"
                      % (len(sub.violations), ", ".join(forms_bad)))
    # (G) ---------------------------------------------------------------------------------------------
    images = []
    # systematic opcode coverage images (every instruction variant of the tables at least once)
    for (iname, cfgname), cr in zip(covs, covruns):
        tlc.must(cr, "Dasm_Cover(%s)" % iname)
        if cr.violation or any(t == "BAD" for (t, _) in cr.printed):
            raise CheckError("Dasm_Cover(%s) produced an invalid coverage image: %s" % (iname, cr.violation or
                             [x for (t, x) in cr.printed if t == "BAD"][:1]))
        ids = set()
        for (t, im) in cr.printed:
            im["named_entry"] = False
            images.append((im, iname, iname))
            ids.update(i for i in im["ids"])
        rep.model("Dasm_Cover(%s)" % cfgname, cr)
        rep.part("Dasm_Cover(%s)" % cfgname, images=len(cr.printed), forms_covered=len(ids))
    for g, s in zip(gens, sims):
        tlc.must(s, "Dasm_Gen(%s)" % g[0])
        if s.violation:
            raise CheckError("Dasm_Gen(%s): %s" % (g[0], s.violation[:600]))
        seen = set()
        k = 0
        for (tag, im) in s.printed:
            key = (im["org"], tuple(im["bytes"]), tuple(sorted(im["entries"])), tuple(map(tuple, im["vecs"])))
            if key in seen:
                continue
            seen.add(key)
            im["named_entry"] = (k % 10 == 0)
            images.append((im, g[3], g[4]))
            k += 1
        rep.cov["transitions"] += s.generated
        rep.cov["states"] += s.generated
        rep.part("Dasm_Gen(%s)" % g[0], simulated_states=s.generated, valid_images=k, wall_s=s.wall)
    # sole-edge images: a routine reachable ONLY through the target operand of one control-transfer instruction
    nsole = 0
    for (iname, dc, ac), sr in zip(soles, soleruns):
        tlc.must(sr, "DasmSole_Gen(%s)" % iname)
        if sr.violation:
            raise CheckError("DasmSole_Gen(%s) violates its own invariants: %s" % (iname, sr.violation[:800]))
        forms = [x for (t, x) in sr.printed if t == "FORMS"]
        sims = [x for (t, x) in sr.printed if t == "OUT"]
        if len(forms) != 1 or not sims:
            raise CheckError("DasmSole_Gen(%s): %d FORMS records, %d images" % (iname, len(forms), len(sims)))
        # the dimension is present: every variant of every form with a target operand is the sole edge of an image,
        # with the target routine behind it and in front of it
        want = {(json_key(v), pos) for v in forms[0]["variants"] for pos in ("behind", "before")}
        have = {(json_key(im["sole"]["variant"]), im["sole"]["pos"]) for im in sims}
        if want - have:
            raise CheckError("DasmSole_Gen(%s): no sole-edge image for %s" % (iname, sorted(want - have)[:4]))
        for im in sims:
            im["named_entry"] = False
            im["closed"] = True
            images.append((im, dc, ac))
        nsole += len(sims)
        rep.model("DasmSole_Gen(%s)" % iname, sr)
        rep.part("DasmSole_Gen(%s)" % iname, images=len(sims), forms=forms[0]["forms"], variants=len(forms[0]["variants"]),
                 closers=forms[0]["closers"], programs_enumerated=forms[0]["programs"],
                 by_flow={k: len([i for i in sims if i["sole"]["flow"] == k]) for k in ("cond", "call", "jump")})
    with Phase("round trip of %d images (%d sole-edge)" % (len(images), nsole)):
        def one(t):
            for attempt in (0, 1):
                c = Collector()
                try:
                    return c, judge_image(c, bld, t[0], t[1], t[2])
                except FileNotFoundError:      # shared build cache evicted by a concurrent run: rebuild once
                    if attempt:
                        raise
                    build.get(bld.flavour)
        res0 = pmap(one, images)
        res = []
        for c, d in res0:
            c.flush(rep)
            res.append(d)
    drifts = {}
    formcov = {}
    for (im, dc, ac), d in zip(images, res):
        rep.evaluated()
        if d == "out-of-domain":
            d = None
        rep.distinct((im["isa"], im["org"], tuple(im["bytes"]), tuple(im["entries"])), len(im["code"]) > 1)
        for i in im["ids"]:
            formcov.setdefault(im["isa"], set()).add(i)
        if d:
            drifts.setdefault(im["isa"], []).append((im, d))
    rep.traces(len(images))
    for k, v in drifts.items():
        im, d = v[0]
        rep.drift("%s: %d of the images: %s (first: org=%d entries=%s ids=%s)" % (k, len(v), d, im["org"], im["entries"], im["ids"]))
    for k, v in formcov.items():
        rep.part("forms used in images (%s)" % k, count=len(v))
    for (im, dc, ac) in images[:2] + images[-2:]:
        rep.sample({"isa": im["isa"], "org": im["org"], "bytes": im["bytes"], "entries": im["entries"], "vecs": im["vecs"],
                    "model_code_areas": dasm.intervals(im["code"]), "ids": im["ids"]})
    # 87C800 ------------------------------------------------------------------------------------------
    with Phase("87C800 golden images"):
        g87 = golden_87c800(bld)
        skipped = 0
        for im in g87:
            c = Collector()
            if judge_image(c, bld, im, "87C00", "87C00", oracle=False) == "out-of-domain":
                skipped += 1
            c.flush(rep)
            rep.evaluated()
        rep.traces(len(g87))
        rep.part("87C800", images=len(g87), not_judged_branch_leaves_image=skipped, oracle="round trip only")
    with Phase("87C800 field-limit images"):
        tlc.must(f87run, "Dasm87_Gen")
        if f87run.violation:
            raise CheckError("Dasm87_Gen violates its own invariants: %s" % f87run.violation[:600])
        rep.model("Dasm87_Gen", f87run)
        cases87 = [c for (t, c) in f87run.printed if t == "OUT"]
        lim, notes = limit_images_87c800(bld, cases87)
        if not cases87 or not lim:
            raise CheckError("no 87C800 field-limit images were generated (%d cases)" % len(cases87))

        def one87(im):
            for attempt in (0, 1):
                c = Collector()
                try:
                    return c, judge_image(c, bld, im, "87C00", "87C00", oracle=False)
                except FileNotFoundError:
                    if attempt:
                        raise
                    build.get(bld.flavour)
        for im, (c, d) in zip(lim, pmap(one87, lim)):
            c.flush(rep)
            rep.evaluated()
            rep.distinct(("87C800", im["name"]), True)
        rep.traces(len(lim))
        if notes:
            rep.drift("87C800 field-limit images: %d notes, first: %s" % (len(notes), notes[0]))
        rep.part("87C800 field limits", cases=len(cases87), images=len(lim), notes=len(notes),
                 kinds={k: len([i for i in lim if i["field"]["kind"] == k]) for k in ("hld", "jr", "jrs")},
                 classes="{min, min+1, -1, 0, 1, max-1, max} (+ -2, -3 for branches; jr -1 = inside itself excluded)")
        rep.sample({"isa": "87C800", "image": lim[0]["name"], "org": lim[0]["org"], "bytes": lim[0]["bytes"]})
    for g in sorted(GROUPS):
        log("[C15] mismatch group %s: %d images" % (dict(g), GROUPS[g]))
    return rep.finish(
        rule="images = valid instruction streams drawn by TLC -simulate from Dasm_Gen (%d traces per ISA x worker; "
             "10-12 items; all forms of Isa4004/Isa6800 weighted by category; operands from limit/pattern/random pools; "
             "1..4 entries; 6800: vectors) + sole-edge images of DasmSole_Gen (every control-transfer variant of the three "
             "targets as the only way to a routine, x position x closer x end of the routine) + golden t_87c800 whole/slices + every golden 87C800 statement template with a "
             "displacement / distance field x the field-limit classes of Dasm87_Gen; distinct = distinct (org, bytes, entries); "
             "non-trivial = more than one code byte reachable" % n, exhaustive=False)


def replay(path):
    import json
    v = json.load(open(os.path.join(path, "violation.json")))
    bld = build.get("hook")
    im = v["case"]
    log("recorded: %s" % v["what"])
    class _Log:
        def violation(self, what, case=None, files=None, key=None):
            log("  still violated: %s" % what[:300])
            self.n += 1
    rep = _Log()
    rep.n = 0
    cpu = {"4004": ("4004", "4004"), "6800": ("6800", "6800"), "87C800": ("87C00", "87C00")}[im["isa"]]
    d = judge_image(rep, bld, im, cpu[0], cpu[1], oracle="code" in im)
    log("replay: %d violation(s) now; drift: %s" % (rep.n, d))
    return 0
