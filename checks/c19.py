"""C19 - Listing, debug map and share file state the facts of the code file.

Specification: spec/Listing.tla
  * MakeListRows: asmlist.c MakeList() (first row + continuation rows, list granularity with byte tail, row
    capacity LISTLINESPACE, address arithmetic "ListPC += (Gran == CurrListGran) ? 1 : CurrListGran", execution
    address = load address + phase), WidthsOf = asmlist_init() column widths per list radix.
  * declarative side: RowFaithful / GroupFaithful (every listed unit is the emission's byte(s) at the shown
    address, groups are complete), InFile (the emission is in a record of its segment at its load address),
    MapEntryJustified (a line:address entry names a line whose code starts there in that segment).
(M) Listing_MC: assembler core (emit / reserve / ORG / PHASE / DEPHASE / SEGMENT) x 5 (granularity, list
    granularity) pairs x list radices x start addresses incl. a 2^24 carry; invariants RowsFaithful, FirstRowAddr,
    EmissionInImage, InfoJustified, RowFits.  quick: 3 statements, <= 9 bytes/line, radix {16, 2};
    thorough: 3 statements, <= 17 bytes, radix {2, 8, 10, 16, 36}.  The code's deviation (address step only valid
    for granularity 1 or = unit size) is exhibited as an ASSUME (OddPair).
(G) Listing_Gen: TLC-simulated programs of the same core, recorded with the rows / label values the specification
    expects; rendered in dialects z80 / 8051 (gran 1, list 1), 68000 (gran 1, list 2, big endian, padding),
    320C25 (gran 2, list 2) with labels, EQUs, SHARED, a macro, an include file, data segments, PHASE, long data
    lines, reservations; assembled with -L -listradix r, -g MAP|NOICE|ATMEL and -c|-p|-a.
(V) Listing_Trace: for every run (generated programs and golden sources) the tokenised reports + the emission
    trace of the final pass (hook, neutral witness) + the parsed code file are judged by TLC: every listing row
    (address, units, continuation, completeness), every emission in the file, every symbol value in listing
    table / MAP / NoICE / share file = the final value the assembler holds (sym hook), every MAP / NoICE
    line:address entry = start of an emission of that line in that segment, Atmel records inside one.
Verdict-bearing: TLC's rejection of a ROW / SYM / MAPLINE / OBJLINE / EMITS event.  The model's predicted rows
for generated programs are compared as a diagnostic only (SPEC-DRIFT).
Not judged: page layout, titles, cross reference / usage lists, float and string symbols, symbols local to
sections, bit symbols printed through DissectBit; WHICH lines a listing holds under LISTING / MACEXP is compared
with ListingModes' expectation as a diagnostic only (the property speaks about the lines that are listed).

Dimension "listing modes" (spec/ListingModes.tla, _MC, _Gen; vlib/listmodes.py) - added after a seeded change
(as.c ProcessFile: `*ListLine = 0` once per pass instead of once per line) passed the check: ListLine is the extra
text ('=>TRUE', '[n]', '(MACRO)', '=value', 'ALL' ...) that MakeList() prints INSTEAD of a line's code and clears
only when the line is listed; a statement that writes it while kept out of the listing (IF / ENDIF under LISTING
PURECODE or in the expansion of a {NOEXPIF} / MACEXP_DFT NOIF macro, SET / nested calls in a hidden expansion)
left it to the next listed line, which then showed the text and no bytes.  The old case space had neither a
program that keeps lines out of the listing nor a judgement for rows WITHOUT units.  Now:
  * ListingModes.tla: ApplyMods (lstmacroexp.c), ThisDoLst (MakeList), IFListMask (asmif.c), Eff (Produce_Code for
    data / SET / IF / ELSEIF / ELSE / ENDIF / LISTING 0..3 / MACEXP_DFT / MACEXP_OVR / MACEXP / SAVE / RESTORE / macro
    definition with control parameters / call / REPT: IfAsm, IF stack, ActiveIF, NextDoLst, CodeLen, ListLine),
    Process (per-line reset, MakeList, DoLst = NextDoLst), PopFrame (MACRO_Restorer); declarative side ManualListed
    (manual: classes of lines, default / control parameters / override, NOSKIPPED / PURECODE), ShowsItsCode (the
    property), TextIsOwn.  Named deviations of the code from the manual: SkippedNeedsRest, (LegacyIsOverride -
    the statement MACEXP set the override list, not the default one - is repaired in /repo and the model follows the manual), CallCountsAsMacro, StaleActiveIF.  Not
    modelled: IFDEF / IFB / SWITCH-CASE, IRP / IRPC / WHILE, the texts of SECTION / STRUCT / bit definitions.
  * (M) ListingModes_MC: every program of 3 top-level statements (quick: 1 macro id, 2 bodies, 4 modifier lists,
    25 k states; thorough: 3 ids, 5 bodies incl. nested call and REPT in a macro, 10 modifier lists and 9 control
    parameter lists holding every modifier, 4.1 M states): CodeShown, TextOwn, ListedAsManual, Sane;
    ListingModes_MC_stale.cfg (ListLine cleared only by a listed line) must be refuted by TLC.
  * (G) ListingModes_Gen: simulated programs of 14 top-level statements (weighted mix) with, for every processed
    line, listed or not and what the code column holds (rows by MakeListRows under the target / radix); `hot` =
    places where a hidden statement writes a text in front of a listed code line, programs with hot > 0 are
    preferred (quick 40 programs, thorough 1000), rendered for z80 / 8051 / 68000 / 320C25.  On the unchanged
    tree all 600 programs of a trial matched the expectation line by line.
  * (V) Listing.tla LineShown / Listing_Trace Withheld: a first row WITHOUT units is rejected when the emission the
    harness names (found by aligning the rows with the hook's `stmt` records of the final pass: same line, same
    address, same operation, in order - vlib/listmodes.row_events) is an emission of that line, not listed yet,
    at the row's address, with code.  Applies to every run, golden sources included; key deviation
    "text-for-code".  A row the harness cannot align (no `stmt` record: '#' lines, <padding>) is not judged.
  Mutation (the seeded one): quick tier 20 VIOLATION lines (exit 1), unchanged tree exit 0.

Dimension "line origins" (spec/SrcLines.tla, _MC, _Gen, _Trace; vlib/srclines.py; checks/ext_srclines.py, whose
docstring has the details) - added after a seeded change (as.c ExpandINCLUDE_Core: `Tag->StartLine = MomLineCounter`
dropped, so INCLUDE_Restorer puts CurrLine back into the reader's counter) passed the check: an INCLUDE met in a
REPT / IRP / IRPC / WHILE body read from a file (or in a macro called there) rewinds the line counter of the
including file; all later lines are numbered too low, the line:address entries behind the loop name comments, ENDM
or other statements.  Every judgement of a line number above takes the line from the hook's emission record, which
carries the same CurrLine as the reports, and no generated program had an INCLUDE inside a repetition.  Now:
  * SrcLines.tla: the input-tag machine of as.c (GenerateProcessor, ExpandINCLUDE_Core, the six processors with
    FromFile, body collectors, GetNextLine with the restorers) next to a declarative walk over the program TEXT
    that says, per executed data line, its address, code, own place and the chain of places a report may name
    (own place + the calls / loop statements that brought it to execution since the last file was opened);
    EntryJustified / RowJustified state the property for a line:address entry / a code-bearing listing row.
  * (M) SrcLines_MC: machine = text on 1776 programs (loop kind x count x bodies of data / INCLUDE / call, nested
    loop, calls, INCLUDEs; thorough: counts 0..2, pairs); SrcLines_MC_curr.cfg (the seeded shape) is refuted;
    with statements continued over two physical lines SrcLines_MC_cont.cfg (the code, deviation BodyLinesCounted)
    is refuted and SrcLines_MC_place.cfg (proposed repair) holds.
  * (G) SrcLines_Gen: seed-decoded programs (loops two deep x 0..2 iterations, two include files, two macros,
    continued data lines, address step 1 / 2), those that meet an INCLUDE while CurrLine # MomLineCounter first
    (quick 40, thorough 600), rendered for z80 / 8051 / 320C25 / 68000, -g MAP | NOICE | ATMEL x list radix round
    robin.
  * (V) SrcLines_Trace: TLC recomputes the expectation from the abstract program and judges the parsed code file
    (IMAGE), every entry of the debug file (ENTRY) and every code-bearing first row of the listing (LROW: include
    depth, line, address).  A line of an expansion may be named by any place of its chain (the manual is silent);
    which one the code picks is compared as SPEC-DRIFT only.  Key deviation "wrong-source-line" (or the named
    deviation "continued-line-in-loop-body" when the rejected entry is what the machine of the code shows), phase
    "srclines".
  Finding: a statement continued with `\\` in a loop body read from a file shifts the line numbers of the body lines
  behind it (known_findings/C19.json C19-loop-body-continuation, proposed_fixes/C19-loop-body-continuation.*).
  Mutation (the seeded one): quick tier 20 VIOLATION lines recorded, 23 of 40 programs rejected (exit 1), unchanged
  tree exit 0; two more mutations: see checks/ext_srclines.py.

Dimension "pending label" (spec/PendLabel.tla, _MC, _Gen, _Trace; vlib/pendlabel.py; checks/ext_pendlabel.py, whose
docstring has the details) - added after a seeded change (as.c Produce_Code: the memory about the most recent label is
dropped only by statements with a label field or with code, `&& (*LabPart || CodeLen != 0)`) passed the check: on a
padding target `entry:` alone on a line at an odd address, then `shared entry`, then a word-aligned instruction makes
CodeSHARED write the unpadded value while InsertPadding -> LabelModify moves the label afterwards; listing table, MAP
and the code show the padded value, the share file (-c / -p / -a) the address of the pad byte.  Listing_Trace judges
share lines against final values, but no generated program had a statement BETWEEN a label-only line and the statement
that gets padded.  Now:
  * PendLabel.tla: LabelHandle / LabelModify / LabelReset, InsertPadding, CodeSHARED's snapshot, Forgets (which
    statements end the pending state; ResetRule "labelled-or-code" = the named deviation), two passes after a forward
    reference; declarative side over the text of a block: ShareFinal / CodeFinal (every share line, every reference in
    the code = the symbol's FINAL value), FinalAsText / MovedIff (the final value is the address the following code
    was laid down at iff the label is still pending when that statement is padded - manual, PADDING), CopiesFinal,
    LayoutSane, LineEntries.
  * (M) PendLabel_MC: every program of one block (label line at an even / odd address x <= 2 intervening statements
    of 11 kinds x following statement {aligned instruction, DC.W, DC.B, DS.W, ALIGN, END}) x forward SHARED x target
    {68000, MSP430}: 6384 programs, 131 k states (thorough + pairs of blocks: 75 k programs, 2.0 M states);
    PendLabel_MC_dev.cfg (the seeded shape) is refuted.
  * (G) PendLabel_Gen: the 1120 (quick; thorough 2640) blocks dealt to programs of 14 + the block in front of END, with a
    reference table and a SHARED of every symbol, every second pair of programs with a forward SHARED (two passes);
    quick 80 runs (40 programs x 2 targets, share format round robin), thorough 558 (x 3 formats).
  * (V) PendLabel_Trace: every share line, listing-table symbol and MAP symbol is judged against the word the parsed
    CODE FILE holds for that symbol (key phase "pendlabel", deviation "report-not-final-value"); differences from the
    model's prediction (which value is final, share line order, line:address entries of the padded statements) are
    SPEC-DRIFT.  One run per program also goes through Listing_Trace (hook witness; symbols of the END block).
  Mutation (the seeded one): quick tier exit 1, 74 violations (20 VIOLATION lines printed; 50 events in 44 of 80 runs
  rejected by PendLabel_Trace, 24 SYM events by Listing_Trace), unchanged tree exit 0; InsertPadding without
  LabelModify: SPEC-DRIFT only (46 runs; all reports agree on the unmoved value).

Defects of the pinned tree d9f49b6, repaired in /repo meanwhile (known_findings/C19.json, status fixed): (1) -listradix is ignored for addresses and code of
the listing (hex digits in columns of the requested radix' width), proposed_fixes/C19-listradix-ignored.diff: on
the unfixed tree a rejected listing with radix != 16 is read again with hexadecimal digits and, if TLC accepts it
then, reported as that known finding; (2) ALIGN that needs no fill still writes a line:address entry,
proposed_fixes/C19-align-empty-lineinfo.diff.  On a copy with both fixes all 201 golden sources are accepted at
radix 2, 8, 10, 16 and 36.

Mutations of the real code tried on a scratch copy (selftest/C19-m*.py, selftest/mutate_and_check.sh); all six
keep the 201 ctest tests green (no test reads a listing) and all six are caught:
  m1 asmlist.c: ListPC = ProgCounter() - CodeLen (phase ignored)        rows under PHASE rejected
  m2 asmlist.c: ListPC += 1 for every unit                              continuation rows (68000 word units)
  m3 asmsub.c: AddLineInfo(..., EProgCounter(), ...)                     MAP line:address under PHASE
  m4 asmpars.c: MAP symbol values printed in radix 10                    SYM(map) events
  m5 asmdebug.c: NoICE LINE offsets not relative to FILE start           MAPLINE events
  m6 asmlist.c: byte tail switch `>=` instead of `>`                     last word of a line listed as bytes
./check C19 --selftest shows the binding on a small program (changed listed byte / continuation address / share
value / MAP address / code-file byte are each rejected).

Extension "reports" (checks/ext_reports.py, spec/ListingReports*.tla, vlib/listreports.py; details in the docstring of
checks/ext_reports.py): the report sections behind the source listing - usage list (-u) = occupied addresses = image
of the code file, warning 90 <=> a statement meets an occupied address, cross reference list (-C) = look-ups per
symbol / file / line with counts and definition site, section list (-s) = the nesting tree, macro / function /
register symbol lists, include nesting list (-I, drift only), page layout of PAGE (line width, lines per page).
(M) ListingReports_MC: four bounded machines (usage with the CodeWriter model attached, xref, sections, pages),
quick 27 k / thorough ~4 M states, plus two configurations TLC must refute (deviations of chunks.c DeleteChunk and
WrLstLine); (G) ListingReports_Gen: simulated programs of 10 statements (overlaps by ORG backwards, two segments,
symbols looked up 0..3 times per line, macro, function, nested include files, sections two deep) with expected
reports, rendered for 8051 and 320C25, assembled with `page 0` and `page L,W`; (V) ListingReports_Trace: hook
records of all passes replayed through the same operators, every tokenised report item judged by TLC; golden
sources with -L -C -u -s -I -listradix 16/8/10/2 (quick 40 small ones, thorough all below 120 k hook records).
Findings: known_findings/C19-reports.json (DeleteChunk after RetractWords - t_7720 lists 41-7A for code at 0-7A;
PAGE 0,w ignores the width).  Mutations r1..r5 tried: see checks/ext_reports.py.
"""
import os
import shutil
import tempfile

from vlib import aslrun, build, codefile, listing, listmodes, tlc
from vlib.common import CheckError, NCPU, Phase, REPO, log, rng, run, scratch, seed
from vlib.report import Report

PID = "C19"
SRCLINES_MODULES = ["SrcLines", "SrcLines_MC", "SrcLines_Gen", "SrcLines_Trace"]      # run by checks/ext_srclines.py
PENDLABEL_MODULES = ["PendLabel", "PendLabel_MC", "PendLabel_Gen", "PendLabel_Trace"]  # run by checks/ext_pendlabel.py
RADICES = [16, 2, 8, 10, 36]
SHARES = [("c", "-c", ".h"), ("pas", "-p", ".inc"), ("asm", "-a", ".inc")]
DEBUGS = [("MAP", ".map"), ("NOICE", ".noi"), ("ATMEL", ".obj")]
EVENTS = "file,emit,sym,stmt"      # stmt: one record per processed line (which row stands for which line: listmodes.row_events)

DIALECTS = {
    "z80": {"tgt": (1, 1), "cpu": "z80", "data": "db", "res": "ds", "unit": 1, "seg2": None, "big": False},
    "8051": {"tgt": (1, 1), "cpu": "8051", "data": "db", "res": "ds", "unit": 1, "seg2": ("xdata", 4), "big": True},
    "68000": {"tgt": (1, 2), "cpu": "68000", "data": "dc.b", "res": "ds.b", "unit": 1, "seg2": None, "big": True},
    "320c25": {"tgt": (2, 2), "cpu": "320c25", "data": "word", "res": "res", "unit": 2, "seg2": ("data", 2),
               "big": False},
}


def val(sp):
    return sp[0] * (1 << 24) + sp[1]


# ---------------------------------------------------------------------------------------------------
# rendering of a Listing_Gen behaviour
# ---------------------------------------------------------------------------------------------------
def render(beh, dname, r, share):
    """-> (sources, meta) ; meta: per step the (file depth, line number) its rows appear under, label names"""
    d = DIALECTS[dname]
    lines = ["\tcpu\t%s" % d["cpu"]]
    names = []
    steps = beh["steps"]
    for i, st in enumerate(steps, 1):
        if st["k"] in ("data", "res"):
            names.append("L%d" % i)
    consts = {"EQA": 4660, "EQB": 7, "EQC": 65535}
    if share:
        lines.append("\tshared\t%s" % ",".join(names + sorted(consts)))
    for k in sorted(consts):
        lines.append("%s\tequ\t%d" % (k, consts[k]))
    sources = {}
    meta = []
    wordbig = None
    for i, st in enumerate(steps, 1):
        k = st["k"]
        if k == "data":
            bs = st["e"]["bytes"]
            if d["unit"] == 2:
                vals = [str(bs[j] * 256 + bs[j + 1] if d["big"] else bs[j] + 256 * bs[j + 1])
                        for j in range(0, len(bs), 2)]          # bytes as the file holds them -> word values
            else:
                vals = [str(b) for b in bs]
            stmt = "%s\t%s" % (d["data"], ",".join(vals))
            how = r.choice(["plain", "plain", "macro", "include"])
            if how == "plain":
                lines.append("L%d:\t%s" % (i, stmt))
                meta.append({"step": i, "inc": 0, "line": len(lines), "label": "L%d" % i})
            elif how == "macro":
                lines.append("M%d\tmacro" % i)
                lines.append("\t" + stmt)
                lines.append("\tendm")
                lines.append("L%d:\tM%d" % (i, i))
                meta.append({"step": i, "inc": 0, "line": len(lines), "label": "L%d" % i})
            else:
                fn = "inc%d.inc" % i
                sources[fn] = "; include file\n" * (100 + i) + "L%d:\t%s\n" % (i, stmt)     # unique line numbers
                lines.append("\tinclude\t\"%s\"" % fn)
                meta.append({"step": i, "inc": 1, "line": 101 + i, "label": "L%d" % i})
        elif k == "res":
            cnt = st["len"] // d["unit"]
            lines.append("L%d:\t%s\t%d" % (i, d["res"], cnt))
            meta.append({"step": i, "inc": 0, "line": len(lines), "label": "L%d" % i})
        elif k == "org":
            lines.append("\torg\t%d" % val(st["a"]))
        elif k == "phase":
            lines.append("\tphase\t%d" % val(st["a"]))
        elif k == "dephase":
            lines.append("\tdephase")
        elif k == "segment":
            lines.append("\tsegment\t%s" % (d["seg2"][0] if st["seg"] == 2 else "code"))
    lines.append("\tend")
    sources["a.asm"] = "\n".join(lines) + "\n"
    return sources, meta


def usable(beh, dname):
    d = DIALECTS[dname]
    if (beh["tgt"]["gran"], beh["tgt"]["lgran"]) != d["tgt"]:
        return False
    if any(st["k"] == "segment" for st in beh["steps"]) and d["seg2"] is None:
        return False
    if d["seg2"] is None and beh.get("start"):
        pass
    return True


def initial_orgs(beh):
    """the model starts the segments at chosen counters: render them as ORG statements"""
    return beh


# ---------------------------------------------------------------------------------------------------
# one assembler run -> Listing_Trace events
# ---------------------------------------------------------------------------------------------------
def case_events(trace, files, base, radix, share_kind, debug_kind, pbytes, reading_radix=None):
    """events of one run; reading_radix: radix used to READ addresses and units of the rows (None = radix)"""
    rr = reading_radix or radix
    em = listing.emissions(trace)
    vals = listing.symbol_values(trace)
    pr = codefile.parse(pbytes) if pbytes is not None else None
    case = {"a": "CASE", "radix": radix, "W": listing.widths(radix),
            "emits": [{k: v for k, v in e.items() if not k.startswith("_")} for e in em],
            "recs": listing.records(pr) if pr is not None else [], "syms": vals if vals else {"_": "0"}}
    ev = [case]
    stats = {"rows": 0, "code_rows": 0, "syms": 0, "maplines": 0, "emits": len(em), "aligned": 0, "withheld": 0}
    lst = files.get(base + ".lst")
    if lst is not None:
        rows, lsyms = listing.parse_listing(lst.decode("latin-1"), radix)
        if rr != radix:
            rows2, _ = listing.parse_listing(lst.decode("latin-1"), rr)
            # column widths follow the requested radix, the digits are read in the other one
            rows = _reread(lst.decode("latin-1"), radix, rr)
        stats["rows"] = len(rows)
        stats["code_rows"] = sum(1 for x in rows if x["units"])
        rev, stats["aligned"] = listmodes.row_events(rows, em, listmodes.statements(trace))
        stats["withheld"] = sum(1 for x in rev if x["a"] == "ROW" and not x["units"] and x["at"])
        ev += rev
        for (n, sect, vtxt, seg, used) in lsyms:
            if sect is not None or n.upper() not in vals or seg == "B" or vtxt.startswith('"'):
                continue                  # section-local, no integer, bit symbol (printed by DissectBit), string
            neg = vtxt.startswith("-")
            v = listing.parse_int(vtxt.lstrip("-"), radix)
            ev.append({"a": "SYM", "src": "lst", "name": n.upper(), "fmt": "",
                       "val": listing.canon(-v if neg else v) if v is not None else "?"})
            stats["syms"] += 1
    ev.append({"a": "EMITS"})
    emidx = {}
    for i, e in enumerate(em):
        if e["k"] in ("emit", "reserve"):
            emidx.setdefault((e["seg"], e["line"], e["_addr"]), i + 1)
    byline = {}
    for i, e in enumerate(em):
        if e["k"] in ("emit", "reserve"):
            byline.setdefault((e["seg"], e["line"] & 0xFFFF), []).append(i)
    if debug_kind == "MAP" and files.get(base + ".map") is not None:
        ml, ms = listing.parse_map(files[base + ".map"].decode("latin-1"))
        for (segn, fil, ln, addr) in ml:
            seg = listing.SEGNAMES.index(segn) if segn in listing.SEGNAMES else -1
            ev.append({"a": "MAPLINE", "seg": seg, "line": ln, "addr": listing.split24(addr),
                       "at": emidx.get((seg, ln, addr)) or _any_of_line(em, seg, ln)})
            stats["maplines"] += 1
        for (n, sect, typ, vtxt, segn) in ms:
            if sect is None and typ == "Int" and n.upper() in vals:
                v = listing.parse_int(vtxt.lstrip("-"), 16)
                ev.append({"a": "SYM", "src": "map", "name": n.upper(), "fmt": "",
                           "val": listing.canon(-v if vtxt.startswith("-") else v) if v is not None else "?"})
                stats["syms"] += 1
    if debug_kind == "NOICE" and files.get(base + ".noi") is not None:
        defs, nl = listing.parse_noice(files[base + ".noi"].decode("latin-1"))
        for (n, v) in defs:
            if n.upper() in vals:
                ev.append({"a": "SYM", "src": "noi", "name": n.upper(), "fmt": "", "val": listing.canon(v)})
                stats["syms"] += 1
        for (fil, ln, addr) in nl:
            ev.append({"a": "MAPLINE", "seg": 1, "line": ln, "addr": listing.split24(addr),
                       "at": emidx.get((1, ln, addr)) or _any_of_line(em, 1, ln)})
            stats["maplines"] += 1
    if debug_kind == "ATMEL" and files.get(base + ".obj") is not None:
        recs, names = listing.parse_atmel(files[base + ".obj"])
        for (addr, code, fi, ln, inmac) in recs or []:
            at = 0
            for i in byline.get((1, ln), []):
                e = em[i]
                if e["_addr"] <= addr < e["_addr"] + e["units"]:
                    at = i + 1
                    break
            if at == 0 and byline.get((1, ln)):
                at = byline[(1, ln)][0] + 1
            ev.append({"a": "OBJLINE", "seg": 1, "line": ln & 0xFFFF, "addr": listing.split24(addr), "at": at})
            stats["maplines"] += 1
    if share_kind:
        for ext in (".h", ".inc"):
            sh = files.get(base + ext)
            if sh is None:
                continue
            for (n, vtxt) in listing.parse_share(sh.decode("latin-1"), share_kind):
                if n.upper() in vals:
                    v, fmt = listing.parse_intconst(vtxt)
                    ev.append({"a": "SYM", "src": "share-" + share_kind, "name": n.upper(), "fmt": fmt,
                               "val": listing.canon(v) if v is not None else "?"})
                    stats["syms"] += 1
    return ev, stats


def _any_of_line(em, seg, ln):
    for i, e in enumerate(em):
        if e["k"] in ("emit", "reserve") and e["seg"] == seg and e["line"] == ln:
            return i + 1
    return 0


def _reread(text, radix, rr):
    """rows tokenised with the column widths of `radix` but digits read in radix rr"""
    rows, _ = listing.parse_listing(text, radix)
    W = listing.widths(radix)
    digs = {1: W["w1"], 2: W["w2"], 4: W["w4"]}
    out = []
    # re-tokenise: parse_listing keeps addr_text; units need the raw tokens, so parse again with a patched reader
    import re
    rows_rr = []
    saved = listing.parse_int
    try:
        listing.parse_int = lambda tok, _r: saved(tok, rr)
        rows_rr, _ = listing.parse_listing(text, radix)
    finally:
        listing.parse_int = saved
    return rows_rr


# ---------------------------------------------------------------------------------------------------
def _run_generated(args):
    (bdir, hooks, flavour, sources, opts, wants) = args
    from vlib.build import Build
    b = Build(bdir, flavour, hooks)
    r = aslrun.assemble(b, sources, opts=opts, events=EVENTS, want=wants)
    return {"rc": r.rc, "msg": (r.out + r.err)[-400:], "p": r.p, "files": r.files,
            "trace": listmodes.compact(r.trace) if r.trace is not None else None}


def _run_corpus(args):
    (bdir, hooks, flavour, t, opts, exts) = args
    from vlib.build import Build
    b = Build(bdir, flavour, hooks)
    name, tdir, asm, flags = t
    d = tempfile.mkdtemp(prefix="l-", dir=scratch())
    try:
        for f in os.listdir(tdir):
            try:
                if f == name + ".asm":
                    shutil.copy(os.path.join(tdir, f), os.path.join(d, f))
                else:
                    os.symlink(os.path.join(tdir, f), os.path.join(d, f))
            except OSError:
                pass
        e = b.env(None)
        tr = os.path.join(d, "trace.ndjson")
        e["ASL_VERIF_TRACE"] = tr
        e["ASL_VERIF_EVENTS"] = EVENTS
        pfile = os.path.join(d, name + ".p")
        cmd = [b.tool("asl")] + [f for f in flags if f not in ("-c", "-p", "-a")] + ["-q", "-i", aslrun.INCLUDE] + opts + \
              [os.path.join(d, name + ".asm"), "-o", pfile, "-olist", os.path.join(d, name + ".lst")]
        rc, o, er, to = run(cmd, cwd=d, env=e, timeout=180)
        files = {}
        for ext in exts:
            p = os.path.join(d, name + ext)
            if os.path.exists(p) and not os.path.islink(p):
                with open(p, "rb") as fh:
                    files[name + ext] = fh.read()
        pb = None
        if os.path.exists(pfile):
            with open(pfile, "rb") as fh:
                pb = fh.read()
        trace = listmodes.compact(aslrun.read_trace(tr)) if os.path.exists(tr) else None
        return {"rc": rc, "msg": (o + er)[-400:], "p": pb, "files": files, "trace": trace}
    finally:
        shutil.rmtree(d, ignore_errors=True)


def judge(cases, timeout=1700):
    """cases: list of event lists (each starting with a CASE event).  One TLC run; returns (bad, tlcresult):
    bad = {case index: index of the first event of that case the specification does not allow}"""
    flat = []
    owner = []
    for ci, ev in enumerate(cases):
        flat.append({"a": "RESET"})
        owner.append((ci, -1))
        for k, e in enumerate(ev):
            flat.append(e)
            owner.append((ci, k))
    fd, path = tempfile.mkstemp(prefix="ltrace-", suffix=".ndjson", dir=scratch())
    os.close(fd)
    tlc.write_ndjson(flat, path)
    r = tlc.run("Listing_Trace", "Listing_Trace.cfg", workers=1, env={"TRACE": path}, mem="10g", timeout=timeout,
                keep_out=True)
    os.unlink(path)
    if r.error or r.violation:
        raise CheckError("Listing_Trace did not run to the end: %s" % (r.error or r.violation or "")[:600])
    outs = [v for (tag, v) in r.printed if tag == "OUT"]
    if not outs or outs[-1].get("n") != len(flat):
        raise CheckError("Listing_Trace printed no verdict: %s" % r.out[-600:])
    bad = {}
    for l in outs[-1]["bad"]:
        ci, k = owner[l - 1]
        bad.setdefault(ci, []).append(k)
    return bad, r


def describe(ev, k):
    e = ev[k]
    if e["a"] == "ROW" and not e["units"]:
        ctx = ev[0]["emits"][e["at"] - 1] if e.get("at") else None
        return "listing row line=%s addr=%s shows no code, but stands for a line that produced code: emission %s" % (
            e["line"], e["addr"], {k2: ctx[k2] for k2 in ("line", "seg", "gran", "addr", "ph", "bytes")} if ctx else None)
    if e["a"] == "ROW":
        ctx = ev[0]["emits"][e["at"] - 1] if e.get("at") else None
        return "listing row line=%s addr=%s units=%s (%s) vs emission %s" % (
            e["line"], e["addr"], [u["shown"] for u in e["units"]], "continuation" if e["cont"] else "first row",
            {k2: ctx[k2] for k2 in ("line", "seg", "gran", "addr", "ph", "bytes")} if ctx else None)
    if e["a"] == "SYM":
        return "symbol %s reported as %s by %s, assembler holds %s" % (e["name"], e["val"], e["src"],
                                                                      ev[0]["syms"].get(e["name"]))
    return "%s" % {k2: v for k2, v in e.items()}


def main(tier):
    rep = Report(PID, tier)
    quick = tier == "quick"
    bld = build.get("hook")
    if not bld.hooks:
        raise CheckError("C19 needs the emission trace of the hooked build (emit/reserve/retract, sym events)")
    rep.assumptions += ["the emission trace (hook) is a faithful witness of what WriteBytes() stores; EMITS events tie it to the parsed code file",
                        "tokenisers of listing / MAP / NoICE / Atmel / share files (vlib/listing.py) are trusted; TLC judges",
                        "page layout, titles, cross reference and usage lists, float/string/section-local/bit symbols are not judged",
                        "line origins (%s): the line a report may name is judged against the program text for TLC-generated "
                        "programs only (golden sources: against the hook's emission records); tokenisers of vlib/srclines.py are "
                        "trusted" % ", ".join(SRCLINES_MODULES)]
    # (M) -------------------------------------------------------------------------------------------
    import concurrent.futures as cf
    # dimension "listing modes" (ListingModes*.tla): its three TLC runs go on beside Listing_MC
    mcfg = "ListingModes_MC.cfg" if quick else "ListingModes_MC_full.cfg"
    modes_pool = cf.ThreadPoolExecutor(max_workers=3)
    f_mmc = modes_pool.submit(tlc.run, "ListingModes_MC", mcfg, workers=2 if quick else 4, timeout=1700, mem="6g", collect=False)
    f_mst = modes_pool.submit(tlc.run, "ListingModes_MC", "ListingModes_MC_stale.cfg", workers=1, timeout=600, mem="3g",
                              collect=False)
    f_mgen = modes_pool.submit(tlc.run, "ListingModes_Gen", "ListingModes_Gen.cfg", workers=2, simulate=60 if quick else 500,
                               depth=400, timeout=1200, mem="4g")
    from checks import ext_srclines         # dimension "line origins" (SrcLines*.tla): its TLC runs go on beside these, too
    src_h = ext_srclines.start(tier)
    from checks import ext_pendlabel        # dimension "pending label" (PendLabel*.tla): likewise
    pend_h = ext_pendlabel.start(tier)
    cfg = "Listing_MC.cfg" if quick else "Listing_MC4.cfg"
    with Phase("TLC Listing_MC %s (+ ListingModes_MC %s, _stale, ListingModes_Gen)" % (cfg, mcfg)):
        mc = tlc.must(tlc.run("Listing_MC", cfg, workers=min(NCPU, 8), timeout=1700, mem="12g", collect=False), "Listing_MC")
        mmc = tlc.must(f_mmc.result(), "ListingModes_MC")
        mst = tlc.must(f_mst.result(), "ListingModes_MC(stale)")
        mgen = tlc.must(f_mgen.result(), "ListingModes_Gen")
        modes_pool.shutdown()
    if mc.violation:
        raise CheckError("Listing_MC: the listing model violates its invariants: %s" % mc.violation[:900])
    rep.model("Listing_MC(%s)" % cfg, mc)
    if mmc.violation:
        raise CheckError("ListingModes_MC: the listing-mode model violates its invariants: %s" % mmc.violation[:900])
    rep.model("ListingModes_MC(%s)" % mcfg, mmc)
    if not mst.violation:
        rep.drift("ListingModes_MC_stale: a ListLine that is not reset per line is not refuted any more (model out of date)")
    rep.model("ListingModes_MC(stale, refuted)", mst)
    # (G) -------------------------------------------------------------------------------------------
    nsim = 40 if quick else 600
    gen = tlc.must(tlc.run("Listing_Gen", "Listing_Gen.cfg", workers=2, simulate=nsim, depth=12, timeout=600, mem="6g"),
                   "Listing_Gen")
    rep.model("Listing_Gen", gen)
    behs = []
    seen = set()
    for (tag, bh) in gen.printed:
        if tag == "BEH":
            k = repr(bh)
            if k not in seen and any(st["k"] == "data" for st in bh["steps"]):
                seen.add(k)
                behs.append(bh)
    r = rng("c19")
    r.shuffle(behs)
    behs = behs[:(60 if quick else 1500)]
    jobs = []
    metas = []
    scratch()
    for bi, bh in enumerate(behs):
        dnames = [dn for dn in DIALECTS if usable(bh, dn)]
        if not dnames:
            continue
        dn = dnames[bi % len(dnames)]
        radix = bh["radix"]
        sh = SHARES[bi % 3]
        dbg = DEBUGS[bi % 3] if not (dn != "z80" and DEBUGS[bi % 3][0] == "ATMEL") else DEBUGS[0]
        rr = rng("c19/%d" % bi)
        sources, meta = render(bh, dn, rr, True)
        opts = ["-q", "-L", "-listradix", str(radix), "-g", dbg[0], sh[1]]
        jobs.append((bld.dir, bld.hooks, bld.flavour, sources, opts, ["a.lst", "a" + dbg[1], "a" + sh[2]]))
        metas.append({"kind": "generated", "beh": bh, "dialect": dn, "radix": radix, "share": sh[0], "debug": dbg[0],
                      "meta": meta, "sources": sources, "base": "a", "name": "gen%d/%s" % (bi, dn)})
    # programs of the dimension "listing modes": LISTING / MACEXP_DFT / MACEXP_OVR / MACEXP / SAVE / RESTORE, control
    # parameters of macros, IF constructs, macro calls and REPT; those in which a hidden statement leaves an extra
    # text in front of a listed code line (`hot`, computed by the specification) come first
    rep.model("ListingModes_Gen", mgen)
    mbehs = []
    seen = set()
    for (tag, bh) in mgen.printed:
        if tag == "BEH":
            k = repr(bh["prog"]) + repr(bh["tgt"]) + str(bh["radix"])
            if k not in seen and any(st["len"] > 0 for st in bh["steps"]):
                seen.add(k)
                mbehs.append(bh)
    if not mbehs:
        raise CheckError("ListingModes_Gen exported no program")
    rng("c19/modes").shuffle(mbehs)
    nmodes = 40 if quick else 1000
    hot = [bh for bh in mbehs if bh["hot"] > 0][:(nmodes * 3) // 5]
    mbehs = hot + [bh for bh in mbehs if bh["hot"] == 0][:nmodes - len(hot)]
    for bi, bh in enumerate(mbehs):
        dnames = [dn for dn in DIALECTS if DIALECTS[dn]["tgt"] == (bh["tgt"]["gran"], bh["tgt"]["lgran"])]
        dn = dnames[bi % len(dnames)]
        radix = bh["radix"]
        sh = SHARES[bi % 3]
        dbg = DEBUGS[bi % 3] if not (dn != "z80" and DEBUGS[bi % 3][0] == "ATMEL") else DEBUGS[0]
        sources = {"a.asm": listmodes.render(bh, DIALECTS[dn])}
        opts = ["-q", "-L", "-listradix", str(radix), "-g", dbg[0], sh[1]]
        jobs.append((bld.dir, bld.hooks, bld.flavour, sources, opts, ["a.lst", "a" + dbg[1], "a" + sh[2]]))
        metas.append({"kind": "generated", "sub": "modes", "beh": bh, "dialect": dn, "radix": radix, "share": sh[0],
                      "debug": dbg[0], "sources": sources, "base": "a", "name": "modes%d/%s" % (bi, dn)})
    # programs of the dimension "line origins": INCLUDE / macro calls / REPT / IRP / IRPC / WHILE nested in each other; the
    # source line the reports may name for a piece of code is computed from the program text (SrcLines.tla Expected)
    for (sources, opts, wants, meta) in ext_srclines.jobs(ext_srclines.models(rep, src_h, tier), DEBUGS, RADICES):
        jobs.append((bld.dir, bld.hooks, bld.flavour, sources, opts, wants))
        metas.append(meta)
    # programs of the dimension "pending label": a label alone on its line x the statements between it and the statement
    # that gets padded x that statement, on 68000 and MSP430; all runs are judged by PendLabel_Trace (code file as the
    # witness of the final values), one run per program also by Listing_Trace
    for (sources, opts, wants, meta) in ext_pendlabel.jobs(ext_pendlabel.models(rep, pend_h, tier), tier):
        jobs.append((bld.dir, bld.hooks, bld.flavour, sources, opts, wants))
        metas.append(meta)
    with Phase("assemble %d generated programs" % len(jobs)):
        with cf.ProcessPoolExecutor(max_workers=NCPU) as ex:
            gres = list(ex.map(_run_generated, jobs, chunksize=4))
    # corpus ------------------------------------------------------------------------------------------
    tests = aslrun.corpus()
    if quick:
        tests = r.sample(tests, 45)
    cjobs = []
    cmeta = []
    for ti, t in enumerate(tests):
        radix = RADICES[ti % 5] if (ti % 3 == 0) else 16
        dbg = DEBUGS[ti % 2] if ti % 7 else DEBUGS[2]
        sh = SHARES[ti % 3]
        opts = ["-L", "-listradix", str(radix), "-g", dbg[0], sh[1], "-shareout", t[0] + sh[2]]
        cjobs.append((bld.dir, bld.hooks, bld.flavour, t, opts, [".lst", dbg[1], sh[2]]))
        cmeta.append({"kind": "corpus", "radix": radix, "share": sh[0], "debug": dbg[0], "base": t[0], "name": t[0]})
    with Phase("assemble %d golden sources with reports" % len(cjobs)):
        with cf.ProcessPoolExecutor(max_workers=NCPU) as ex:
            cres = list(ex.map(_run_corpus, cjobs, chunksize=1))
    # events ------------------------------------------------------------------------------------------
    cases = []
    infos = []
    pend_runs = []
    ph_ev = Phase("tokenise reports, build events")
    ph_ev.__enter__()
    for m, res in list(zip(metas, gres)) + list(zip(cmeta, cres)):
        rep.evaluated()
        if res["rc"] != 0 or res["trace"] is None:
            if m["kind"] == "generated":
                rep.drift("generated program %s not accepted by the assembler (rc=%s): %s" % (m["name"], res["rc"], res["msg"][-200:]))
            else:
                rep.drift("golden source %s with report options: rc=%s %s" % (m["name"], res["rc"], res["msg"][-200:]))
            continue
        if m.get("sub") == "pendlabel":
            pend_runs.append((m, res))
            if not m["full"]:                 # judged by PendLabel_Trace only
                rep.distinct((m["name"], m["radix"], m["share"], m["debug"]), True)
                continue
        ev, stats = case_events(res["trace"], res["files"], m["base"], m["radix"], m["share"], m["debug"], res["p"])
        m["stats"] = stats
        cases.append(ev)
        infos.append((m, res))
        rep.distinct((m["name"], m["radix"], m["share"], m["debug"]), stats["code_rows"] > 0)
    ph_ev.__exit__(None, None, None)
    src_j = ext_srclines.start_judge([(m, res) for (m, res) in infos if m.get("sub") == "srclines"])   # beside Listing_Trace
    pend_j = ext_pendlabel.start_judge(pend_runs)                                                      # likewise
    with Phase("Listing_Trace: %d runs, %d events (+ SrcLines_Trace: %d runs, PendLabel_Trace: %d runs)" % (
            len(cases), sum(map(len, cases)), len(src_j["cases"]), len(pend_j["cases"]))):
        bad, tr = judge(cases)
        ext_srclines.finish(rep, src_j)
        ext_pendlabel.finish(rep, pend_j)
    rep.cov["states"] += tr.distinct
    rep.cov["transitions"] += tr.generated
    rep.traces(len(cases))
    # classification of rejections ----------------------------------------------------------------------
    again = []
    for ci in sorted(bad):
        m, res = infos[ci]
        if m["radix"] != 16 and any(cases[ci][k]["a"] == "ROW" and cases[ci][k]["units"] for k in bad[ci]):
            ev2, _ = case_events(res["trace"], res["files"], m["base"], m["radix"], m["share"], m["debug"], res["p"],
                                 reading_radix=16)
            again.append((ci, ev2))
    hexread_ok = set()
    hexread_bad = {}
    if again:
        with Phase("Listing_Trace: re-reading %d rejected listings with hexadecimal digits" % len(again)):
            bad2, tr2 = judge([ev2 for (ci, ev2) in again])
        rep.cov["states"] += tr2.distinct
        rep.cov["transitions"] += tr2.generated
        for k, (ci, ev2) in enumerate(again):
            rowbad = [j for j in bad2.get(k, []) if ev2[j]["a"] == "ROW" and ev2[j]["units"]]
            if not rowbad:
                hexread_ok.add(ci)
            else:
                hexread_bad[ci] = (ev2, rowbad[0])
    nrej = 0
    for ci in sorted(bad):
        m, res = infos[ci]
        reported = {}
        for k in bad[ci]:
            e = cases[ci][k]
            dev = "none"
            if e["a"] == "ROW" and not e["units"]:
                dev = "text-for-code"                       # Listing_Trace Withheld
            elif e["a"] == "ROW" and ci in hexread_ok:
                dev = "listradix-ignored"
            if e["a"] in ("MAPLINE", "OBJLINE"):
                # which statement is it?  (classification only: the listing's copy of the source line)
                lst = res["files"].get(m["base"] + ".lst")
                rows, _ = listing.parse_listing(lst.decode("latin-1"), m["radix"]) if lst else ([], None)
                srcs = [x["src"] for x in rows if x["line"] == e["line"] and not x["cont"]]
                import re as _re
                if any(_re.search(r"(^|\s)align\s", x, _re.I) for x in srcs):     # (line numbers repeat in include files)
                    dev = "align-without-code"
            if reported.get((e["a"], dev), 0) >= 2:
                continue                                    # two examples per kind and run are enough
            reported[(e["a"], dev)] = reported.get((e["a"], dev), 0) + 1
            nrej += 1
            what = "%s (radix %d, -g %s, share %s): %s" % (m["name"], m["radix"], m["debug"], m["share"],
                                                          describe(cases[ci], k))
            if dev == "listradix-ignored":
                what += "  [the listing is right when its digits are read as hexadecimal]"
            elif e["a"] == "ROW" and e["units"] and ci in hexread_bad:
                ev2, k2 = hexread_bad[ci]
                what = "%s (radix %d, -g %s, share %s): even with its digits read as hexadecimal: %s" % (
                    m["name"], m["radix"], m["debug"], m["share"], describe(ev2, k2))
                e = ev2[k2]
            files = {}
            for fn, data in res["files"].items():
                files[os.path.basename(fn)] = data
            if m["kind"] == "generated":
                for fn, txt in m["sources"].items():
                    files[fn] = txt
            rep.violation(what, case={"name": m["name"], "kind": m["kind"], "radix": m["radix"], "share": m["share"],
                                      "debug": m["debug"], "event": {k2: v for k2, v in e.items()}},
                          files=files, key={"event": e["a"], "deviation": dev})
    # model expectation for generated programs (diagnostic) ----------------------------------------------
    ndrift = 0
    mdrift = {}
    for ci, (m, res) in enumerate(infos):
        if m.get("sub") == "modes":
            # which lines the listing holds / what their code column holds, as ListingModes_Gen expects it
            lst = res["files"].get("a.lst")
            d = listmodes.expectation_diff(m["beh"], listing.parse_listing(lst.decode("latin-1"), m["radix"])[0],
                                           m["radix"]) if lst is not None else None
            if d:
                mdrift[d[0]] = mdrift.get(d[0], 0) + 1
                if mdrift[d[0]] <= 3:
                    rep.drift("generated program %s (listing modes): %s" % (m["name"], d[1]))
            continue
        if m["kind"] != "generated" or ci in bad or m.get("sub") in ("srclines", "pendlabel"):
            continue
        d = expectation_diff(m, res)
        if d and ndrift < 5:
            ndrift += 1
            rep.drift("generated program %s: listing differs from MakeListRows' prediction: %s" % (m["name"], d))
    for (m, res) in infos[:2] + infos[-2:]:
        rep.sample({"run": m["name"], "radix": m["radix"], "share": m["share"], "debug": m["debug"], "stats": m.get("stats")})
    rep.part("reports", runs=len(cases), generated=sum(1 for (m, _) in infos if m["kind"] == "generated"),
             corpus=sum(1 for (m, _) in infos if m["kind"] == "corpus"),
             rows=sum(m["stats"]["rows"] for (m, _) in infos), code_rows=sum(m["stats"]["code_rows"] for (m, _) in infos),
             symbol_reports=sum(m["stats"]["syms"] for (m, _) in infos),
             line_address_entries=sum(m["stats"]["maplines"] for (m, _) in infos),
             emissions=sum(m["stats"]["emits"] for (m, _) in infos), rejected_runs=len(bad),
             first_rows_aligned_with_statements=sum(m["stats"]["aligned"] for (m, _) in infos))
    rep.part("listing_modes", programs=sum(1 for (m, _) in infos if m.get("sub") == "modes"),
             hot_programs=sum(1 for (m, _) in infos if m.get("sub") == "modes" and m["beh"]["hot"] > 0),
             processed_lines=sum(len(m["beh"]["steps"]) for (m, _) in infos if m.get("sub") == "modes"),
             lines_kept_out_of_the_listing=sum(sum(1 for st in m["beh"]["steps"] if not st["listed"])
                                               for (m, _) in infos if m.get("sub") == "modes"),
             programs_differing_from_expectation=dict(mdrift))
    from checks import ext_reports          # phase "reports": usage / cross reference / section ... lists, page layout
    ext_reports.run(rep, bld, tier)
    return rep.finish(
        rule="runs = TLC-simulated programs of the Listing core (<= 9 statements, <= 13 bytes per line) rendered in 4 "
             "dialects + TLC-simulated programs of ListingModes (14 top-level statements: LISTING x MACEXP_DFT/_OVR/MACEXP x "
             "SAVE/RESTORE x macro control parameters x IF constructs x macro calls / REPT) + TLC-generated programs of SrcLines "
             "(INCLUDE x macro call x REPT / IRP / IRPC / WHILE nested two deep, two include files, two macros; line named by "
             "MAP / NoICE / Atmel / listing judged against the program text) + TLC-enumerated programs of PendLabel (label alone "
             "on its line at an even / odd address x <= 2 intervening statements of 11 kinds x following statement, 68000 / "
             "MSP430, share -c / -p / -a; reported values judged against the words of the code file) + golden sources (quick: 45 seed-chosen, thorough: all 201), each assembled with -L -listradix "
             "{2,8,10,16,36} x -g {MAP,NOICE,ATMEL} x share {-c,-p,-a} (round robin); distinct = (program, radix, share, "
             "debug); non-trivial = the listing has code-bearing rows", exhaustive=False)


def expectation_diff(m, res):
    """compare the rows TLC predicted (MakeListRows) with the tokenised listing of a generated program"""
    lst = res["files"].get("a.lst")
    if lst is None:
        return None
    rows, _ = listing.parse_listing(lst.decode("latin-1"), 16)     # column shapes only: widths differ per radix
    W = listing.widths(m["radix"])
    rows, _ = listing.parse_listing(lst.decode("latin-1"), m["radix"])
    if m["dialect"] == "68000":
        return None                                   # padding rows are not part of the model's prediction
    steps = m["beh"]["steps"]
    for mt in m["meta"]:
        st = steps[mt["step"] - 1]
        if st["k"] != "data":
            continue
        got = [x for x in rows if x["line"] == mt["line"] and x["inc"] == mt["inc"] and x["units"]]
        exp = [x for x in st["rows"] if x["units"]]
        if [len(x["units"]) for x in got] != [len(x["units"]) for x in exp]:
            return "step %d: units per row %s, predicted %s" % (mt["step"], [len(x["units"]) for x in got],
                                                               [len(x["units"]) for x in exp])
        if [x["addr"] for x in got] != [val(x["addr"]) for x in exp] and m["radix"] == 16:
            return "step %d: row addresses %s, predicted %s" % (mt["step"], [x["addr"] for x in got],
                                                                [val(x["addr"]) for x in exp])
    return None


def replay(path):
    import json
    v = json.load(open(os.path.join(path, "violation.json")))
    log("recorded: %s" % v["what"])
    log("files of the run (listing, debug file, share file, sources if generated) are in %s" % path)
    c = v["case"]
    if (v.get("key") or {}).get("phase") == "reports":
        from checks import ext_reports
        return ext_reports.replay(path, c)
    if (v.get("key") or {}).get("phase") == "pendlabel":
        from checks import ext_pendlabel
        return ext_pendlabel.replay(path, c)
    if (v.get("key") or {}).get("phase") == "srclines":
        from checks import ext_srclines
        return ext_srclines.replay(path, c)
    if c["kind"] == "generated":
        bld = build.get("hook")
        srcs = {}
        for f in os.listdir(path):
            if f.endswith(".asm") or f.endswith(".inc"):
                srcs[f] = open(os.path.join(path, f)).read()
        opts = ["-q", "-L", "-listradix", str(c["radix"]), "-g", c["debug"], dict((s[0], s[1]) for s in SHARES)[c["share"]]]
        r = aslrun.assemble(bld, srcs, opts=opts, events=EVENTS, want=["a.lst"])
        ev, _ = case_events(r.trace, r.files, "a", c["radix"], c["share"], c["debug"], r.p)
        bad, _ = judge([ev])
        log("replay: TLC %s the run%s" % ("rejects" if bad else "accepts", (": " + describe(ev, bad[0][0])) if bad else ""))
    return 0


def selftest(tier):
    """binding demonstration: a run that TLC accepts is rejected after one field of the observation is changed.
    (Source mutations: selftest/C19-m*.py with selftest/mutate_and_check.sh.)"""
    import copy
    bld = build.get("hook")
    src = {"a.asm": "\tcpu\t68000\nEQA\tequ\t4660\nL1:\tdc.b\t1,2,3,4,5,6,7,8,9\n\tphase\t32768\n"
                    "L2:\tdc.w\t258,772\n\tdephase\n\tshared\tL1,L2,EQA\n\tend\n"}
    r = aslrun.assemble(bld, src, opts=["-q", "-L", "-g", "MAP", "-c"], events=EVENTS, want=["a.lst", "a.map", "a.h"])
    ev, _ = case_events(r.trace, r.files, "a", 16, "c", "MAP", r.p)
    variants = {"unchanged": ev}

    def first(kind, pred=lambda e: True):
        return next(i for i, e in enumerate(ev) if e["a"] == kind and pred(e))
    v = copy.deepcopy(ev)
    i = first("ROW", lambda e: e["units"])
    v[i]["units"][0]["shown"][-1] ^= 1
    variants["listed byte changed"] = v
    v = copy.deepcopy(ev)
    i = first("ROW", lambda e: e["units"] and e["cont"])
    v[i]["addr"][1] += 1
    variants["continuation address changed"] = v
    v = copy.deepcopy(ev)
    i = first("SYM", lambda e: e["src"] == "share-c")
    v[i]["val"] = "1"
    variants["share value changed"] = v
    v = copy.deepcopy(ev)
    i = first("MAPLINE")
    v[i]["addr"][1] += 2
    variants["MAP address changed"] = v
    v = copy.deepcopy(ev)
    v[0]["recs"][0]["data"][3] ^= 255
    variants["code file byte changed"] = v
    v = copy.deepcopy(ev)
    i = first("ROW", lambda e: e["units"] and not e["cont"] and e["at"])
    v[i]["units"] = []                                   # an extra text in place of the code dump (at = the line's emission)
    variants["code of a listed line withheld"] = v
    names = list(variants)
    bad, _ = judge([variants[n] for n in names])
    ok = True
    for k, n in enumerate(names):
        rej = k in bad
        log("selftest %-32s %s" % (n, "rejected" if rej else "accepted"))
        ok = ok and (rej == (n != "unchanged"))
    log("selftest C19 binding: %s" % ("OK" if ok else "FAILED"))
    from checks import ext_pendlabel, ext_reports, ext_srclines
    ok = ext_srclines.selftest() and ok
    ok = ext_pendlabel.selftest() and ok
    ok = ext_reports.selftest() and ok
    return 0 if ok else 1
