"""C10 extension "dupres": reservations (and constants) written with the Intel-style data statements, PACKED into
address units larger than the element (spec/PackedRes.tla, PackedRes_MC.tla, PackedRes_Gen.tla).

Why: the generated reservations of c10.py are `DS n` / `RES n` with a unit count only.  The manual's other way to
reserve memory - `DB ?`, `DW ?,?`, `DB n DUP (?)`, DUP groups nested and mixed with single `?` - goes through the
fill-position arithmetic of intpseudo.c (tCurrCodeFill = full units + elements in the last unit; IncCodeFillBy,
SubCodeFill, MultCodeFill), which only matters where several elements share one address unit: DB/DN in the AVR and
KCPSM CODE segments (16 bit units), DN on every byte-addressed target, DN/DB/DW in 32 bit units.  A seeding agent
dropped the borrow of SubCodeFill (a DUP group of `?` that starts in the middle of a unit and ends earlier in a unit
than it started came out one unit too large, every label behind it read too high) and nothing of C10 noticed.

Dimension added: statement = mnemonic (element 4/8/16/32/64/80 bits) x argument list as a token sequence
(`?` | `n DUP (` | `)`, n in -1..5, nested up to 3 deep) x address unit of the active segment (8/16/32 bits) - hence
every position inside a unit at which a group can begin and end, counts <= 0 / 1 / > 1, elements larger than, equal to
and smaller than the unit - x "res"/"data" (constants take the Replicate path) - in programs that also switch between
segments of different unit size (AVR / KCPSM CODE 16, DATA 8) and use plain DS.
(M) PackedRes_MC.cfg: every token sequence of <= 6 tokens + closing parentheses (thorough _T: 9, depth 3), all six
    element sizes, units 8/16/32 (quick 38 k states, thorough 4.0 M): at EVERY token the packed position equals the flat
    element count (PackedIsFlat), a statement occupies the least number of whole units (AdvanceIsCeil), each segment's
    counter is the sum of its statements (CountersAreFlat); PackedRes_MC_seg.cfg: three statements with segment
    switches (14 k states); PackedRes_MC_noborrow / _nocarry / _emptygroup.cfg: one named deviation each of SubCodeFill,
    MultCodeFill, the DSFlag switch behind a group - TLC must refute every one.
(G) PackedRes_Gen_exh.cfg: EVERY reservation statement of that token space over DN/DB/DW with counts 0..3 for z80 (8),
    AVR CODE (16), KCPSM3 CODE (32): 4.4 k statements (thorough _exhT: 8 tokens, + DD, count -1, + KCPSM CODE 16 bit
    big-endian: 112 k); PackedRes_Gen_sim.cfg: simulated programs of 5 (thorough 8) statements, all element sizes,
    constants, segment switches, DS (quick ~450 programs).  Each is rendered (a label in front of and behind every
    statement; the single statements of the exhaustive run 24 to a source, each behind its own ORG), assembled, and the
    label values are compared with the addresses TLC printed: through a table of `dw label` in the code file (z80, AVR)
    or the sym_def hook events (KCPSM, KCPSM3: no room / no layout function for a table there).  For constants the
    occupied addresses of the code file are compared, too.
Verdict: 8 and 16 bit units (manual, "DN,DB,DW,DD,DQ, and DT": packing into bytes / 16 bit words, padding of the last
unit, a count <= 0 stores nothing: warning 270).  32 bit units (KCPSM3) are not described by the manual: SPEC-DRIFT.
Finding (known_findings/C10-structinst.json, C10-empty-dup-group-drops-statement; proposed_fixes/C10-empty-dup-group.diff):
`dw 3 dup (0 dup (?)), ?` - a group with a count > 0 whose body lays down nothing, in front of any element - makes
the whole statement vanish without a message.  The generator prints for every statement also what the specification
yields under that named deviation (cat / cnext, dev); only an observation that equals it is filed under the finding.
NOT covered: the VALUES of packed constants (C09's matter), DT in 32 bit units (2.5 units per element; the code reserves
2), mixing `?` and constants (an error), constants in 32 bit units (no layout function in the code: `db 1` in the KCPSM3
/ Mico8 CODE segment calls a NULL function pointer, `dd 1` there reports a float - the manual does not list these
targets for DB..DT, reported to the coordinator), strings as DB arguments, DUP counts that are forward references.
Mutations tried on scratch copies (quick tier, number of rejected sources): seeded change (SubCodeFill without borrow)
67; MultCodeFill without the carry into the full units 105; MultCodeFill remainder dropped 60; DecodeIntelDx without
the final padding 160; Replicate8_To_16 skipping the odd byte (constants only) 9; IncCodeFillBy `>=` -> `>` is not
observable (the surplus element is absorbed by the final padding / the next carry): equivalent, not caught.
"""
import concurrent.futures as cf

from vlib import aslrun, codefile, tlc
from vlib.common import CheckError, Phase, rng

BATCH = 24
DEVIATIONS = ("emptygroup", "noborrow", "nocarry")   # configurations of PackedRes_MC that TLC must refute

MNEMO = {4: "dn", 8: "db", 16: "dw", 32: "dd", 64: "dq", 80: "dt"}
VALUE = {4: ["9", "15", "3"], 8: ["165", "'A'", "0"], 16: ["4660", "65535"], 32: ["305419896", "1"], 64: ["7", "81985529216486895"],
         80: ["1.5", "2.0"]}
# target of the specification -> how it is written and observed; segno: segment number in the code file
DIAL = {
    "z80": dict(cpu="z80", segs={"code": "code"}, gran={"code": 1}, obs="table", table_at=30000, verdict=True),
    "avr": dict(cpu="atmega8", segs={"code": "code", "data": "data"}, gran={"code": 2, "data": 1}, obs="table", table_at=3500,
                verdict=True),
    "kcpsm": dict(cpu="kcpsm", segs={"code": "code", "data": "data"}, gran={"code": 2, "data": 1}, obs="hooks", verdict=True),
    "kcpsm3": dict(cpu="kcpsm3", segs={"code": "code", "data": "data"}, gran={"code": 4, "data": 1}, obs="hooks", verdict=False),
}


def spell(toks, kind, e, r):
    """token sequence of the specification -> argument text (spacing / case of DUP vary, nothing else)"""
    out, first = [], True
    for t in toks:
        if t == ")":
            out.append(")")
            first = False
            continue
        if not first:
            out.append(r.choice([",", ", ", " ,"]))
        if t == "?":
            out.append("?" if kind == "res" else r.choice(VALUE[e]))
            first = False
        else:
            out.append("%s %s%s(" % (t, r.choice(["dup", "DUP", "Dup"]), r.choice([" ", ""])))
            first = True
    return "".join(out)


def render(behs, r):
    """behaviours printed by PackedRes_Gen (all of one target) -> (source, [(label, expected value, value under the named
    deviation, statement)], expected occupied code addresses, the same under the named deviation).
    Each behaviour is a chapter of the source: its segments are set to the addresses of its INIT record, then its
    statements follow, a label in front of and behind each."""
    d = DIAL[behs[0][0]["tgt"]]
    lines = ["\tcpu %s" % d["cpu"]]
    labels, occupied, occupied_dev = [], set(), set()
    k = 0
    for beh in behs:
        init = beh[0]
        used = {init["seg"]} | {st["s"] for st in beh if st["k"] == "SEG"}
        for s in sorted(used):
            lines += ["\tsegment %s" % d["segs"][s], "\torg %d" % init[s]]
        lines.append("\tsegment %s" % d["segs"][init["seg"]])
        for st in beh[1:]:
            if st["k"] == "SEG":
                lines.append("\tsegment %s" % d["segs"][st["s"]])
                continue
            k += 1
            if st["k"] == "DS":
                lines.append("b%d:\tds %d" % (k, st["n"]))
            else:
                lines.append("b%d:\t%s %s" % (k, MNEMO[st["e"]], spell(st["toks"], st["kind"], st["e"], r)))
                if st["kind"] == "data":
                    occupied |= set(range(st["at"], st["next"]))
                    occupied_dev |= set(range(st["cat"], st["cnext"]))
            lines.append("e%d:" % k)
            labels += [("b%d" % k, st["at"], st["cat"], st), ("e%d" % k, st["next"], st["cnext"], st)]
    if d["obs"] == "table":
        lines += ["\tsegment code", "\torg %d" % d["table_at"]] + ["\tdw %s" % l[0] for l in labels]
    return "\n".join(lines) + "\n", labels, occupied, occupied_dev


def observe(d, res, labels):
    """-> ({label: value read}, occupied unit addresses of CODE outside the table or None)"""
    if d["obs"] == "hooks":
        got = {}
        for ev in res.trace or []:
            if ev.get("e") == "sym_def" and ev.get("pass", 0) >= 1:
                got[ev["name"].lower()] = ev.get("val")
        return {l[0]: got.get(l[0]) for l in labels}, None
    g = d["gran"]["code"]
    img = codefile.parse(res.p).image()
    units = {}
    for (seg, ba), bs in img.items():
        if seg == 1:
            units.setdefault(ba // g, {})[ba % g] = bs[-1]
    got = {}
    for i, n in enumerate(l[0] for l in labels):
        a = d["table_at"] + (i if g == 2 else 2 * i)
        try:
            got[n] = units[a][0] | (units[a][1] << 8) if g == 2 else units[a][0] | (units[a + 1][0] << 8)
        except KeyError:
            got[n] = None
    return got, {a for a in units if a < d["table_at"]}


def judge(d, tgt, res, labels, occupied, occupied_dev, sts):
    """-> (kind, text, deviation): kind "ok" | "crash" | "rejected" | "address"; deviation = "emptygroup" when the observation
    differs from the manual's reading but is exactly what the specification yields under that named deviation"""
    if res.timeout or res.sig is not None:
        return "crash", "dupres: assembler crashed/hung (rc=%s sig=%s)" % (res.rc, res.sig), ""
    if res.rc != 0 or (d["obs"] == "table" and res.p is None):
        return "rejected", "dupres: valid reservation / constant statements rejected (rc=%s): %s" % (res.rc, (res.out + res.err)[-300:]), ""
    got, occ = observe(d, res, labels)
    wrong = [(n, v, got[n]) for n, v, _, _ in labels if got[n] != v]
    if occ is not None and occ != occupied and not wrong:
        wrong = [("occupied", sorted(occupied - occ)[:6], sorted(occ - occupied)[:6])]
    if not wrong:
        return "ok", "", ""
    dev = ""
    if any(st.get("dev") for st in sts) and all(got[n] == c for n, _, c, _ in labels) and (occ is None or occ == occupied_dev):
        dev = "emptygroup"
    n0 = wrong[0][0]
    st = dict([(l[0], l[3]) for l in labels]).get(n0, {})
    return "address", ("dupres %s: label %s reads %s, the reservations / constants in front of it imply %s (statement %s %s, unit %s bits); "
                       "all differences (label, expected, read): %s"
                       % (tgt, n0, wrong[0][2], wrong[0][1], MNEMO.get(st.get("e")), " ".join(st.get("toks", [])), st.get("u"),
                          wrong[:8])), dev


def replay(path, case):
    """replay of a recorded violation of this phase (called from c10.replay): the stored source is assembled again and
    judged against the addresses TLC had printed for its statements"""
    import os
    from vlib import build
    from vlib.common import log
    bld = build.get("hook")
    g = case["programs"]
    d = DIAL[case["target"]]
    _, labels, occupied, occupied_dev = render(g, rng("c10/dupres/replay"))
    with open(os.path.join(path, "a.asm")) as f:
        src = f.read()
    res = aslrun.assemble(bld, {"a.asm": src}, opts=["-q"], events="sym" if d["obs"] == "hooks" else None)
    kind, what, dev = judge(d, case["target"], res, labels, occupied, occupied_dev,
                            [st for beh in g for st in beh if st["k"] == "ST"])
    log("replay: %s" % (what or "every label reads the address the specification implies on this tree"))
    if dev:
        log("replay: exactly the named deviation %s (known finding)" % dev)
    return 0 if kind == "ok" or not d["verdict"] else 1


def _tlc(job):
    name, module, cfg, kw = job
    return name, tlc.run(module, cfg, timeout=1500, **kw)


def run(rep, bld, tier):
    q = tier == "quick"
    nsim = 120 if q else 3000
    small = dict(workers=1, mem="2g", collect=False)
    jobs = [("mc", "PackedRes_MC", "PackedRes_MC.cfg" if q else "PackedRes_MC_T.cfg", dict(workers=1 if q else 4, mem="3g" if q else "8g", collect=False)),
            ("exh", "PackedRes_Gen", "PackedRes_Gen_exh.cfg" if q else "PackedRes_Gen_exhT.cfg", dict(workers=1 if q else 2, mem="3g" if q else "8g")),
            ("seg", "PackedRes_MC", "PackedRes_MC_seg.cfg", small),
            ("sim", "PackedRes_Gen", "PackedRes_Gen_sim.cfg" if q else "PackedRes_Gen_simT.cfg",
             dict(workers=1 if q else 2, mem="2g", simulate=nsim, depth=60 if q else 140)),
            ("emptygroup", "PackedRes_MC", "PackedRes_MC_emptygroup.cfg", small),
            ("noborrow", "PackedRes_MC", "PackedRes_MC_noborrow.cfg", small),
            ("nocarry", "PackedRes_MC", "PackedRes_MC_nocarry.cfg", small)]
    with Phase("dupres: TLC (%d runs)" % len(jobs)):
        with cf.ThreadPoolExecutor(max_workers=5 if q else 3) as ex:
            out = dict(ex.map(_tlc, jobs))
    for name in ("mc", "seg"):
        r = tlc.must(out[name], "PackedRes_MC(%s)" % name)
        if r.violation:
            raise CheckError("PackedRes violates its invariants (%s): %s" % (name, r.violation[:600]))
        rep.model("PackedRes_MC(%s)" % name, r)
    for name in DEVIATIONS:
        r = out[name]
        if r.error and not r.violation:
            raise CheckError("PackedRes_MC(%s): %s" % (name, r.error[:400]))
        if not r.violation:
            raise CheckError("PackedRes_MC(%s): the named deviation is not refuted by TLC" % name)
    behs = {}
    for name in ("exh", "sim"):
        g = tlc.must(out[name], "PackedRes_Gen(%s)" % name)
        if name == "exh":
            rep.model("PackedRes_Gen(exh)", g)
        else:
            rep.cov["transitions"] += g.generated
        for tag, beh in g.printed:
            if tag == "BEH" and any(st["k"] == "ST" for st in beh):
                behs.setdefault(repr(beh), (name, beh))
    behs = list(behs.values())
    r = rng("c10/dupres")
    # simulated programs: one source each; the single statements of the exhaustive run: BATCH chapters per source
    # (every chapter starts with its own ORG, so each statement lies exactly where TLC put it)
    groups, pend = [], {}
    for name, beh in behs:
        tgt = beh[0]["tgt"]
        if DIAL[tgt]["obs"] == "hooks" and not bld.hooks:
            continue
        if name == "sim":
            groups.append([beh])
        else:
            pend.setdefault(tgt, []).append(beh)
            if len(pend[tgt]) == BATCH:
                groups.append(pend.pop(tgt))
    groups += list(pend.values())
    jobs = []
    for g in groups:
        src, labels, occupied, occupied_dev = render(g, r)
        jobs.append((g, DIAL[g[0][0]["tgt"]], src, labels, occupied, occupied_dev))
    with Phase("dupres: assemble %d programs" % len(jobs)):
        results = aslrun.assemble_many(bld, [dict({"sources": {"a.asm": j[2]}, "opts": ["-q"]},
                                                  **({"events": "sym"} if j[1]["obs"] == "hooks" else {})) for j in jobs])
    bad = drift = explained = 0
    nst = 0
    for (g, d, src, labels, occupied, occupied_dev), res in zip(jobs, results):
        sts = [st for beh in g for st in beh if st["k"] == "ST"]
        nst += len(sts)
        for beh in g:
            rep.evaluated()
            rep.distinct(repr(beh), any(t != "?" for st in beh if st["k"] == "ST" for t in st["toks"]))
        tgt = g[0][0]["tgt"]
        case = {"target": tgt, "programs": g}
        kind, what, dev = judge(d, tgt, res, labels, occupied, occupied_dev, sts)
        if kind == "ok":
            continue
        key = {"phase": "dupres", "kind": kind, "deviation": dev}
        if kind in ("crash", "rejected") or d["verdict"]:
            bad += 1
            rep.violation(what, case=case, files={"a.asm": src}, key=key)
        elif dev:
            explained += 1          # 32 bit units, but exactly the known deviation: nothing new to say
        else:
            drift += 1
            if drift <= 3:
                rep.drift(what + " [32 bit units: not described by the manual]")
    rep.traces(len(jobs))
    rep.part("PackedRes(replay)", sources=len(jobs), statements=nst, exhaustive_statements=sum(1 for n, _ in behs if n == "exh"),
             simulated_programs=sum(1 for n, _ in behs if n == "sim"), mismatches=bad, drift=drift, drift_explained_by_known_deviation=explained,
             refuted_deviations=list(DEVIATIONS))
    if jobs:
        j = jobs[len(jobs) // 2]
        rep.sample({"dupres_programs": j[0][:3], "rendered": j[2][:1500]})
