"""Extension of check C07: relocatable code files ($82..$85) and the linker ALINK.

See the section "EXTENSION (relocatable code files, ALINK)" of the docstring of checks/c07.py.
Entry point: run(rep, bld, tier), called once at the end of c07.main().
"""
import json
import os
import re

from vlib import aslrun, codefile, relocfile, tlc, utilrun
from vlib.common import CheckError, Phase, log, pmap, rng, scratch

STRICT = bool(os.environ.get("VERIF_ALINK_STRICT"))      # report every unexplained mismatch as a violation (mutation runs)


# ------------------------------------------------------------------------------------------------
# observations (tokenising only)
# ------------------------------------------------------------------------------------------------
_UNDEF = re.compile(r"^undefined symbol: (.*)\(([^()]*)\)$")
_DBL = re.compile(r"^(.*): double defined symbol '(.*)'$")
_RROW = re.compile(r"^<relocation info>\s+([0-9A-F]{8})\s+(\d+):(\d)\((.)\)\s+([+-])(.*)$")
_XROW = re.compile(r"^<exported symbol>\s+([0-9A-F]{8}) {10}(.) {10}(.*)$")


def codes(s):
    return [ord(ch) for ch in s]


def _rc(res):
    return 124 if res["timeout"] else (128 - res["rc"] if res["rc"] < 0 else res["rc"])


def alink_obs(res):
    undef, dbl = [], []
    for ln in res["err"].split("\n"):
        m = _UNDEF.match(ln)
        if m:
            undef.append(codes(m.group(1)))
        m = _DBL.match(ln)
        if m:
            dbl.append(codes(m.group(2)))
    data = res["files"].get("out.p")
    return {"rc": _rc(res), "bytes": list(data) if data is not None else [], "undef": undef, "dbl": dbl}


def plist_reloc_rows(res):
    rows = []
    for ln in res["out"].split("\n"):
        m = _RROW.match(ln)
        if m:
            rows.append({"k": "R", "addr": int(m.group(1), 16), "bytes": int(m.group(2)), "bits": int(m.group(3)),
                         "big": m.group(4) == "B", "sub": m.group(5) == "-", "name": codes(m.group(6))})
            continue
        m = _XROW.match(ln)
        if m:
            rows.append({"k": "X", "value": int(m.group(1), 16), "rel": m.group(2) == "R", "name": codes(m.group(3))})
    return rows


def alink_job(files):
    """files: list of bytes; command line in link-set order"""
    names = ["f%d.p" % i for i in range(len(files))]
    return {"argv": names + ["out.p"], "files": dict(zip(names, files)), "want": ["out.p"]}


def fits_ideal(exp, obs):
    """the quick comparison with what TLC printed for the model without deviations; every difference goes to TLC"""
    if exp["rc"] == -1:
        return True
    if exp["rc"] != obs["rc"] or exp["undef"] != obs["undef"] or exp["dbl"] != obs["dbl"]:
        return False
    if exp["rc"] == 0:
        return obs["bytes"][:len(exp["body"])] == exp["body"] and bytes(obs["bytes"][len(exp["body"]):]).startswith(b"ALINK ")
    return exp["rc"] != 1 or not obs["bytes"]


def image_of_recs(recs):
    img = {}
    for r in recs:
        for i, b in enumerate(r["data"]):
            img.setdefault((r["seg"], r["start"] + i), []).append(b)
    return img


def code_window(img):
    """the CODE-segment image as p2bin -l 0 -r 0x-0x renders it: lowest..highest address, gaps filled with 0"""
    a = sorted(x for (sg, x) in img if sg == 1)
    if not a:
        return None
    out = bytearray(a[-1] - a[0] + 1)
    for x in a:
        out[x - a[0]] = img[(1, x)][-1]
    return bytes(out)


# ------------------------------------------------------------------------------------------------
# judgement by TLC (spec/ALink_Trace.tla) and reporting
# ------------------------------------------------------------------------------------------------
class Verdicts:
    """collects mismatches; one SPEC-DRIFT line per kind, VIOLATION only where man/alink.1 is definite (exit codes)"""

    def __init__(self, rep):
        self.rep = rep
        self.kinds = {}

    def drift(self, kind, text):
        k = self.kinds.setdefault(kind, {"n": 0, "first": text})
        k["n"] += 1

    def flush(self):
        for kind, k in sorted(self.kinds.items()):
            self.rep.drift("ALINK extension: %s: %d case(s), first: %s" % (kind, k["n"], k["first"][:700]))


def judge(rep, vd, tier, pending, bld):
    """pending: (tag, files, job, obs).  TLC evaluates ALink!Verdict on raw bytes."""
    if not pending:
        return {"judged": 0}
    # DESIGN 2.4 rule 3: an observation counts only if a second run repeats it
    again = utilrun.run_many(bld, "alink", [p[2] for p in pending])
    stable = []
    for p, r2 in zip(pending, again):
        if alink_obs(r2) != p[3]:
            rep.drift("alink %s is not deterministic (%s)" % (" ".join(p[2]["argv"]), p[0]))
        else:
            stable.append(p)
    if not stable:
        return {"judged": 0}
    path = os.path.join(scratch(), "ext-alink.ndjson")
    with open(path, "w") as f:
        for i, (tag, files, job, obs) in enumerate(stable):
            f.write(json.dumps({"id": i, "c": {"files": [list(b) for b in files]}, "obs": obs}, separators=(",", ":")) + "\n")
    with Phase("TLC ALink_Trace judges %d observations" % len(stable)):
        r = tlc.must(tlc.run("ALink_Trace", "ALink_Trace.cfg", workers=1, env={"CASES": path}, mem="8g",
                             timeout=900 if tier == "quick" else 3000), "ALink_Trace")
    if r.violation:
        raise CheckError("ALink_Trace did not judge every case: %s" % r.violation[:400])
    rep.model("ALink_Trace(%d observations)" % len(stable), r)
    out = {v["id"]: v for (t, v) in r.printed if t == "OUT"}
    if len(out) != len(stable):
        raise CheckError("ALink_Trace judged %d of %d cases" % (len(out), len(stable)))
    stats = {"judged": len(stable), "definite": 0, "explained_by_deviation": 0, "unexplained": 0, "killed": 0}
    for i, (tag, files, job, obs) in enumerate(stable):
        v = out[i]
        stats["definite"] += 1 if v["definite"] else 0
        fit = v["fit"]
        what = "alink %s (%s): rc=%s undef=%s dbl=%s out=%s; inputs: %s" % (
            " ".join(job["argv"]), tag, obs["rc"], ["".join(map(chr, n)) for n in obs["undef"]],
            ["".join(map(chr, n)) for n in obs["dbl"]], bytes(obs["bytes"][:48]).hex(),
            " | ".join(relocfile.describe(b) for b in files)[:900])
        repl = {("f%d.p" % k): bytes(b) for k, b in enumerate(files)}
        repl.update({"argv.json": json.dumps(job["argv"]), "observed.json": json.dumps(obs), "verdict.json": json.dumps(v)})
        if v["killed"]:
            # man/alink.1 RETURN CODES: 0..3.  Killed by a signal (or by the time limit) is outside every documented code
            stats["killed"] += 1
            for d in (fit if fit and fit != ["none"] else ["none"]):
                rep.violation(what + " [alink was killed; explained by deviation %s]" % d, case={"tag": tag}, files=repl,
                              key={"tool": "alink", "explained_by": d})
            continue
        if fit and fit != ["none"]:
            stats["explained_by_deviation"] += 1
            vd.drift("named deviation %s" % "+".join(fit), what + ("" if v["ok"] else " -- " + v["why"]))
            continue
        if fit == ["none"]:
            stats["unexplained"] += 1
            text = what + " -- neither the operational model nor a named deviation explains this" + \
                ("" if v["ok"] else "; Link_decl: " + v["why"])
            if STRICT:
                rep.violation(text, case={"tag": tag}, files=repl, key={"tool": "alink", "explained_by": "none"})
            else:
                vd.drift("UNEXPLAINED", text)
    return stats


# ------------------------------------------------------------------------------------------------
# (G) file level: TLC writes the relocatable files
# ------------------------------------------------------------------------------------------------
def file_level(rep, vd, bld, tier, cases):
    for x in cases:
        if not x["allowed"]:
            raise CheckError("specification inconsistent: operational model without deviations contradicts Link_decl on %s"
                             % json.dumps(x["c"])[:400])
    # the two encoders (TLA+ REncode, vlib.relocfile.write) must agree wherever the independent reader understands the file
    for x in cases:
        for b in x["c"]["files"]:
            p = relocfile.parse(bytes(b))
            if not p.problems:
                for layout in ("seq", "shared"):
                    if relocfile.write(p.items, creator=p.creator, layout=layout) == bytes(b):
                        break
                else:
                    raise CheckError("spec/RelocFile.tla REncode and vlib.relocfile.write disagree on %s" % bytes(b).hex())
    jobs = [alink_job([bytes(b) for b in x["c"]["files"]]) for x in cases]
    with Phase("replay %d link sets into alink" % len(jobs)):
        results = utilrun.run_many(bld, "alink", jobs)
    pending = []
    nimg = 0
    for x, job, res in zip(cases, jobs, results):
        obs = alink_obs(res)
        rep.evaluated()
        rep.distinct("alink/" + json.dumps(x["c"], sort_keys=True), bool(x["def"]))
        good = fits_ideal(x["exp"], obs)
        if good and x["def"] and x["decl"]["rc"] == 0 and obs["rc"] == 0:
            # the linked image, read by the independent reader, is Link_decl's image
            pr = codefile.parse(bytes(obs["bytes"]))
            nimg += 1
            if not pr.well_formed or pr.image() != image_of_recs(x["decl"]["recs"]):
                good = False
        if not good:
            pending.append((x["tag"], [bytes(b) for b in x["c"]["files"]], job, obs))
    rep.traces(len(jobs))
    # plist on every input file: the relocation-info rows
    pj, pexp = [], []
    for x in cases:
        for b, rows in zip(x["c"]["files"], x["plist"]):
            if relocfile.parse(bytes(b)).problems:
                continue
            pj.append({"argv": ["f0.p", "-q"], "files": {"f0.p": bytes(b)}, "want": []})
            pexp.append(rows)
    seen = set()
    uj, ue = [], []
    for j, e in zip(pj, pexp):
        if j["files"]["f0.p"] not in seen:
            seen.add(j["files"]["f0.p"])
            uj.append(j)
            ue.append(e)
    with Phase("run plist on %d relocatable files" % len(uj)):
        pres = utilrun.run_many(bld, "plist", uj)
    nbad = 0
    for j, e, res in zip(uj, ue, pres):
        rep.evaluated()
        got = plist_reloc_rows(res)
        if _rc(res) != 0 or got != e:
            nbad += 1
            text = "plist on %s: rc=%s rows=%s; RelocFile!PListRelocRows expects %s" % (
                relocfile.describe(j["files"]["f0.p"]), _rc(res), json.dumps(got)[:300], json.dumps(e)[:300])
            if _rc(res) > 128:
                rep.violation(text, files={"f0.p": j["files"]["f0.p"], "argv.json": json.dumps(j["argv"])},
                              key={"tool": "plist", "explained_by": "none"})
            elif STRICT:
                rep.violation(text, files={"f0.p": j["files"]["f0.p"], "argv.json": json.dumps(j["argv"])},
                              key={"tool": "plist", "explained_by": "none"})
            else:
                vd.drift("plist relocation rows", text)
    rep.traces(len(uj))
    rep.part("ext_alink_files", cases=len(cases), images_compared=nimg, differing_from_ideal_model=len(pending),
             plist_files=len(uj), plist_differing=nbad)
    if cases:
        rep.sample({"tool": "alink", "tag": cases[0]["tag"], "files": cases[0]["c"]["files"], "expected": cases[0]["exp"]})
    return pending


# ------------------------------------------------------------------------------------------------
# (G) source level: TLC writes the modules as statement lists, the real asl writes the relocatable files
# ------------------------------------------------------------------------------------------------
def nm(x):
    return "".join(map(chr, x))


_OPC = {144: "mov\tdptr,#%s", 2: "ljmp\t%s", 18: "lcall\t%s"}


def render(prog):
    """statement list of spec/RelocWriter.tla -> MCS-51 source text (rendering only)"""
    out = []
    for st in prog:
        op = st["op"]
        if op == "cpu":
            out.append("\tcpu\t8051")
        elif op in ("rseg", "aseg"):
            out.append("\t" + op)
        elif op == "extern":
            out.append("\textern_sym\t" + ",".join(nm(n) for n in st["names"]))
        elif op == "export":
            out.append("\texport_sym\t" + ",".join(nm(n) for n in st["names"]))
        elif op == "org":
            out.append("\torg\t%d" % st["addr"])
        elif op == "res":
            out.append("\tds\t%d" % st["n"])
        elif op == "db":
            for k in range(0, len(st["bytes"]), 16):          # a long DB as several lines (argument limit of a source line)
                out.append("\tdb\t" + ",".join("%d" % b for b in st["bytes"][k:k + 16]))
        elif op == "label":
            out.append(nm(st["name"]) + ":")
        elif op == "equ":
            out.append("%s\tequ\t%d" % (nm(st["name"]), st["value"]))
        elif op == "ref":
            expr = "+".join([nm(n) for n in st["names"]] + (["%d" % st["add"]] if st["add"] else []))
            out.append("\t" + ("mov\ta,#%s" % expr if st["w"] == 1 else _OPC[st["opc"]] % expr))
        else:
            raise CheckError("cannot render statement %r" % (st,))
    return "\n".join(out) + "\n"


def body(b):
    """a code file without its creator string (asl and the model name different creators)"""
    p = relocfile.parse(bytes(b))
    return bytes(b[:p.body_len]) if p.body_len else bytes(b)


def source_level(rep, vd, bld, tier, cases, nsim_distinct):
    for x in cases:
        if not (x["allowed"] and x["accepted"]):
            raise CheckError("specification inconsistent (ALink_Gen): %s" % json.dumps(x["src"])[:400])
    # 1. the real assembler writes the modules
    ajobs = []
    for x in cases:
        for prog in x["src"]:
            ajobs.append({"argv": ["-q", "m.asm"], "files": {"m.asm": render(prog).encode()}, "want": ["m.p"]})
    with Phase("assemble %d modules" % len(ajobs)):
        ares = utilrun.run_many(bld, "asl", ajobs)
    k = 0
    ljobs, lcases = [], []
    nwr = 0
    for x in cases:
        files = []
        usable = True
        for i, prog in enumerate(x["src"]):
            res = ares[k]
            src = ajobs[k]["files"]["m.asm"].decode()
            k += 1
            rep.evaluated()
            p = res["files"].get("m.p")
            if _rc(res) != 0 or p is None:
                usable = False
                vd.drift("asl rejects a generated module", "rc=%s %s\n%s" % (_rc(res), (res["out"] + res["err"])[-300:], src))
                continue
            files.append(p)
            # writer binding: byte for byte what RelocWriter!FileItems + RelocFile!REncode say (up to the creator string)
            if body(p) != body(x["c"]["files"][i]):
                nwr += 1
                text = "asl wrote %s; RelocWriter expects %s; source:\n%s" % (
                    relocfile.describe(p), relocfile.describe(bytes(x["c"]["files"][i])), src)
                if STRICT:
                    rep.violation("relocatable code file differs from the writer model: " + text,
                                  files={"m.asm": src, "m.p": p}, key={"tool": "asl", "explained_by": "none"})
                else:
                    vd.drift("UNEXPLAINED relocatable code file (writer model)", text)
            elif x["lost"][i] or x["split"][i] or x["cancel"][i] or x["leak"][i] or not x["faithful"][i]:
                vd.drift("writer deviation %s (asl does what the as-coded writer model says; RelocWriter!Faithful does not hold)"
                         % ("tail_exports_lost" if x["lost"][i] else "split_patch_stray" if x["split"][i] else
                            "merge_same_sign_cancels" if x["cancel"][i] else "export_queue_survives_pass" if x["leak"][i] else "?"),
                         relocfile.describe(p) + "; source:\n" + src)
        if usable:
            ljobs.append(alink_job(files))
            lcases.append((x, files))
    rep.traces(len(ajobs))
    # 2. the real linker links what the real assembler wrote
    with Phase("link %d sets" % len(ljobs)):
        lres = utilrun.run_many(bld, "alink", ljobs)
    pending = []
    imgs = []
    for (x, files), job, res in zip(lcases, ljobs, lres):
        obs = alink_obs(res)
        rep.evaluated()
        rep.distinct("alink-src/" + json.dumps(x["src"], sort_keys=True), bool(x["def"]))
        same_inputs = all(body(f) == body(e) for f, e in zip(files, x["c"]["files"]))
        good = same_inputs and fits_ideal(x["exp"], obs)
        if good and x["def"] and x["decl"]["rc"] == 0 and obs["rc"] == 0:
            want = image_of_recs(x["decl"]["recs"])
            pr = codefile.parse(bytes(obs["bytes"]))
            if not pr.well_formed or pr.image() != want:
                good = False
            else:
                imgs.append((x, bytes(obs["bytes"]), want))
        if not good:
            pending.append((x["tag"], files, job, obs))
    rep.traces(len(ljobs))
    # 3. ... and p2bin turns the linked file into the memory image Link_decl describes

    def p2b(t):
        return aslrun.p2bin_image(bld, t[1])
    with Phase("p2bin on %d linked files" % len(imgs)):
        bins = pmap(p2b, imgs) if imgs else []
    nb = 0
    for (x, pb, want), got in zip(imgs, bins):
        if got != code_window(want):
            nb += 1
            vd.drift("p2bin image of the linked file differs from Link_decl",
                     "linked %s; p2bin gives %s" % (relocfile.describe(pb), (got or b"").hex()[:200]))
    rep.part("ext_alink_sources", link_sets=len(cases), simulated_distinct=nsim_distinct, modules_assembled=len(ajobs),
             writer_files_differing=nwr, linked=len(ljobs), images_compared=len(imgs), p2bin_images_differing=nb,
             differing_from_ideal_model=len(pending))
    if cases:
        rep.sample({"tool": "asl+alink", "tag": cases[0]["tag"], "sources": [render(p) for p in cases[0]["src"]],
                    "expected": cases[0]["exp"]})
    return pending


# ------------------------------------------------------------------------------------------------
# (M) + generators: every TLC run of the extension, side by side
# ------------------------------------------------------------------------------------------------
def tlc_phase(rep, tier):
    import concurrent.futures as cf
    quick = tier == "quick"
    jobs = []          # (kind, module, cfg, expected violated invariant, simulate)
    for cfg in (["ALink_MC.cfg", "ALink_MC_rel.cfg"] + ([] if quick else ["ALink_MC_rel2.cfg", "ALink_MC_3.cfg", "ALink_MC_p2.cfg"])):
        jobs.append(("mc", "ALink_MC", cfg, None, None))
    jobs.append(("mc", "RelocWriter_MC", "RelocWriter_MC3.cfg" if quick else "RelocWriter_MC.cfg", None, None))
    for cfg, inv in (("ALink_MC_dev_null.cfg", "NoCrash"), ("ALink_MC_dev_stall.cfg", "Aligned"), ("ALink_MC_dev_pass.cfg", "Conforms"),
                     ("ALink_MC_dev_dup.cfg", "Conforms"), ("ALink_MC_dev_oob.cfg", "NoCrash")):
        jobs.append(("dev", "ALink_MC", cfg, inv, None))
    for d in (("Excused",) if quick else ("Lost", "Split", "Cancel", "Leak")):
        jobs.append(("dev", "RelocWriter_MC", "RelocWriter_MC_dev_%s.cfg" % d, "Never" + d, None))
    for cfg in ["ALink_List.cfg", "ALink_Cover.cfg"] + ([] if quick else ["ALink_Cover_rel.cfg"]):
        jobs.append(("genfile", "ALink_MC", cfg, None, None))
    jobs.append(("gensrc", "ALink_Gen", "ALink_Fam.cfg", None, None))
    if not quick:
        jobs.append(("gensrc", "ALink_Gen", "ALink_Big.cfg", None, None))
    jobs.append(("gensim", "ALink_Gen", "ALink_Sim.cfg", None, 40 if quick else 600))

    def one(j):
        kind, mod, cfg, inv, sim = j
        big = cfg in ("ALink_MC_p2.cfg", "ALink_Big.cfg", "RelocWriter_MC.cfg", "ALink_MC_3.cfg")
        return tlc.run(mod, cfg, workers=(4 if big or sim else 2), simulate=sim, depth=14 if sim else None, timeout=2400,
                       mem="6g" if big else "3g", collect=kind.startswith("gen"))
    with Phase("TLC: %d runs of ALink_MC / RelocWriter_MC / ALink_Gen" % len(jobs)):
        with cf.ThreadPoolExecutor(max_workers=10 if quick else 4) as ex:
            results = list(ex.map(one, jobs))
    filecases, srccases, seen = [], [], set()
    for (kind, mod, cfg, inv, sim), r in zip(jobs, results):
        tlc.must(r, cfg)
        if kind == "dev":
            if not (r.violation and inv in r.violation):
                raise CheckError("named deviation of %s is vacuous: TLC finds no violation of %s" % (cfg, inv))
            rep.model("%s(%s: %s violated as it must)" % (mod, cfg, inv), r)
            continue
        if r.violation:
            raise CheckError("%s violates its own property in %s: %s" % (mod, cfg, r.violation[:800]))
        rep.model("%s(%s)" % (mod, cfg), r)
        if kind == "genfile":
            filecases += [x for (t, x) in r.printed if t == "TR"]
        elif kind == "gensrc":
            srccases += [x for (t, x) in r.printed if t == "TR"]
        elif kind == "gensim":
            for (t, x) in r.printed:
                if t == "BEH":
                    k = json.dumps(x["src"], sort_keys=True)
                    if k not in seen:
                        seen.add(k)
                        srccases.append(x)
    if not filecases or not srccases:
        raise CheckError("the generators of the ALINK extension printed no cases")
    return filecases, srccases, len(seen)


def run(rep, bld, tier):
    vd = Verdicts(rep)
    rep.assumptions += ["ALINK / relocatable records: neither the manual nor a listed property defines them; Link_decl is written "
                        "from fileformat.h; only a run killed by a signal or the time limit is a violation (man/alink.1 exit "
                        "codes 0..3), every other mismatch is SPEC-DRIFT (VERIF_ALINK_STRICT=1 turns unexplained ones into "
                        "violations)"]
    filecases, srccases, nsim = tlc_phase(rep, tier)
    pending = file_level(rep, vd, bld, tier, filecases)
    pending += source_level(rep, vd, bld, tier, srccases, nsim)
    stats = judge(rep, vd, tier, pending, bld)
    rep.part("ext_alink_judged", **stats)
    vd.flush()
