"""C10 - Address bookkeeping: ORG, PHASE, segments, ALIGN, reservations, structures.

(M) AddrBook_MC: every interleaving of EMIT/RESERVE/ORG/RORG/ALIGN/SEGMENT/PHASE/DEPHASE/SAVE/RESTORE/STRUCT/UNION/
    ENDSTRUCT/LABEL up to 5 (thorough 6) statements: SegIsolation, SwitchKeepsCounters, LabelIsExec, DephaseRestores,
    PhaseSetsExec, AlignIsNextMultiple, AdvanceBySize, SaveRestoreLIFO, StructEmitsNothing, StructOffsets.
(G) AddrBook_Gen: TLC-simulated statement sequences (<= 60 statements thorough) rendered for a byte-granular (z80)
    and a word-granular (320C25) target: every data statement carries a marker, `dw $`-style statements and labels
    export the execution address; the code file (record addresses, marker positions, exported values) is compared
    with the load/execution addresses AddrBook predicts.
(V) AddrBook_Trace: every statement of every pass of all 201 golden programs (stmt + emit/reserve/retract hook
    events, regrouped per source line): chunks lie at the load address the bookkeeping implies; statements other
    than the named pseudo-ops move only the active counter by their chunks; the named pseudo-ops behave like the
    AddrBook operators.
ORG while a PHASE offset is in force: the implemented reading (argument = execution address) is the reference
(the manual's CAUTION paragraph says load address; see AddrBook.tla OrgWhilePhased and DESIGN.md).
Structures nest two levels deep (fields of nested structures / union members inside a structure are numbered
relative to the outermost structure: AddrBook.FieldValue).  No verdict on: addresses >= 2^30 (TLC integers).
Independent seeded change caught after strengthening: seeded/C10 (ORG no-op test through the load address).

Extension "structinst" (checks/ext_structinst.py, last phase of main(); spec modules "StructInst", "StructInst_MC",
"StructInst_Gen", "StructInst_Trace"; details, bounds and mutations in the docstring of checks/ext_structinst.py):
structure definition details and structure INSTANTIATION.  spec/StructInst.tla EXTENDS AddrBook with the open-definition
frames (composed names, EXTNAMES / NOEXTNAMES, DOTS / NODOTS / DOTTEDSTRUCTS, elements with offsets, TotLen), the structure
table and Step(st, statement) = symbol definitions in order + errors + reservation for STRUCT / UNION / ENDSTRUCT [label]
[length name] / fields / a structure name used as an instruction (plain, arrays, in the ordinary segment - PHASE: execution
address -, inside a STRUCT body, inside a UNION) / the refused statements; next to it the manual's promise on the syntax
tree of a definition (DSize, DSyms, InstancePromise: every instance member = label + offset, exactly LEN units reserved,
nothing else changes).  (M) StructInst_MC: 12 invariants on bounded programs (quick 3 configurations, 5.9 k + 26 k + 9 k
states; thorough up to 410 k) + 2 configurations TLC must refute (named deviations AnonOffsetDropped,
NoExtNamesKeepsOwnPrefix); (G) StructInst_Gen: simulated programs of 12..16 statements rendered for 8051 and 320C25,
assembled with hooks, every sym_def / reserve / emit / diag / stmt record and the code file compared with the prediction;
(V) StructInst_Trace: TLC judges every statement of the generated programs and of the 12 golden sources that use STRUCT /
UNION against the promise.  Finding: known_findings/C10-structinst.json (member inside a nameless body loses that body's
offset in every instance; proposed_fixes/C10-anon-member-offset.diff).  Mutations m1..m4 tried: see ext_structinst.py.
./check C10 --selftest: nine corrupted observations are each rejected by TLC.

Extension "dupres" (checks/ext_dupres.py, last phase of main(); spec modules "PackedRes", "PackedRes_MC", "PackedRes_Gen"):
the reservations above are `DS n` / `RES n` only - a unit count.  Added dimension: reservations (and constants) written
with DN/DB/DW/DD/DQ/DT, `?` and nested DUP groups, on segments whose address unit is larger than, equal to or smaller than
the element (z80 8 bit, AVR / KCPSM CODE 16 bit with DATA 8 bit, KCPSM3 CODE 32 bit): every position inside a unit at
which a group can begin and end, counts <= 0 / 1 / > 1.  PackedRes walks the argument list token by token with the
code's fill-position arithmetic next to the manual's flat element count; TLC checks them equal at every token, refutes
three named deviations, and prints every statement of the bounded token space + simulated programs with the address in
front of and behind each statement; the labels the real asl defines there must read exactly that.  Added after an
independent seeded change (SubCodeFill without its borrow: `db ?, 3 dup (?)` in the AVR code segment one word too
large) went unnoticed; now 67 rejected sources in the quick tier.  Finding C10-empty-dup-group-drops-statement.
"""
import os

from vlib import aslrun, build, codefile, tlc, tracecheck
from vlib.common import CheckError, Phase, log, pmap, rng
from vlib.report import Report

PID = "C10"

CLASS = {"ORG": "ORG", "RORG": "RORG", "SEGMENT": "SEGMENT", "CPU": "CPU", "PHASE": "PHASE", "DEPHASE": "DEPHASE",
         "SAVE": "SAVE", "RESTORE": "RESTORE", "STRUCT": "STRUCT", "STRUC": "STRUCT", "UNION": "UNION",
         "ENDSTRUCT": "ENDSTRUCT", "ENDSTRUC": "ENDSTRUCT", "ENDS": "ENDSTRUCT", "ENDUNION": "ENDSTRUCT"}


def to_events(trace):
    """hook events -> executions (one per pass) of per-statement events for AddrBook_Trace"""
    execs = []
    cur = None
    chunks = []
    for e in trace:
        k = e["e"]
        if k == "pass_begin":
            cur = []
            chunks = []
            execs.append(({"a": "RESET", "seg": e["seg"], "pc": e["pc"]}, cur))
        elif cur is None:
            continue
        elif k == "emit":
            chunks.append({"k": "E", "seg": e["seg"], "addr": e["addr"], "n": e["n"] // max(e["gran"], 1)})
        elif k == "reserve":
            chunks.append({"k": "R", "seg": e["seg"], "addr": e["addr"], "n": e["n"]})
        elif k == "retract":
            chunks.append({"k": "X", "seg": e["seg"], "addr": e["addr"], "n": e["n"] // max(e["gran"], 1)})
        elif k == "stmt":
            skip = (not e["ifasm"]) or e["rec"] or e["wasmac"] or e["wasif"]
            a = "OTHER" if skip else CLASS.get(e["op"].upper(), "OTHER")
            cur.append({"a": a, "op": e["op"].upper()[:12], "chunks": chunks, "seg": e["seg"], "pc": e["pc"],
                        "ph": e["ph"], "phd": e["phd"], "svd": e["svd"], "std": e["std"], "len": e["len"],
                        "line": e["line"]})
            chunks = []
    return execs


def too_big(ex):
    r, evs = ex
    lim = 2 ** 30
    if r["pc"] >= lim:
        return True
    for e in evs:
        if e["pc"] >= lim or abs(e["ph"]) >= lim or any(c["addr"] >= lim for c in e["chunks"]):
            return True
    return False



DIAL = {
    "8051": dict(cpu="8051", cpus=["8051", "8052"], gran=1, data="db", res="ds", segs={"code": "code", "data": "xdata"},
                 segno={"code": 1, "data": 4}),
    "c25": dict(cpu="320c25", cpus=["320c25", "320c26"], gran=2, data="word", res="res", segs={"code": "code", "data": "data"},
                segno={"code": 1, "data": 2}),
}
TABLE_AT = 30000


def unit(v, gran):
    return [(v >> (8 * j)) & 0xFF for j in range(gran)]


def render(beh, dname, obs=None, cpu_stmt=True):
    """TLC behaviour -> (source, expected image as sorted list of (segno, byteaddr, byte)).
    obs: transition-cover record: where an observer statement after the last transition must land."""
    d = DIAL[dname]
    g = d["gran"]
    mod = 251 if g == 1 else 65521
    # cpu_stmt=False: the target comes from the command line (-cpu), so the initial CODE segment is never
    # entered through a CPU/SEGMENT statement (as.c WriteCode has to mark it used by itself)
    lines = ["\tcpu %s" % d["cpu"]] if cpu_stmt else []
    exp = []
    table = []          # values exported through the trailing table
    open_structs = []

    def put(seg, load, vals):
        base = load * g
        for i, v in enumerate(vals):
            for j, byte in enumerate(unit(v, g)):
                exp.append((d["segno"][seg], base + i * g + j, byte))

    for k, st in enumerate(beh, 1):
        a = st["k"]
        if a == "EMIT":
            vals = [(k * 13 + i) % mod for i in range(st["n"])]
            lines.append("\t%s %s" % (d["data"], ",".join(map(str, vals))))
            put(st["seg"], st["load"], vals)
        elif a == "READPC":
            lines.append("\t%s $ # %d" % (d["data"], mod))
            put(st["seg"], st["load"], [st["val"] % mod])
        elif a == "RESERVE":
            lines.append("\t%s %d" % (d["res"], st["n"]))
        elif a == "FIELD":
            lines.append("f%d\t%s %d" % (k, d["res"], st["n"]))
            table.append(("%s_f%d" % ("_".join(n for n, _ in open_structs), k), st["val"]))
        elif a == "ORG":
            lines.append("\torg %d" % st["a"])
        elif a == "RORG":
            lines.append("\trorg %d" % st["d"])
        elif a == "ALIGN":
            lines.append("\talign %d" % st["a"])
        elif a == "SEGMENT":
            lines.append("\tsegment %s" % d["segs"][st["s"]])
        elif a == "PHASE":
            lines.append("\tphase %d" % st["a"])
        elif a == "DEPHASE":
            lines.append("\tdephase")
        elif a == "CPU":
            lines.append("\tcpu %s" % d["cpus"][st["c"]])
        elif a == "SAVE":
            lines.append("\tsave")
        elif a == "RESTORE":
            lines.append("\trestore")
        elif a == "STRUCT":
            name = "s%d" % k
            if st.get("nested"):
                # a nested structure is itself an element of the enclosing one: its name gets its offset
                table.append(("%s_%s" % ("_".join(n for n, _ in open_structs), name), st["val"]))
            open_structs.append((name, st["u"]))
            lines.append("%s\t%s" % (name, "union" if st["u"] else "struct"))
        elif a == "ENDSTRUCT":
            full = "_".join(n for n, _ in open_structs)
            name, u = open_structs.pop()
            lines.append("%s\t%s" % (name, "endunion" if u else "endstruct"))
            table.append(("%s_len" % full, st["len"]))
        elif a == "LABEL":
            lines.append("l%d:" % k)
            table.append(("l%d" % k, st["val"]))
    if obs is not None:
        if not obs["instruct"]:
            lines.append("\t%s %d" % (d["data"], 199))
            put(obs["seg"], obs["load"], [199])
            lines.append("\t%s $ # %d" % (d["data"], mod))
            put(obs["seg"], obs["load"] + 1, [(obs["exec"] + 1) % mod])
        else:
            # observer inside a STRUCT / UNION body: one more field, whose value is the offset the body is at
            lines.append("fobs\t%s 1" % d["res"])
            table.append(("%s_fobs" % "_".join(n for n, _ in open_structs), obs["field"]))
        while open_structs:
            name, u = open_structs.pop()
            lines.append("%s\t%s" % (name, "endunion" if u else "endstruct"))
        for _ in range(obs["saves"]):
            lines.append("\trestore")
    lines.append("\tsegment code")
    lines.append("\tdephase")
    lines.append("\tdephase")
    lines.append("\tdephase")
    lines.append("\torg %d" % TABLE_AT)
    addr = TABLE_AT
    for name, val in table:
        if g == 1:
            lines.append("\tdb %s & 255, (%s >> 8) & 255" % (name, name))
            put("code", addr, [val & 255, (val >> 8) & 255])
            addr += 2
        else:
            lines.append("\tword %s" % name)
            put("code", addr, [val])
            addr += 1
    return "\n".join(lines) + "\n", sorted(exp), table


def replay_generated(rep, bld, tier):
    nsim = 300 if tier == "quick" else 4000
    seen = {}
    for mode in ("all", "stack", "struct"):
        cfg = "AddrBook_Gen%s_%s.cfg" % ("" if tier == "quick" else "60", mode)
        gen = tlc.must(tlc.run("AddrBook_Gen", cfg, workers=4, simulate=nsim // 4,
                               depth=15 if tier == "quick" else 61, timeout=900, mem="6g"), "AddrBook_Gen " + mode)
        rep.cov["transitions"] += gen.generated
        for tag, beh in gen.printed:
            seen[mode + repr(beh)] = beh
    behs = list(seen.values())
    r = rng("c10")
    r.shuffle(behs)
    behs = behs[:1000 if tier == "quick" else 40000]
    jobs = []
    for bi, beh in enumerate(behs):
        for dname in DIAL:
            cs = (bi % 2 == 0)
            src, exp, table = render(beh, dname, cpu_stmt=cs)
            jobs.append((beh, dname + ("" if cs else ":-cpu"), src, exp, table))
    ncover = 0
    for mode in ("stack", "struct", "all"):
        cfg = "AddrBook_Cover%s_%s.cfg" % ("" if tier == "quick" else "T", mode)
        cov = tlc.must(tlc.run("AddrBook_Gen", cfg, workers=1, timeout=1200, mem="8g"), "AddrBook_Gen cover " + mode)
        rep.model("AddrBook_Gen(cover %s)" % mode, cov)
        for tag, o in cov.printed:
            if tag != "TR":
                continue
            ncover += 1
            for dname in DIAL:
                cs = (ncover % 2 == 0)
                src, exp, table = render(o["h"], dname, obs=o, cpu_stmt=cs)
                jobs.append((o["h"], dname + ("" if cs else ":-cpu"), src, exp, table))
    rep.part("generation", distinct_simulated=len(seen), simulated_replayed=len(behs), transition_cover=ncover)
    with Phase("replay %d generated programs" % len(jobs)):
        results = aslrun.assemble_many(bld, [{"sources": {"a.asm": j[2]},
                                              "opts": ["-q"] + (["-cpu", DIAL[j[1].split(":")[0]]["cpu"]] if ":" in j[1] else [])}
                                             for j in jobs])
    for (beh, dname, src, exp, table), res in zip(jobs, results):
        rep.evaluated()
        rep.distinct(src, len(set(st["k"] for st in beh)) >= 3)
        prog = [{kk: vv for kk, vv in st.items() if kk in ("k", "n", "a", "d", "s", "u", "c", "val", "len", "load", "exec", "seg")}
                for st in beh]
        if res.timeout or res.sig is not None:
            rep.violation("assembler crashed/hung (rc=%s sig=%s)" % (res.rc, res.sig), case=prog, files={"a.asm": src})
            continue
        if res.rc != 0 or res.p is None:
            rep.violation("valid address-bookkeeping program rejected (rc=%s): %s" % (res.rc, (res.out + res.err)[-300:]),
                          case=prog, files={"a.asm": src}, key={"kind": "rejected"})
            continue
        parsed = codefile.parse(res.p)
        got = sorted((s, a, b) for (s, a), bs in parsed.image().items() for b in bs)
        if got != exp:
            missing = [x for x in exp if x not in set(got)][:6]
            extra = [x for x in got if x not in set(exp)][:6]
            rep.violation("%s: code file image differs from the addresses/values AddrBook predicts; expected-but-absent "
                          "(seg,byteaddr,byte) %s, present-but-unexpected %s; exported symbols %s"
                          % (dname, missing, extra, table[:8]), case=prog, files={"a.asm": src, "a.p": res.p},
                          key={"kind": "image"})
    for j in jobs[:2]:
        rep.sample({"behaviour": j[0], "dialect": j[1], "rendered": j[2]})
    rep.traces(len(jobs))


def main(tier):
    rep = Report(PID, tier)
    bld = build.get("hook")
    rep.assumptions += ["hooks: %s" % ("stmt/emit/reserve/retract events" if bld.hooks else "unavailable")]
    cfg = "AddrBook_MC.cfg" if tier == "quick" else "AddrBook_MC6.cfg"
    mc = tlc.must(tlc.run("AddrBook_MC", cfg, timeout=2400, mem="12g", collect=False), "AddrBook_MC")
    if mc.violation:
        raise CheckError("the AddrBook design violates its invariants: %s" % mc.violation[:800])
    rep.model("AddrBook_MC(%s)" % cfg, mc)

    replay_generated(rep, bld, tier)

    if bld.hooks:
        tests = aslrun.corpus()

        def one(t):
            import shutil
            res = aslrun.assemble_corpus(bld, t, events="file,stmt,emit")
            shutil.rmtree(res.dir, ignore_errors=True)
            return t[0], res
        with Phase("corpus traces"):
            runs = pmap(one, tests)
        execs, resets, names = [], [], []
        skipped = 0
        for name, res in runs:
            if res.trace is None:
                continue
            for ex in to_events(res.trace):
                if too_big(ex):
                    skipped += 1
                    continue
                resets.append(ex[0])
                execs.append(ex[1])
                names.append(name)
        with Phase("validate %d statements" % sum(map(len, execs))):
            v = tracecheck.validate("AddrBook_Trace", execs, resets=resets, timeout=1500, mem="8g")
        rep.part("AddrBook_Trace(corpus)", events=v.events, executions=v.executions, accepted=v.accepted,
                 skipped_large=skipped, wall_s=v.wall)
        rep.cov["states"] += v.states
        rep.cov["transitions"] += v.generated
        rep.traces(v.executions)
        if not v.accepted:
            rep.violation("golden test %s: statement not explained by the address bookkeeping: %s"
                          % (names[v.fail_exec], v.detail[:400]), case={"test": names[v.fail_exec], "event": v.fail_event},
                          key={"test": names[v.fail_exec]})
    from checks import ext_structinst       # phase "structinst": definition details and instantiation of structures
    ext_structinst.run(rep, bld, tier)
    from checks import ext_dupres           # phase "dupres": `?` / DUP reservations packed into larger address units
    ext_dupres.run(rep, bld, tier)
    return rep.finish(rule="generated = TLC-simulated AddrBook_Gen behaviours (distinct by rendered source x 2 dialects; "
                           "non-trivial = at least 3 different statement kinds); traces = one execution per pass of each "
                           "golden program, one event per source statement", exhaustive=False)


def replay(path):
    import json
    with open(os.path.join(path, "violation.json")) as f:
        v = json.load(f)
    if (v.get("key") or {}).get("phase") == "structinst":
        from checks import ext_structinst
        return ext_structinst.replay(path, v["case"])
    if (v.get("key") or {}).get("phase") == "dupres":
        from checks import ext_dupres
        return ext_dupres.replay(path, v["case"])
    log(open(os.path.join(path, "violation.json")).read()[:3000])
    return 0


def selftest(tier="quick"):
    """binding demonstration of the structinst phase (the other phases show theirs through the seeded changes)"""
    from checks import ext_structinst
    return 0 if ext_structinst.selftest() else 1
