"""C05 - P2BIN writes the memory image described by the code file.

Specification: spec/P2Bin.tla (on top of spec/CodeFile.tla)
  * operational machine transcribed from p2bin.c / chunks.c / toolutils.c: Measure (MeasureFile), Open (OpenTarget),
    ProcessItem (record loop of ProcessFile: filter, clip ErgStart/ErgStop, AddChunk/Absorb overlap bookkeeping,
    byte-lane thinning, seek + copy), Close (entry header, checksum).  The five places where the pinned tree departs
    from the manual are NAMED DEVIATIONS (filter_hdr, lane_floor, maxgran_explicit, overlap_first_only, zero_len);
    Run(D, c) is the program with the deviations D switched on (D = all: pinned tree, D = {}: all repairs).
  * declarative side (Definite / Allowed) written from the property text and doc/utility-programs.md: selected
    records, window = given or lowest/highest used address, output position i <-> i-th byte address of the lane,
    fill where nobody covers, any covering record's byte where records overlap (manual silent about the winner),
    entry header, zero byte sum, overlap warning <=> two selected records share an address.
  * LANE PHASE: image starts (-r lower bound / lowest used address x granularity) of ANY phase of the -m lane period are judged
    (Definite asks only for a whole-period LENGTH; P2Bin_MC_phase*/CoverPhase*.cfg, SimLo/SimHi, shifted corpus windows): before,
    such cases were generated but counted "manual silent", so a target position taken from the distance to the start went unseen.
  * HEADER FORM x FAMILY: an item of a case may carry short = TRUE: the record stands in the file with the one-byte
    header $01..$7f as PBIND / ALINK write CODE records (AS itself only writes long headers); such an item has no seg /
    gran of its own.  P2Bin!ReadRecordHeader + Granularity (operational, toolutils.c case by case) and P2Bin!DRead
    (declarative: CODE, granularity implied by the processor type whatever record stands before) say what it means;
    ReadAgrees checks the two against each other.  FormCases (P2Bin_MC_forms*/CoverForms*.cfg): one family per case -
    every class of Granularity(): default 1, 2, 4 and ALL five whose value depends on the segment (AVR $3b, PDK13..16
    $1a..$1d: 2 in CODE, 1 elsewhere), thorough: every id the table names + ids 1 and 127 - x every sequence of <= 3
    records each short CODE / long CODE / long DATA (/ long IO) x automatic / explicit range x -segment (x lanes); the
    simulated cases mix short-header records and AVR/PDK DATA records in; real code files additionally run through the
    real pbind first (files with several segments or an AVR/PDK record always, a fifth of the others; thorough: all),
    tokenised with their header forms.  The renderer writes exactly the form the case names.  Before, the header form
    was a coin of the renderer limited to families with ONE granularity, so a reader that derives the implied
    granularity from anything but (family, CODE) - e.g. the segment of the preceding record - went unseen.
  * MIXED GRANULARITY among the selected records (P2Bin.tla Part 2b: DefiniteMixed / AllowedMixed).  Before, Definite
    demanded ONE granularity among the selected records and every other case was "manual silent" (drift only) - an
    undecided zone the manual does not justify: "address specifications always relate to the granularity of the
    processor currently in question", "the start address refers to the granularity, the Length value is always expressed
    in bytes".  Definite there, whatever the layout: exit 0; length = (B - A + 1) x LARGEST granularity / lane factor;
    entry header; every image byte is fill or a byte a selected record holds at an address INSIDE the window and in the
    lane (never a clipped-away byte, a record header, an unselected record, the creator string); a record of the
    largest granularity lies where the uniform rule puts it (no fill over it, none of its bytes elsewhere); EVERY
    selected record shows the bytes of its clipped part from the clip address on, contiguous and in order (single
    bytes may be hidden by another selected record's bytes); -s; overlap warning for pairs of equal granularity as in
    the uniform case.  OPEN (drift only): where a record of a smaller granularity stands in the image relative to the
    larger ones, and the warning for pairs of different granularity.
    TLC: P2Bin_MC_mixed / _mixedpost (ConformsMixed, WindowStableMixed, MeasureSoundMixed; thorough: _mixed2, _mixed3, _select3):
    <= 2 records of 4 units at 0, 1, 3, 6 in units of 1 / 2 / 4 bytes x 7 windows (start / end strictly inside a record
    of either unit, at its edges, outside, automatic, half-automatic) x ALL / ODD / WORD1; x two files with (offset) x
    -S none / L2 / B3 x -s x -e x -l.  P2Bin_MC_probe_skip_maxgran: the PROBE `source skip counted in MaxGran` (not in
    the pinned tree) - TLC must find ConformsMixed violated while Conforms holds (the claim is not vacuous).
    Replay: P2Bin_CoverMixed / CoverMixedPost exhaustively (quick: 2823 cases, 1480 of them DefiniteMixed), a third of
    the simulated cases in MIXED MODE (CODE records of any granularity, long and short headers, all options), and 40
    (thorough 400) PROGRAMS FOR SEVERAL PROCESSORS (z80 / 8051 / 6502 bytes, 32015 / 16c84 words, 320C30 longwords in
    one CODE segment; a quarter as two code files with (offset)) assembled by the real asl, tokenised by the independent
    reader, 4 seed-chosen option sets each.  Corpus windows now also start / end strictly inside the chosen record.
(F) spec/FilterList.tla: the option state behind -f (shared toolutils.c CMD_FilterList/FilterOK + cmdarg.c ProcessCMD):
    a case carries the SEQUENCE of -f (add) / +f (cancel) operations, those preset through P2BINCMD first; operational =
    the FilterBytes array with append-unless-found and swap-remove, declarative = an id is in the filter iff the last
    elementary operation naming it is an add, empty filter = no filtering.  FilterList_MC: all sequences of <= 5 (6)
    operations over 4 ids.  P2Bin_CoverFilt.cfg replays every sequence of FilterList!FPatterns (lists of 1..4 families;
    cancel first / middle / last / absent / repeated / all; cancel before add; re-add; duplicates; the same through
    P2BINCMD with and without command-line operations after it) and BigPatterns (the 100 entries the array holds).
(M) P2Bin_MC: the program as a step machine over EVERY case of its bounded case spaces (cfg files P2Bin_MC_*.cfg:
    window x lanes x overlaps; selection by -f/-segment/granularity; header/entry/checksum; several files with
    offsets; lane phase; header forms x families): Conforms (output satisfies the declarative property), StepRunAgrees, ChunkListOK, WindowStable,
    MeasureSound, UsedIsCoverage.  Also run once per named deviation d with Dev = {d}: TLC must FIND the defect
    (shows the deviation operators are not vacuous and the declarative side really forbids the pinned behaviour).
(G) P2Bin_Gen: every case of the `cover` space (exhaustive for its constants) and TLC-simulated wide cases (<= 4 items
    in <= 3 files with offsets, gran 1/2/4, 3 CPUs, 2 segments, all options) are printed by TLC together with the
    expected output exp = Run({}, c) and TLC's own judgement of it; Python writes the .p files with its own writer
    (short and long headers), spells the options (decimal/0x/$/h, upper/lower case, option order), runs the real
    p2bin and compares (rc, bytes, overlap warning) with exp.
(V) P2Bin_Trace: every run whose observation differs from exp, and every run on a real code file (golden tests
    assembled by the real asl, records tokenised by the independent reader, seed-chosen windows/lanes/filters/
    headers, -f/+f operation sequences incl. P2BINCMD presets), is handed to TLC, which evaluates Verdict: ok = Definite => Allowed(observation); fit = the smallest
    set of named deviations under which Run reproduces the observation exactly.
Verdict: ~ok is a violation; it is a KNOWN finding only if fit names deviations that are all listed `known`
    (one known entry per deviation); ~ok with fit = none is an unexplained VIOLATION.  ok but fit = none is
    SPEC-DRIFT (the real program does something neither wrong nor predicted).

Bounds: addresses < 2^24 (no 32-bit wrap), payload per record <= 32 bytes in generated cases (plus the P2Bin_CoverBig
    space: one record of 4097 or 9000 bytes, longer than the 4096-byte copy buffer, x 9 lanes x 2 windows), corpus
    files <= 24 KiB (quick) with windows <= 1024 units; MC constants are stated in the cfg files.
NOT covered: non-definite cases are not judged (the POSITION of a smaller-granularity record in an image laid out for a
    larger one - everything else about such cases is judged by AllowedMixed -, windows whose length is
    not a whole number of lane periods, automatic range with nothing selected, overlap only outside the window); -k; wildcards in
    file names; environment variable P2BINCMD; addresses >= 2^24; records > 64 KiB cannot exist.
    Which record wins on overlapping bytes and the header contents without any entry address are left open as the
    manual does; the model's choice (last record wins, zeros) is only tracked as drift.

MUTATIONS tried (scratch copies, VERIF_REPO; list with sed expressions in selftest/C05-C07-mutations.txt):
  detected (VIOLATION, exit 1): ErgStop clip off by one (pinned and fixed tree); default fill $00; checksum 0xff-sum;
    header endianness swapped; no clipping at the window start; -segment test removed; (offset) not applied in
    ProcessFile; WORD1 lane table entry; overlap warning never given; automatic start off by one; last entry record
    wins / -e ignored; tail of a record longer than the 4096-byte copy buffer dropped; wrong lane count in the repaired
    LaneBytesBelow.
  detected after the -f / +f operation sequences were added (FilterList.tla): swap-remove of a cancelled filter entry
    reading the slot past the end (`FilterBytes[FilterCnt--]`), which only shows with -f a,b,c +f <non-last entry>.
  detected after the lane-phase dimension was added (925 violations in the quick tier, none before): fseek target
    LaneBytesBelow((ErgStart - StartAdr) * Gran) instead of LaneBytesBelow(ErgStart * Gran) - LaneBytesBelow(StartAdr * Gran).
  detected after the header-form x family dimension was added (none before): toolutils.c ReadRecordHeader computing
    Granularity(CPU, Segment) of a one-byte header BEFORE Segment is set to CODE, i.e. with the segment of the record
    before (an AVR/PDK short-header CODE record after a DATA record is read with granularity 1): 838 violations in the
    quick tier; `case 0x1b:` (PDK14) deleted from Granularity(): 254 violations.  Also detected (and already before, by
    a short-header record first in a file): `*Segment = SegCode;` of that branch deleted.
  detected after the mixed-granularity dimension was added (none before; each 0 violations in the uniform cases):
    source skip at the window start `(ErgStart - InpStart) * MaxGran` (248 violations in the quick tier: a record of the
    smaller unit shows bytes of clipped-away addresses and of the next record header); ErgStop from `InpLen / MaxGran`
    (183: the smaller-unit record loses its tail); lane test on `ErgStart * MaxGran + Addr` (200: wrong lane bytes of
    the smaller-unit record); MaxGran = granularity of the LAST selected record (`Gran != MaxGran`, 670: length).
  drift only, by design (exit 0, 9+ SPEC-DRIFT lines): target position taken from `ErgStart * MaxGran` - it moves a
    smaller-unit record inside the image, the one thing AllowedMixed leaves open.
  equivalent (exit 0, rightly): `+1` in LaneBytesBelow (cancels in the difference).
  reported as KNOWN-FINDING only: removing the repaired secondary overlap test from the fixed tree (it IS the known
    defect; becomes a VIOLATION when known_findings/C05.json flips that entry to "fixed").
"""
import json
import os
import struct

from vlib import aslrun, build, codefile, tlc, utilrun
from vlib.common import CheckError, Phase, log, pmap, rng, scratch
from vlib.report import Report

PID = "C05"
DEVS = ["filter_hdr", "lane_floor", "maxgran_explicit", "overlap_first_only", "zero_len"]
SEGNAMES = {1: "code", 2: "data", 3: "idata", 4: "xdata", 5: "ydata", 6: "bitdata", 7: "io", 8: "reg", 9: "romdata"}
ADDR_BOUND = 1 << 24

MC_QUICK = ["P2Bin_MC_window.cfg", "P2Bin_MC_overlap.cfg", "P2Bin_MC_select.cfg", "P2Bin_MC_post.cfg",
            "P2Bin_MC_files.cfg", "P2Bin_MC_phase.cfg", "P2Bin_MC_forms.cfg"]
MC_THOROUGH = ["P2Bin_MC_window3.cfg", "P2Bin_MC_overlap.cfg", "P2Bin_MC_select3.cfg", "P2Bin_MC_post.cfg",
               "P2Bin_MC_files3.cfg", "P2Bin_MC_phase3.cfg", "P2Bin_MC_forms3.cfg", "P2Bin_MC_formsseg.cfg"]
MC_QUICK += ["P2Bin_MC_mixed.cfg", "P2Bin_MC_mixedpost.cfg"]
MC_THOROUGH += ["P2Bin_MC_mixedpost.cfg", "P2Bin_MC_mixed2.cfg", "P2Bin_MC_mixed3.cfg"]
DEV_CFG = {d: "P2Bin_MC_dev_%s.cfg" % d for d in DEVS}
# hypothetical departures (P2Bin!Probes, not in the pinned tree): cfg, the invariant TLC must find violated
PROBES = {"skip_maxgran": ("P2Bin_MC_probe_skip_maxgran.cfg", "ConformsMixed")}


# ------------------------------------------------------------------------------------------------
# rendering a case (TLA+ record as JSON) into files + argv, and reading the observation back
# ------------------------------------------------------------------------------------------------
def render_items(items, r, creator=b"VERIF 1.0"):
    """write one code file.  An item that carries the field `short` is written with exactly that header form (TRUE: the
    one-byte header $01..$7f = cpu, nothing else -- segment and granularity are what the SPECIFICATION says such a
    record means, the renderer knows no table); for an item without the field the form is a rendering choice as before
    (utilrun.can_short: families with one granularity only)."""
    out = bytearray(utilrun.MAGIC)
    coin = [r.random() < 0.5 for _ in items]
    for it, heads in zip(items, coin):
        if it["k"] == "E":
            out += b"\x80" + struct.pack("<I", it["addr"] & 0xFFFFFFFF)
            continue
        data = bytes(it["data"])
        if "short" in it:
            use_short = bool(it["short"])
        else:
            use_short = heads and utilrun.can_short(it)
        if use_short:
            out.append(it["cpu"])
        else:
            out += bytes([0x81, it["cpu"], it["seg"], it["gran"]])
        out += struct.pack("<IH", it["start"] & 0xFFFFFFFF, len(data)) + data
    return bytes(out + b"\x00" + creator)


def render(c, r):
    o = c["o"]
    files = {}
    names = []
    for fi, f in enumerate(c["files"]):
        name = "f%d" % fi
        files[name + ".p"] = render_items(f["items"], r)
        arg = name + (".p" if r.random() < 0.7 else "")
        if f["off"] or r.random() < 0.2:
            arg += "(%s)" % utilrun.num(f["off"], r.randrange(4))
        names.append(arg)
    opts = []

    def bound(v):
        return r.choice(["$", "0x", "0X"]) if v < 0 else utilrun.num(v, r.randrange(4))

    if o["rs"] >= 0 or o["re"] >= 0 or r.random() < 0.6:
        opts.append(["-r", bound(o["rs"]) + "-" + bound(o["re"])])
    if o["fill"] != 255 or r.random() < 0.3:
        opts.append(["-l", utilrun.num(o["fill"], r.randrange(4))])
    if o["lane"] != "ALL" or r.random() < 0.3:
        opts.append(["-m", r.choice([o["lane"], o["lane"].lower(), o["lane"].capitalize()])])
    if o["hdr"] > 0:
        opts.append(["-S", r.choice(["L", "l", ""]) + str(o["hdr"])])
    elif o["hdr"] < 0:
        opts.append(["-S", r.choice(["B", "b"]) + str(-o["hdr"])])
    if o["e"] >= 0:
        opts.append(["-e", utilrun.num(o["e"], r.randrange(4))])
    if o["sum"]:
        opts.append(["-s"])
    if o["seg"] != 1 or r.random() < 0.2:
        opts.append(["-segment", r.choice([SEGNAMES[o["seg"]], SEGNAMES[o["seg"]].upper()])])
    opts.append(["-q"])
    fcmd, env = utilrun.filter_ops(o["fops"], r, "P2BINCMD")
    opts = utilrun.weave(opts, fcmd, r)
    flat = [x for op in opts for x in op]
    target = r.choice(["out.bin", "out"])
    if r.random() < 0.5:
        argv = flat + names + [target]
    else:
        argv = names + [target] + flat
    if env and r.random() < 0.4:
        # further options preset through the environment; the command line comes after it and wins
        env["P2BINCMD"] = r.choice(["-l 0x11 ", "-q ", "-m all "]) + env["P2BINCMD"]
        if "-l" in env["P2BINCMD"] and "-l" not in flat:
            argv = argv + ["-l", utilrun.num(o["fill"], r.randrange(4))]
    return {"argv": argv, "files": files, "want": ["out.bin"], "env": env}


def observe(res):
    rc = res["rc"]
    if res["timeout"]:
        rc = 124
    elif rc is not None and rc < 0:
        rc = 128 - rc
    data = res["files"].get("out.bin")
    return {"rc": rc, "bytes": list(data) if data is not None else [],
            "warn": "overlapping" in res["err"].lower() or "overlapping" in res["out"].lower()}


# ------------------------------------------------------------------------------------------------
# corpus-derived cases: real code files, seed-chosen options
# ------------------------------------------------------------------------------------------------
def corpus_items(pbytes):
    """tokenise a code file into the abstract items of spec/CodeFile.tla; None if outside the model.  A record with the
    one-byte header becomes an item {cpu, start, data, short: true} WITHOUT seg / gran: what it means is the
    specification's business (P2Bin!DRead).  Second result: per item the (seg, gran) the tokeniser assumes -- used only to
    choose windows worth trying, never for a judgement."""
    pr = codefile.parse(pbytes)
    if not pr.well_formed:
        return None, None
    items, hints = [], []
    for rec in pr.records:
        if rec.kind == "data":
            if rec.start + len(rec.data) >= ADDR_BOUND or rec.hdr != 0x81 and not rec.short:
                return None, None
            if rec.short:
                items.append({"k": "D", "cpu": rec.cpu, "start": rec.start, "data": list(rec.data), "short": True})
            else:
                items.append({"k": "D", "cpu": rec.cpu, "seg": rec.seg, "gran": rec.gran, "start": rec.start,
                              "data": list(rec.data)})
            hints.append((rec.seg, rec.gran))
        elif rec.kind == "entry":
            if rec.start >= ADDR_BOUND:
                return None, None
            items.append({"k": "E", "addr": rec.start})
            hints.append(None)
        elif rec.kind == "other":
            return None, None
    return items, hints


def corpus_options(items, hints, r, maxwin):
    """a few option sets for one real file (what to try is a rendering choice; the judgement is TLC's)"""
    data = [{"seg": h[0], "gran": h[1], "start": it["start"], "data": it["data"], "cpu": it["cpu"]}
            for it, h in zip(items, hints) if it["k"] == "D" and it["data"]]
    if not data:
        return []
    segs = sorted({it["seg"] for it in data})
    cpus = sorted({it["cpu"] for it in data})
    out = []
    for _ in range(3):
        seg = r.choice(segs) if r.random() < 0.7 else 1
        sel = [it for it in data if it["seg"] == seg]
        o = {"rs": -1, "re": -1, "fill": r.choice([255, 0, 0xA5]), "lane": "ALL", "hdr": 0, "e": -1, "sum": False,
             "fops": [], "seg": seg}
        if sel:
            it = r.choice(sel)
            g = it["gran"]
            units = len(it["data"]) // g
            lo = max(0, it["start"] - r.choice([0, 0, 1, 4, 16]))
            hi = it["start"] + max(0, min(units, maxwin) - 1) + r.choice([0, 0, 1, 4, 64])
            # window edges strictly INSIDE the chosen record (its first / last addresses are clipped away)
            if units > 1 and r.random() < 0.3:
                lo = it["start"] + r.randrange(1, min(units, maxwin))
            if units > 1 and r.random() < 0.3:
                hi = max(lo, it["start"] + r.randrange(0, min(units, maxwin) - 1))
            mode = r.randrange(5)
            lane = r.choice(["ALL", "ALL", "EVEN", "ODD", "BYTE0", "BYTE1", "BYTE2", "BYTE3", "WORD0", "WORD1"])
            if lane != "ALL":
                # whole lane periods in length; the window start takes any phase of the period (ph = 0: aligned)
                ph = r.choice([0, 0, 1, 2, 3])
                lo -= lo % 4
                hi += 3 - (hi % 4)
                lo, hi = lo + ph, hi + ph
            span = max(it2["start"] + len(it2["data"]) // it2["gran"] for it2 in sel) - min(it2["start"] for it2 in sel)
            if mode == 0 and span <= maxwin:
                pass
            elif mode == 1 and span <= maxwin:
                o["rs"] = lo
            elif mode == 2 and span <= maxwin:
                o["re"] = hi
            else:
                o["rs"], o["re"] = lo, hi
            o["lane"] = lane
        else:
            o["rs"], o["re"] = 0, 15
        if r.random() < 0.35:
            a, b, x = r.choice(cpus), r.choice(cpus), r.choice(cpus) ^ 0x40
            o["fops"] = r.choice([
                [{"neg": False, "list": [a], "env": False}],
                [{"neg": False, "list": [x], "env": False}],
                [{"neg": False, "list": [x, a, b ^ 0x21], "env": False}, {"neg": True, "list": [x], "env": False}],
                [{"neg": False, "list": [a, x, b ^ 0x21], "env": True}, {"neg": True, "list": [x], "env": False}],
                [{"neg": False, "list": [a, x], "env": False}, {"neg": True, "list": [a], "env": False}]])
        if r.random() < 0.3:
            o["hdr"] = r.choice([-4, -3, -2, -1, 1, 2, 3, 4])
            if r.random() < 0.5:
                o["e"] = r.choice([0x1234, 0x123456, 0x7F])
        o["sum"] = r.random() < 0.3
        out.append(o)
    return out


# ------------------------------------------------------------------------------------------------
# programs for SEVERAL processors of different granularity in one segment, written by the real asl
# ------------------------------------------------------------------------------------------------
# (CPU name, data statement, bytes per address, largest value).  What the records mean is read back from the code file
# by the independent reader; this table only spells sources.
MIX_CPUS = [("z80", "db", 1, 255), ("8051", "db", 1, 255), ("6502", "byt", 1, 255),
            ("32015", "data", 2, 65535), ("16c84", "data", 2, 16383), ("320C30", "word", 4, (1 << 31) - 1)]


def mixed_source(r):
    """one source: 2..4 blocks of different processors at ascending (sometimes overlapping) addresses; at least two
    different address units among them"""
    while True:
        blocks = [r.choice(MIX_CPUS) for _ in range(r.randrange(2, 5))]
        if len({b[2] for b in blocks}) > 1:
            break
    lines, adr = [], r.choice([0, 3, 16, 0x100])
    for (cpu, stmt, _, top) in blocks:
        n = r.choice([1, 2, 4, 5, 8, 12, 16])
        lines.append("\tcpu\t%s" % cpu)
        lines.append("\torg\t%d" % adr)
        vals = [r.randrange(1, top + 1) for _ in range(n)]
        for i in range(0, n, 6):
            lines.append("\t%s\t%s" % (stmt, ",".join(str(v) for v in vals[i:i + 6])))
        adr = max(0, adr + n + r.choice([-2, 0, 0, 1, 3, 8]))
    return "\n".join(lines) + "\n"


def mixed_programs(rep, tier, bld, maxwin):
    """-> list of (name, case, job): real code files with records of several granularities, seed-chosen option sets
    (windows starting / ending inside, at the edge of and outside records of either unit, lanes, -S, -e, -s, -l, -f;
    a quarter of the programs as two code files, the second with an (offset))"""
    nprog = 40 if tier == "quick" else 400
    progs = []
    for i in range(nprog):
        r = rng("c05/mixprog/%d" % i)
        srcs = [mixed_source(r)]
        off = 0
        if r.random() < 0.25:
            srcs.append(mixed_source(r))
            off = r.choice([0, 1, 7, 0x40])
        progs.append((r, srcs, off))
    jobs = [{"sources": {"a.asm": src}, "main": "a.asm", "opts": ["-q"]} for (_, srcs, _) in progs for src in srcs]
    with Phase("assemble %d programs for several processors" % len(jobs)):
        res = aslrun.assemble_many(bld, jobs)
    out, k, nfiles = [], 0, 0
    for i, (r, srcs, off) in enumerate(progs):
        ps = [res[k + j].p for j in range(len(srcs))]
        k += len(srcs)
        if any(p is None for p in ps):
            raise CheckError("asl did not assemble a mixed-processor source: %s" % srcs[0][:200])
        toks = [corpus_items(p) for p in ps]
        if any(t[0] is None for t in toks):
            continue
        nfiles += len(ps)
        files = [{"off": 0, "items": toks[0][0]}] + ([{"off": off, "items": toks[1][0]}] if len(ps) > 1 else [])
        # all records with their final addresses: only to choose windows worth trying
        flat = list(toks[0][0]) + [dict(it, start=it["start"] + off) if it["k"] == "D" else it
                                   for it in (toks[1][0] if len(ps) > 1 else [])]
        hints = list(toks[0][1]) + (list(toks[1][1]) if len(ps) > 1 else [])
        for o in corpus_options(flat, hints, r, maxwin) + corpus_options(flat, hints, r, maxwin)[:1]:
            c = {"files": files, "o": o}
            job = render(c, r)
            job["files"] = {"f%d.p" % j: p for j, p in enumerate(ps)}        # the real files
            out.append(("mixed-processor program %d" % i, c, job))
    rep.part("mixed_processor_programs", programs=nprog, code_files=nfiles, cases=len(out))
    return out


# ------------------------------------------------------------------------------------------------
def judge(rep, tier, pending, bld):
    """pending: list of (tag, case, job, obs, exp) to be judged by TLC (P2Bin_Trace)."""
    if not pending:
        return
    path = os.path.join(scratch(), "c05-cases.ndjson")
    # deviations still listed as known defects (known_findings/C05.json): TLC prefers them when several sets explain
    known = sorted({k["match"]["explained_by"] for k in rep.known
                    if k.get("status") == "known" and "explained_by" in k.get("match", {})})
    with open(path, "w") as f:
        for i, (tag, c, job, obs, exp) in enumerate(pending):
            f.write(json.dumps({"id": i, "c": c, "obs": obs, "known": known}, separators=(",", ":")) + "\n")
    with Phase("TLC judges %d observations" % len(pending)):
        r = tlc.must(tlc.run("P2Bin_Trace", "P2Bin_Trace.cfg", workers=1, env={"CASES": path}, mem="8g",
                             timeout=1500 if tier == "quick" else 3000), "P2Bin_Trace")
    if r.violation:
        raise CheckError("P2Bin_Trace did not judge every case: %s" % r.violation[:400])
    rep.model("P2Bin_Trace(%d observations)" % len(pending), r)
    verdicts = {v["id"]: v for (tag, v) in r.printed if tag == "OUT"}
    if len(verdicts) != len(pending):
        raise CheckError("P2Bin_Trace judged %d of %d cases" % (len(verdicts), len(pending)))
    harmless = {}
    ndrift = 0
    # DESIGN 2.4 rule 3: a rejected observation counts only if a second run of the real program repeats it
    bad = [i for i in range(len(pending)) if not verdicts[i]["ok"]]
    flaky = set()
    if bad:
        again = utilrun.run_many(bld, "p2bin", [pending[i][2] for i in bad])
        for i, r2 in zip(bad, again):
            if observe(r2) != pending[i][3]:
                flaky.add(i)
                rep.drift("p2bin %s is not deterministic: %s vs %s"
                          % (" ".join(pending[i][2]["argv"]), _short(pending[i][3]), _short(observe(r2))))
    for i, (tag, c, job, obs, exp) in enumerate(pending):
        if i in flaky:
            continue
        v = verdicts[i]
        fit = v["fit"]
        if v["ok"]:
            if fit == ["none"]:
                ndrift += 1
                if ndrift <= 8:
                    rep.drift("%s: observation is allowed by the property but not reproduced by the operational model "
                              "under any deviation set: argv=%s obs=%s model=%s"
                              % (tag, " ".join(job["argv"]), _short(obs), _short(exp)))
            elif fit:
                harmless["+".join(fit)] = harmless.get("+".join(fit), 0) + 1
            continue
        files = dict(job["files"])
        files["argv.json"] = json.dumps(job["argv"])
        files["env.json"] = json.dumps(job.get("env") or {})
        files["observed.json"] = json.dumps(obs)
        exp = v["model"]
        files["expected_by_spec.json"] = json.dumps(exp)
        what = ("%sp2bin %s: observed %s; the specification demands (one allowed output) %s"
                % ("".join("%s='%s' " % kv for kv in (job.get("env") or {}).items()), " ".join(job["argv"]),
                   _short(obs), _short(exp)))
        if fit == ["none"] or not fit:
            rep.violation(what + (" [no named deviation explains it]" if fit else " [the repaired model agrees with "
                          "the program but the declarative property rejects both]"), case=c, files=files,
                          key={"explained_by": "none" if fit else "model"})
        else:
            for d in fit:
                rep.violation(what + " [explained by deviation %s]" % "+".join(fit), case=c, files=files,
                              key={"explained_by": d})
    if ndrift > 8:
        rep.drift("... and %d more observations the operational model does not reproduce (not verdict-bearing)"
                  % (ndrift - 8))
    if harmless:
        rep.part("deviations_seen_without_property_effect", **harmless)


def _short(o):
    b = o.get("bytes", [])
    hx = bytes(b[:48]).hex() + ("..." if len(b) > 48 else "")
    return "{rc=%s len=%d bytes=%s warn=%s}" % (o.get("rc"), len(b), hx, o.get("warn"))


def main(tier):
    rep = Report(PID, tier)
    bld = build.get("hook")
    rep.assumptions += ["TLC explores P2Bin only within the constants of the cfg files; addresses < 2^24",
                        "the Python side only writes code files / command lines and reads the output file, exit status "
                        "and the overlap message; every expected value and every judgement is printed by TLC",
                        "independent code-file reader (vlib.codefile) tokenises real code files for P2Bin_Trace"]
    # (M) ------------------------------------------------------------------------------------------
    nomc = bool(os.environ.get("VERIF_DEV_NOMC"))     # developer shortcut for mutation runs: replay/judging only
    for cfg in ([] if nomc else MC_QUICK if tier == "quick" else MC_THOROUGH):
        with Phase("TLC " + cfg):
            mc = tlc.must(tlc.run("P2Bin_MC", cfg, timeout=2400, mem="10g", collect=False), cfg)
        if mc.violation:
            raise CheckError("P2Bin with all repairs violates its own property in %s: %s" % (cfg, mc.violation[:800]))
        rep.model("P2Bin_MC(%s)" % cfg, mc)
    if not nomc:
        fl = tlc.must(tlc.run("FilterList_MC", "FilterList_MC5.cfg" if tier == "quick" else "FilterList_MC.cfg", timeout=900,
                              mem="4g", collect=False), "FilterList_MC")
        if fl.violation:
            raise CheckError("FilterList violates its invariants: %s" % fl.violation[:600])
        rep.model("FilterList_MC", fl)
    found = {}
    for d in ([] if nomc else DEVS):
        mc = tlc.must(tlc.run("P2Bin_MC", DEV_CFG[d], timeout=900, mem="6g", collect=False, workers=4), DEV_CFG[d])
        found[d] = bool(mc.violation) and "Conforms" in mc.violation
        if not found[d]:
            raise CheckError("deviation %s is vacuous: TLC finds no violation of Conforms with Dev = {%s}" % (d, d))
        rep.model("P2Bin_MC(Dev={%s}: defect found by TLC)" % d, mc)
    for d, (cfg, inv) in ([] if nomc else sorted(PROBES.items())):
        mc = tlc.must(tlc.run("P2Bin_MC", cfg, timeout=900, mem="6g", collect=False, workers=4), cfg)
        if not (mc.violation and ("Invariant %s is violated" % inv) in mc.violation):
            raise CheckError("the declarative claim %s is vacuous: TLC does not find it violated with Dev = {%s}: %s"
                             % (inv, d, (mc.violation or "no violation")[:300]))
        rep.model("P2Bin_MC(probe {%s}: %s violated, found by TLC)" % (d, inv), mc)

    # (G) ------------------------------------------------------------------------------------------
    cases = []
    for cfg in (["P2Bin_Cover.cfg", "P2Bin_CoverOvl.cfg", "P2Bin_CoverBig.cfg", "P2Bin_CoverFilt.cfg", "P2Bin_CoverPhase.cfg",
                 "P2Bin_CoverForms.cfg", "P2Bin_CoverMixed.cfg", "P2Bin_CoverMixedPost.cfg"]
                if tier == "quick"
                else ["P2Bin_Cover1.cfg", "P2Bin_CoverOvl.cfg", "P2Bin_CoverBig.cfg", "P2Bin_CoverFilt.cfg", "P2Bin_Cover2.cfg",
                      "P2Bin_CoverPhase1.cfg", "P2Bin_CoverForms1.cfg", "P2Bin_CoverForms2.cfg", "P2Bin_CoverMixed1.cfg",
                      "P2Bin_CoverMixedPost.cfg"]):
        with Phase("TLC " + cfg):
            cov = tlc.must(tlc.run("P2Bin_Gen", cfg, timeout=1500, mem="8g"), cfg)
        rep.model("P2Bin_Gen(%s)" % cfg, cov)
        cases += [("cover", x) for (tag, x) in cov.printed if tag == "TR"]
    ncover = len(cases)
    nsim = 400 if tier == "quick" else 4000
    with Phase("TLC simulate"):
        sim = tlc.must(tlc.run("P2Bin_Gen", "P2Bin_Sim.cfg", workers=4, simulate=nsim, depth=12, timeout=1500,
                               mem="8g"), "P2Bin_Gen simulate")
    seen = set()
    for (tag, x) in sim.printed:
        if tag == "BEH":
            k = json.dumps(x["c"], sort_keys=True)
            if k not in seen:
                seen.add(k)
                cases.append(("sim", x))
    rep.part("generation", cover_cases=ncover, simulated_distinct=len(seen),
             definite=sum(1 for (_, x) in cases if x["def"]),
             definite_mixed_granularity=sum(1 for (_, x) in cases if x["mix"]))
    for (_, x) in cases:
        if (x["def"] or x["mix"]) and not x["allowed"]:
            raise CheckError("specification inconsistent: Run({}, c) not Allowed for %s" % json.dumps(x["c"])[:600])
    jobs = [render(x["c"], rng("c05/%d" % i)) for i, (_, x) in enumerate(cases)]
    with Phase("replay %d cases into p2bin" % len(jobs)):
        results = utilrun.run_many(bld, "p2bin", jobs)
    pending = []
    again = []
    for i, ((kind, x), job, res) in enumerate(zip(cases, jobs, results)):
        rep.evaluated()
        rep.distinct(json.dumps(x["c"], sort_keys=True), bool(x["def"] or x["mix"]))
        obs = observe(res)
        if obs != x["exp"]:
            again.append(i)
    if again:
        # DESIGN 2.4 rule 3: only a repeated observation is judged
        with Phase("re-run %d differing cases" % len(again)):
            res2 = utilrun.run_many(bld, "p2bin", [jobs[i] for i in again])
        for i, r2 in zip(again, res2):
            o1, o2 = observe(results[i]), observe(r2)
            if o1 != o2:
                rep.drift("p2bin %s is not deterministic: %s vs %s" % (" ".join(jobs[i]["argv"]), _short(o1), _short(o2)))
                continue
            pending.append(("%s case" % cases[i][0], cases[i][1]["c"], jobs[i], o1, cases[i][1]["exp"]))
    rep.part("replay", cases=len(jobs), differing_from_model=len(pending))
    for (kind, x), job in list(zip(cases, jobs))[:2] + list(zip(cases, jobs))[-2:]:
        rep.sample({"case": x["c"], "argv": job["argv"], "expected": x["exp"], "definite": x["def"],
                    "definite_mixed": x["mix"]})
    rep.traces(len(jobs))

    # (V) real code files ----------------------------------------------------------------------------
    tests = aslrun.corpus()
    r = rng("c05/corpus")
    if tier == "quick":
        tests = r.sample(tests, min(70, len(tests)))
    maxsize = 24 * 1024 if tier == "quick" else 96 * 1024
    maxwin = 1024 if tier == "quick" else 4096

    def asm(t):
        import shutil
        res = aslrun.assemble_corpus(bld, t)
        shutil.rmtree(res.dir, ignore_errors=True)
        return t[0], res.p
    with Phase("assemble %d golden tests" % len(tests)):
        ps = pmap(asm, tests)
    # the same programs as PBIND writes them (one-byte headers for CODE records of default granularity, long headers
    # for the rest): the real pbind is only the PRODUCER of these inputs, the independent reader tokenises what it wrote.
    # Quick tier: every file with records of more than one segment or of a family whose granularity depends on the
    # segment, and a seed-chosen fifth of the others.
    SEGDEP = {0x3b, 0x1a, 0x1b, 0x1c, 0x1d}
    bsrc = []
    for name, p in ps:
        if p is None or len(p) > maxsize:
            continue
        pr = codefile.parse(p)
        recs = pr.data_records() if pr.well_formed else []
        if not recs:
            continue
        special = len({rc.seg for rc in recs}) > 1 or any(rc.cpu in SEGDEP for rc in recs)
        if tier != "quick" or special or rng("c05/bind/" + name).random() < 0.2:
            bsrc.append((name, p))
    with Phase("pbind on %d golden code files" % len(bsrc)):
        bres = utilrun.run_many(bld, "pbind", [{"argv": ["src.p", "bound.p"], "files": {"src.p": p}, "want": ["bound.p"]}
                                               for (_, p) in bsrc])
    bound = [(name + "+pbind", res["files"].get("bound.p")) for (name, _), res in zip(bsrc, bres)]
    nshort = 0
    cjobs, ccases, skipped = [], [], 0
    for name, p in ps + bound:
        if p is None or len(p) > maxsize:
            skipped += 1
            continue
        items, hints = corpus_items(p)
        if items is None:
            skipped += 1
            continue
        nshort += sum(1 for it in items if it.get("short"))
        rr = rng("c05/corpus/" + name)
        for o in corpus_options(items, hints, rr, maxwin):
            c = {"files": [{"off": 0, "items": items}], "o": o}
            job = render(c, rr)
            job["files"] = {"f0.p": p}          # the real file, not a re-rendering
            cjobs.append(job)
            ccases.append((name, c))
    for name, c, job in mixed_programs(rep, tier, bld, maxwin):
        cjobs.append(job)
        ccases.append((name, c))
    with Phase("run p2bin on %d corpus cases" % len(cjobs)):
        cres = utilrun.run_many(bld, "p2bin", cjobs)
    for (name, c), job, res in zip(ccases, cjobs, cres):
        rep.evaluated()
        rep.distinct("corpus/%s/%s" % (name, json.dumps(c["o"], sort_keys=True)))
        pending.append((name if name.startswith("mixed-") else "golden test %s" % name, c, job, observe(res),
                        {"rc": "?", "bytes": [], "warn": "?"}))
    rep.part("corpus", files=len(ps) + len(bound) - skipped, skipped_outside_model=skipped, cases=len(cjobs),
             bound_by_pbind=len(bound), short_header_records=nshort)
    rep.traces(len(cjobs))
    judge(rep, tier, pending, bld)
    return rep.finish(
        rule="cases = every case of the TLC cover space (P2Bin_Cover*.cfg) + TLC-simulated wide cases + seed-chosen "
             "option sets on code files of the golden tests; distinct = distinct abstract case; non-trivial = the "
             "manual gives the case a definite outcome (Definite)", exhaustive=False)


def replay(path):
    v = json.load(open(os.path.join(path, "violation.json")))
    bld = build.get("hook")
    argv = json.load(open(os.path.join(path, "argv.json")))
    envp = os.path.join(path, "env.json")
    env = json.load(open(envp)) if os.path.exists(envp) else {}
    log("environment: %s" % env)
    files = {}
    for n in os.listdir(path):
        if n.endswith(".p"):
            files[n] = open(os.path.join(path, n), "rb").read()
    res = utilrun.run_one(bld, "p2bin", {"argv": argv, "files": files, "want": ["out.bin"], "env": env})
    obs = observe(res)
    log("p2bin %s" % " ".join(argv))
    log("observed now : %s" % _short(obs))
    log("recorded obs : %s" % _short(json.load(open(os.path.join(path, "observed.json")))))
    log("spec expects : %s" % _short(json.load(open(os.path.join(path, "expected_by_spec.json")))))
    log("recorded: %s" % v["what"][:400])
    return 0
