"""C20, dimension "-E targets x SEVERAL sources in one invocation" (phase `multi`): WHERE the messages of every source
of a command line `asl [options] s1 s2 s3` end up.

Why: a seeded change (as.c AssembleFile(): the per-source clean-up `if (!*ErrorPath) CloseIfOpen(&ErrorFile)` lost
its `!`) passed the check and all 201 golden tests.  The handle of the error target is then closed behind every
source exactly when it has to stay open (`-E name`: the next message re-opens the file with fopen(.., "w") and every
message of the earlier sources is gone) and stays open when it has to be closed (`-E` alone: the messages of the
later sources land in the first faulty source's .log, their own .log is never written).  Every run of the check
assembled ONE source, where the two closes coincide; the `-E targets` part of C20's quantifier was enumerated only
as file / !1 / stderr for that one source.

Specification: spec/DiagPos.tla, section "-E targets over ONE invocation with SEVERAL sources"
  * machine: SinkMainBegin / SinkFileBegin / SinkOpen + SinkWrite / SinkFileEnd / SinkMainEnd, one operator per place
    of the code that touches ErrorPath, ErrorName, ErrorFile (as.c main(), AssembleFile() head and tail, asmerr.c
    WrErrorString() with stdhandl.c OpenWithStandard() = lazy open, "w" creates / empties, !0..!2 are handles,
    unlink of the name before the first open); state = path, name, handle, the files of the directory, the handles;
  * declarative side: TargetOf (the one place the option set sends a source's messages to: the name, the handle,
    <source>.log) and HeldDecl (a place holds the messages of all sources sent there, in command-line order);
  * placements MultiFiles / SrcLines: source i of shape clean | main (faulty line at line i + 1) | incl (shared
    I1.INC with a faulty line + a faulty line behind the INCLUDE) | macro (faulty body line, two calls) | late
    (undefined symbol: complains in pass 2, last line) and, thorough, warn (warnings only) | nest (own N<i>.INC that
    includes I1.INC, behind a continued line) | rept | cont2.
(M+G) spec/DiagSink_MC.tla: all command lines of 1..3 sources over the quick shapes (155 jobs; thorough 657 over all
    shapes) - so every subset of faulty sources and every order - x the six forms none | !0 | !1 | !2 | -E name | -E.
    Per source the machine of MacroProc and the declarative expansion are run as in DiagPos_MC; TLC checks
    SourcesPlanted, SinkMatchesDecl (every place holds what the manual's sentence says, nothing else exists, the
    handle is closed at the end), EveryFaultNamedWhereSent (C20: every statement that raises a message is named in
    the place its source's messages are sent to) and NoForeignInLog, and prints per job x 11 (form, -x, -n,
    -gnuerrors) combinations the expected messages of EVERY place (err.log, a.log, b.log, c.log, !1, !2).
Replay: each combination is one invocation of the real asl with all sources on the command line; stdout, stderr
and every *.log / err.log are tokenised (vlib.diagparse) and each place is compared with TLC's list for it.
Verdict-bearing: a place that does not hold exactly the expected (file, line, construct chain / include chain,
class, number) list - a message that is lost, or lands in another source's log, leaves a faulty line that is named
nowhere the user looks.  The order of the messages inside a place is part of the comparison (as in the other families).
Not covered: !0 (model only: what is written to the standard input handle cannot be observed), !3 / !4 (not
handles in this port), the same source twice / two sources with the same base name (the later log replaces the
earlier; DistinctLogs is a stated precondition), wildcard arguments, -E combined with -L / listing duplication,
fatal errors (EmergencyStop closes the handle), existing read-only targets.
Mutations of the real code tried on scratch copies (201 ctest tests green each time), quick tier:
  AssembleFile(): `if (*ErrorPath) CloseIfOpen` (the seed)            -> VIOLATION, 640 of 1705 invocations (-E name, -E)
  AssembleFile(): `if (0)` (handle never closed per source)           -> VIOLATION (-E: later sources land in the first log)
  AssembleFile(): `if (1)` (handle closed behind every source)        -> VIOLATION (-E name: earlier sources are lost)
Mutation of the model: SinkFileEnd with the condition inverted -> TLC refutes SinkMatchesDecl (already for one source:
the handle is not closed when the invocation ends).
"""
from vlib import aslrun
from vlib import diagparse as dp
from vlib import macrorender as mr
from vlib.common import Phase

MODULE = "DiagSink_MC"
INVS = "SourcesPlanted SinkMatchesDecl EveryFaultNamedWhereSent NoForeignInLog"
DIALECT = "68000"
FILES = ["err.log", "a.log", "b.log", "c.log"]


def cfg_text(tier, fixed):
    return ('CONSTANTS Fixed = %s HasAttrs = FALSE MaxNum = 2200 Tier = "%s"\nINIT Init\nNEXT Next\n'
            'INVARIANTS Dump %s\nCHECK_DEADLOCK FALSE\n' % (fixed, tier, INVS))


def options(op):
    """-E without a name must be followed by an option (else the first source would be taken as its argument)"""
    opts = ["-cpu", DIALECT] + ["-x"] * op["x"] + (["-n"] if op["n"] else []) + (["-gnuerrors"] if op["gnu"] else [])
    e = op["e"]
    if e == "named":
        opts += ["-E", "err.log"]
    elif e == "per":
        opts += ["-E"]
    elif e != "none":
        opts += ["-E", e]
    return opts + ["-q"]


def norm(ms):
    return [(m["file"].upper(), m["line"], tuple((e["k"], e["n"], e["i"], e["b"]) for e in m["chain"]), m["cls"],
             m["num"], tuple((i["file"].upper(), i["line"]) for i in m["incl"])) for m in ms]


def replay(rep, bld, outs, alldevs):
    jobs, meta = [], []
    for o in outs:
        if o["indef"]:
            continue
        src = {f: mr.render_file(ls, DIALECT, None, preamble=False) for f, ls in o["p"].items()}
        for run_ in o["runs"]:
            if run_["opt"]["e"] == "!0":
                continue
            opts = options(run_["opt"])
            jobs.append({"sources": src, "main": list(o["srcs"]), "opts": opts, "want": FILES})
            meta.append((o, run_, src, opts))
    with Phase("multi: replay %d invocations of %d command lines with 1..3 sources" % (len(jobs), len(outs))):
        res = aslrun.assemble_many(bld, jobs)
    stats = {"invocations": len(jobs), "command_lines": len(outs), "with_2_or_3_sources": 0, "places_compared": 0,
             "places_with_messages": 0, "per_source_logs_with_messages": 0}
    for (o, run_, src, opts), rs in zip(meta, res):
        rep.evaluated()
        rep.distinct((tuple(sorted(src.items())), " ".join(opts)), nontrivial=any(run_["want"][t] for t in run_["want"]))
        stats["with_2_or_3_sources"] += len(o["srcs"]) > 1
        devs = sorted(o["devs"]) + sorted(o["pdevs"])
        key = {"dev_" + d: (d in devs) for d in alldevs}
        key["form"] = run_["opt"]["e"]
        key["sources"] = len(o["srcs"])
        files = {"src_" + f: t.encode("latin-1") for f, t in src.items()}
        case = {"tag": o["tag"], "opts": opts, "main": list(o["srcs"])}
        if rs.timeout or rs.sig is not None or rs.rc not in (0, 2):
            key["kind"] = "crash"
            rep.violation("asl ended abnormally (rc=%s signal=%s) on command line %s %s" % (rs.rc, rs.sig, " ".join(opts), o["srcs"]),
                          case=case, files=files, key=key)
            continue
        seen = {"!1": rs.out, "!2": rs.err}
        for f in FILES:
            seen[f] = rs.files.get(f, b"").decode("latin-1")
        for t, text in seen.items():
            files["place_" + t.replace("!", "std")] = text
        gnu = run_["opt"]["gnu"]
        wrong = []
        for t in sorted(seen):
            got, bad = dp.parse_channel(seen[t], gnu)
            if bad:
                key["kind"] = "format"
                rep.violation("position string %r in %s of %s does not have the documented shape" % (bad[0], t, o["tag"]),
                              case=case, files=files, key=key)
                wrong = None
                break
            w = norm(run_["want"].get(t, []))
            stats["places_compared"] += 1
            stats["places_with_messages"] += bool(w)
            stats["per_source_logs_with_messages"] += bool(w) and run_["opt"]["e"] == "per"
            if norm(got) != w:
                wrong.append((t, w, norm(got), norm(run_["coded"].get(t, []))))
        if wrong:
            key["kind"] = "sink"
            key["as_model"] = bool(devs) and all(g == c for (_, _, g, c) in wrong)
            t, w, g, _ = wrong[0]
            lost = [m[:2] for m in w if m not in g]
            rep.violation("asl %s %s: %s must hold %d message(s) %s and holds %d %s%s (%d place(s) differ: %s); target of each source: %s"
                          % (" ".join(opts[2:]), " ".join(o["srcs"]), t, len(w), [m[:2] for m in w][:4], len(g), [m[:2] for m in g][:4],
                             ("; not named there: %s" % lost[:4]) if lost else "", len(wrong), [x[0] for x in wrong], run_["target"]),
                          case=dict(case, want=run_["want"], got={x[0]: [list(m) for m in x[2]] for x in wrong}), files=files, key=key)
    for (o, run_, src, opts) in meta[len(meta) // 2:len(meta) // 2 + 1] + meta[-1:]:
        rep.sample({"tag": o["tag"], "opts": opts, "sources_on_command_line": o["srcs"], "source": src,
                    "expected_by_TLC_per_place": {t: v for t, v in run_["want"].items() if v}})
    rep.traces(len(meta))
    rep.part("multi", **stats)
    return stats
