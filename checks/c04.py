"""C04 - The code file contains exactly the program's bytes at the program's addresses.

(M) CodeWriter_MC: the writer of asmcode.c transcribed cell by cell (seek/overwrite, 3-way buffer logic, record
    split, RetractWords, CloseFile) with BufSize=4 / MaxRecLen=9 under every interleaving of Emit / Reserve / Org /
    Segment / Cpu / Retract / End up to 5 statements: WellFormed, Conservation (Image(file) = emitted, no byte
    twice), EntryKept, HeadersTruthful, LenFits, BufInBounds.
(G) CodeWriter_Gen: TLC-simulated statement sequences over the real boundary classes (chunk sizes around the
    512-byte buffer, runs across the 65535-byte record limit, ORG gaps 0/1/backwards, segment and CPU switches,
    END with entry) rendered for byte-, word- and 4-byte-granular dialects; the image TLC predicts (address
    bookkeeping by the spec, bytes = deterministic pattern of statement index) is compared with the code file
    parsed by the independent reader.
(V) CodeWriter_Trace: emit/reserve/retract hook events of the last pass of every corpus program and every
    generated program + the independently parsed .p are validated by TLC: the file's data in file order is the
    emitted stream in emission order, every byte at its address/segment/granularity, file fully consumed,
    documented well-formedness.  CodeWriter_TraceRec (diagnostic): predicted record boundaries.
Output-context family (added after a seeded change that dropped `DontPrint = True` from RESTORE's segment branch:
the data after SAVE / SEGMENT / RESTORE was appended to the record of the segment left behind).  The missing
dimension was the set of statements that change the output context of the following data - segment, CPU/granularity,
load address - WITHOUT being SEGMENT/ORG/CPU, and their look-alikes that must NOT change it:
(M) CodeWriter_MC, second machine SpecFam (CodeWriter_MCFam.cfg, thorough CodeWriter_MCFam6.cfg): handlers written
    like the code (they set ActPC/CPU/PCs and the DontPrint flag; WriteCode turns the flag into NewRecord) for SAVE,
    RESTORE (segment and/or CPU come back), ORG to the current address, RORG (0, +1, -1), ALIGN reserving / filling,
    the STRUCT..ENDSTRUCT block, BINCLUDE (chunked, BinChunk = 2), CPU as a statement (also the current CPU: back to
    CODE), SEGMENT with the active segment; <= 5 (6) statements, BufSize 4, MaxRecLen 9: the six invariants + the new
    OpenRecordTracksCounter (after every statement the open record's header names the current CPU / segment /
    granularity and start + length = load address - also added to the first machine).  103,623 distinct states.
    CodeWriter_MCFam_dev_restore.cfg = the handler without the flag: rejected by Conservation (model-level binding).
(G) CodeWriter_GenFam (EXTENDS CodeWriter_Gen): (a) transition cover of the CONTEXT graph (VIEW = target, segment,
    SAVE stack, open record dirty [thorough: + phase in force, SAVE depth 2, 5 dialects]): every family statement from
    every context, followed by a probing data statement, the RESTOREs owed and END - 2,702 programs quick (122
    contexts, dialects 8051/c25/pic/c30), ~58,700 thorough; (b) 60 (2,500) simulated programs mixing the family with
    CodeWriter_Gen's boundary sizes (BINCLUDE of 255..1100 bytes, REPT 300, ALIGN 256 with fill).  Same verdict as
    before: parsed image = image TLC predicts (addresses by the spec; bytes = pattern / fill value / included file).
    ORG and ALIGN under PHASE use the execution address (implemented reading, see AddrBook.tla OrgWhilePhased);
    BINCLUDE only in byte-granular segments (the manual counts it in bytes; other granularities: C11).
(V) all family programs also go through CodeWriter_Trace / CodeWriter_TraceRec.
Not covered: relocatable records (0x82-0x85); I/O errors; SAVE/RESTORE inside macro bodies or include files; nested
STRUCTs and structure instantiation between data (C10's StructInst); RESTORE that brings back a segment the restored
CPU does not have.
Mutations tried (scratch copy of /repo, see DESIGN.md "Binding demonstrations"): dropping FlushBuffer in
NewRecord, off-by-one in the 0xffff split test, `<` -> `<=` in the buffer test, RetractWords without the seek.
Family (asmallg.c, `DontPrint = ...` removed): RESTORE segment branch (seeded; 12 violations), RORG (168 of 2,702
cover programs differ), ALIGN one-argument form (56), BINCLUDE (144) - all caught; ENDSTRUCT (0: equivalent at the
property level - the structure body never changed segment or address, the extra record is not needed).
"""
import os

from vlib import aslrun, build, codefile, tlc, tracecheck
from vlib.common import CheckError, Phase, log, pmap, rng
from vlib.report import Report

PID = "C04"

# dialect: cpu name, gran (bytes per unit), data op, reserve op, unit bits, segments, max address (units)
DIALECTS = {
    "z80": dict(cpu="z80", gran=1, data="db", res="ds", bits=8, segs=["code"], lim=0x10000),
    "8051": dict(cpu="8051", gran=1, data="db", res="ds", bits=8, segs=["code", "xdata"], lim=0x10000),
    "c25": dict(cpu="320c25", gran=2, data="word", res="res", bits=16, segs=["code", "data"], lim=0x10000),
    "c30": dict(cpu="320c30", gran=4, data="word", res="bss", bits=32, segs=["code"], lim=0x100000),
    # mixed granularity: CODE counts words, DATA counts bytes (the record header carries the segment's own one)
    "pic": dict(cpu="16c877", gran=2, data="data", res="res", bits=14, segs=["code", "data"], lim=0x2000,
                sgran={"data": 1}),
}
SEGNO = {"code": 1, "data": 2, "xdata": 4}


def seg_gran(d, seg):
    return d.get("sgran", {}).get(seg, d["gran"])



def unit_value(k, i, bits):
    """deterministic pattern: value of unit i of statement k"""
    v = (k * 7919 + i * 31 + 1)
    return v % (1 << bits) if bits < 32 else (v * 2654435761) % (1 << 32)


def unit_bytes(v, gran):
    return [(v >> (8 * j)) & 0xFF for j in range(gran)]   # code file stores units little endian (host order)


def bin_byte(k, i):
    """deterministic pattern: byte i of the file included by statement k"""
    return (k * 37 + i * 11 + 5) % 256


def render(beh, cpu_stmt=True):
    """beh: list of steps from CodeWriter_Gen / CodeWriter_GenFam hist.
    Returns (source, expected list of (seg, byteaddr, byte)).
    cpu_stmt=False: no CPU statement for the initial target (it is given with -cpu on the command line)."""
    lines = []
    exp = []
    cur = None if cpu_stmt else beh[0]["dial"]
    for k, st in enumerate(beh, 1):
        a = st["a"]
        d = DIALECTS[st["dial"]]
        if a == "CPU" or cur is None:
            lines.append("\tcpu %s" % d["cpu"])
            cur = st["dial"]
            if a == "CPU":
                continue
        if a == "EMIT":
            via = st.get("via", "plain")
            n = st["n"]
            g = seg_gran(d, st["seg"])
            body = []
            for rep in range(st["count"]):
                kk = k * 100 + (0 if via == "rept" else rep)      # a REPT body is the same line every time
                vals = [unit_value(kk, i, d["bits"] if g == d["gran"] else 8 * g) for i in range(n)]
                body.append("\t%s %s" % (d["data"], ",".join(str(v) for v in vals)))
                base = (st["addr"] + rep * n) * g
                for i, v in enumerate(vals):
                    for j, b in enumerate(unit_bytes(v, g)):
                        exp.append((SEGNO[st["seg"]], base + i * g + j, b))
            if via == "plain":
                lines += body
            elif via == "macro":                                   # the data statements come out of a macro call
                lines += ["m%d\tmacro" % k] + body + ["\tendm", "\tm%d" % k]
            else:                                                  # ... or out of a REPT body
                lines += ["\trept %d" % st["count"], body[0], "\tendm"]
        elif a == "PAR":
            lines.append("\tabsf *ar4++,r6")
            lines.append("||\tstf r6,*ar5++")
            for j in range(d["gran"]):
                exp.append((SEGNO[st["seg"]], st["addr"] * d["gran"] + j, None))   # real encoding: byte not predicted
        elif a == "RESERVE":
            lines.append("\t%s %d" % (d["res"], st["n"]))
        elif a == "ORG":
            lines.append("\torg %d" % st["to"])
        elif a == "RORG":
            lines.append("\trorg %d" % st["d"])
        elif a == "SEGMENT":
            lines.append("\tsegment %s" % st["seg"])
        elif a == "SAVE":
            lines.append("\tsave")
        elif a == "RESTORE":
            lines.append("\trestore")
            cur = st["dial"]
        elif a == "PHASE":
            lines.append("\tphase %d" % st["to"])
        elif a == "DEPHASE":
            lines.append("\tdephase")
        elif a == "ALIGN":
            g = seg_gran(d, st["seg"])
            if st["fill"] < 0:
                lines.append("\talign %d" % st["al"])
            else:
                lines.append("\talign %d,%d" % (st["al"], st["fill"]))
                for j in range(st["n"] * g):
                    exp.append((SEGNO[st["seg"]], st["addr"] * g + j, st["fill"]))
        elif a == "STRUCT":
            lines += ["s%d\tstruct" % k, "f%d\t%s %d" % (k, d["res"], st["n"]), "\tendstruct"]
        elif a == "BINCLUDE":
            args = ['"b%d.bin"' % k] + ([str(st["off"])] if st["form"] >= 2 else []) + ([str(st["n"])] if st["form"] == 3 else [])
            lines.append("\tbinclude %s" % ",".join(args))
            for i in range(st["n"]):
                exp.append((SEGNO[st["seg"]], st["addr"] + i, bin_byte(k, st["off"] + i)))
        elif a == "END":
            lines.append("\tend %d" % st["entry"] if st["entry"] < 1000000 else "\tend")
    return "\n".join(lines) + "\n", exp


def render_files(beh):
    """the files the BINCLUDE statements of a behaviour refer to"""
    return {"b%d.bin" % k: bytes(bin_byte(k, i) for i in range(st["flen"]))
            for k, st in enumerate(beh, 1) if st["a"] == "BINCLUDE"}


def file_events(trace, parsed):
    """hook events of the last pass + parsed file -> CodeWriter_Trace events (reformatting only)"""
    if trace is None or parsed is None:
        return None
    last = max([e["pass"] for e in trace if "pass" in e] or [1])
    recs = [{"cpu": r.cpu, "seg": r.seg, "gran": r.gran, "start": r.start, "data": list(r.data)}
            for r in parsed.data_records()]
    ev = [{"a": "RESET", "recs": recs, "problems": list(parsed.problems),
           "entries": sum(1 for r in parsed.records if r.kind == "entry")}]
    for e in trace:
        if e.get("pass") != last:
            continue
        if e["e"] == "emit":
            ev.append({"a": "EMIT", "seg": e["seg"], "gran": e["gran"], "cpu": e["cpu"], "addr": e["addr"],
                       "bytes": list(bytes.fromhex(e["bytes"]))})
        elif e["e"] == "reserve":
            ev.append({"a": "RESERVE", "seg": e["seg"], "gran": e["gran"], "cpu": e.get("cpu", 0),
                       "addr": e["addr"], "n": e["n"]})
        elif e["e"] == "retract":
            ev.append({"a": "RETRACT", "n": e["n"]})
    ev.append({"a": "END"})
    return ev


def big(ev):
    return any(e.get("addr", 0) >= 2 ** 30 or any(r["start"] >= 2 ** 30 for r in e.get("recs", [])) for e in ev)


def validate_batch(rep, label, named_events, drift_only_rec=True):
    """named_events: list of (name, events, context).  Runs CodeWriter_Trace (verdict) and _TraceRec (drift)."""
    execs = [ev[1:] for (_, ev, _) in named_events]
    resets = [ev[0] for (_, ev, _) in named_events]
    # tracecheck inserts one reset per execution: give it the execution-specific RESET events
    flat_execs = []
    for ev in [x[1] for x in named_events]:
        flat_execs.append(ev)
    v = tracecheck.validate("CodeWriter_Trace", [e[1:] for e in flat_execs], timeout=1500, mem="12g",
                            reset=None, resets=[e[0] for e in flat_execs])
    rep.part("CodeWriter_Trace(%s)" % label, events=v.events, executions=v.executions, accepted=v.accepted,
             distinct_states=v.states, wall_s=v.wall)
    rep.cov["states"] += v.states
    rep.cov["transitions"] += v.generated
    rep.traces(v.executions)
    bad = None
    if not v.accepted:
        bad = named_events[v.fail_exec]
    v2 = tracecheck.validate("CodeWriter_TraceRec", [e[1:] for e in flat_execs], timeout=1500, mem="12g",
                             resets=[e[0] for e in flat_execs])
    rep.part("CodeWriter_TraceRec(%s)" % label, accepted=v2.accepted, events=v2.events)
    if not v2.accepted:
        rep.drift("%s: record boundaries differ from the writer model at %s (event %s: %s)"
                  % (label, named_events[v2.fail_exec][0], v2.fail_index, str(v2.fail_event)[:200]))
    return v, bad


def family(rep, bld, tier, judge, cov, sim):
    """Output-context family (CodeWriter_GenFam): SAVE/RESTORE, CPU from any segment / same CPU, SEGMENT same segment,
    RORG, PHASE/DEPHASE, ALIGN reserving and filling, STRUCT blocks, BINCLUDE, macro- and REPT-generated data.
    (a) transition cover of the context graph: every statement of the family from every context, followed by a probing
        data statement, the RESTOREs owed and END;  (b) simulation mixed with CodeWriter_Gen's boundary sizes."""
    cov = tlc.must(cov, "CodeWriter_GenFam")
    behs, seen = [], set()
    for tag, b in cov.printed:
        if tag == "TR" and repr(b) not in seen:
            seen.add(repr(b))
            behs.append(b)
    ncover = len(behs)
    if ncover < 1000:
        raise CheckError("CodeWriter_GenFam: transition cover printed only %d behaviours" % ncover)
    sim = tlc.must(sim, "CodeWriter_GenFamSim")
    sbehs = []
    for tag, b in sim.printed:
        if tag == "BEH" and repr(b) not in seen:
            seen.add(repr(b))
            sbehs.append(b)
    rng("c04fam").shuffle(sbehs)
    sbehs = sbehs[:60 if tier == "quick" else 2500]
    rep.cov["transitions"] += cov.generated + sim.generated
    rep.cov["states"] += cov.distinct
    rep.part("family", cover_behaviours=ncover, context_states=cov.distinct, simulated=len(sbehs),
             statements=sorted(set(st["a"] for b in behs for st in b)))
    behs += sbehs
    jobs = []
    for bi, b in enumerate(behs):
        src, _ = render(b, cpu_stmt=(bi % 2 == 0))
        files = render_files(b)
        srcs = dict(files)
        srcs["a.asm"] = src
        jobs.append((b, src, files, {"sources": srcs, "events": "file,emit", "timeout": 60,
                                     "opts": ["-q"] + ([] if bi % 2 == 0 else ["-cpu", DIALECTS[b[0]["dial"]]["cpu"]])}))
    with Phase("replay %d programs of the output-context family" % len(jobs)):
        results = aslrun.assemble_many(bld, [j[3] for j in jobs])
    for (b, src, files, _), res in zip(jobs, results):
        judge(b, src, res, files)
    rep.sample({"family_program": jobs[len(jobs) // 3][0], "rendered": jobs[len(jobs) // 3][1]})


def main(tier):
    rep = Report(PID, tier)
    bld = build.get("hook")
    rep.assumptions += ["independent code-file reader (vlib/codefile.py, written from doc/file-formats.md) is trusted",
                        "hook events report the bytes handed to WriteBytes; the bytes a statement *should* produce are "
                        "checked only for the generated data statements (pattern), for the corpus they are C09/C14's",
                        "hooks: %s" % ("emit/reserve/retract events" if bld.hooks else "unavailable: replay only")]
    # (M) the two machines of CodeWriter_MC run side by side (each TLC run is essentially one busy thread)
    import threading
    fam_mc = {}

    def run_fam_mc():      # ... and so do the two generator runs of the output-context family (used by family())
        fam_mc["r"] = tlc.run("CodeWriter_MC", "CodeWriter_MCFam.cfg" if tier == "quick" else "CodeWriter_MCFam6.cfg",
                              workers=2, timeout=2400, mem="6g", collect=False)
        fam_mc["cov"] = tlc.run("CodeWriter_GenFam", "CodeWriter_GenFam.cfg" if tier == "quick" else "CodeWriter_GenFamT.cfg",
                                workers=1, timeout=1200, mem="6g")
        fam_mc["sim"] = tlc.run("CodeWriter_GenFam", "CodeWriter_GenFamSim.cfg", workers=2,
                                simulate=20 if tier == "quick" else 2000, depth=14, timeout=900, mem="6g")
    def guarded():
        try:
            run_fam_mc()
        except Exception as ex:          # reported after join (infrastructure trouble, never a verdict)
            fam_mc["err"] = ex
    th = threading.Thread(target=guarded, daemon=True)
    th.start()
    mc = tlc.must(tlc.run("CodeWriter_MC", "CodeWriter_MC.cfg" if tier == "quick" else "CodeWriter_MC6.cfg",
                          timeout=2400, mem="8g", collect=False), "CodeWriter_MC")
    if mc.violation:
        raise CheckError("the CodeWriter design violates its invariants: %s" % mc.violation[:800])
    rep.model("CodeWriter_MC", mc)

    # (G)
    nsim = 400 if tier == "quick" else 6000
    gen = tlc.must(tlc.run("CodeWriter_Gen", "CodeWriter_Gen.cfg", workers=4, simulate=nsim // 4, depth=14,
                           timeout=900, mem="6g"), "CodeWriter_Gen")
    behs = []
    seen = set()
    for tag, b in gen.printed:
        key = repr(b)
        if key not in seen:
            seen.add(key)
            behs.append(b)
    r = rng("c04")
    r.shuffle(behs)
    rep.part("generation", simulated_distinct=len(behs), states_generated=gen.generated)
    behs = behs[:150 if tier == "quick" else 2500]
    rep.cov["transitions"] += gen.generated
    jobs = []
    for bi, b in enumerate(behs):
        src, exp = render(b, cpu_stmt=(bi % 2 == 0))
        jobs.append((b, src, len(exp)))
        del exp
    with Phase("replay %d generated programs" % len(jobs)):
        results = aslrun.assemble_many(bld, [{"sources": {"a.asm": src},
                                              "opts": ["-q"] + ([] if bi % 2 == 0 else ["-cpu", DIALECTS[b[0]["dial"]]["cpu"]]),
                                              "events": "file,emit", "timeout": 60}
                                             for bi, (b, src, _) in enumerate(jobs)])
    named = []

    def judge(b, src, res, files=None):
        """image of the code file vs. the image TLC predicted for behaviour b; queues the trace for (V)"""
        rep.evaluated()
        rep.distinct(src, any(st["a"] != "EMIT" for st in b))
        prog = [{k: v for k, v in st.items()} for st in b]
        fl = {"a.asm": src}
        fl.update(files or {})
        if res.timeout or res.sig is not None:
            rep.violation("assembler crashed/hung (rc=%s sig=%s)" % (res.rc, res.sig), case=prog, files=fl)
            return
        if res.rc != 0 or res.p is None:
            raise CheckError("generated program rejected by asl (renderer bug?): %s\n%s" % (res.out + res.err, src[:400]))
        fl["a.p"] = res.p
        parsed = codefile.parse(res.p)
        if not parsed.well_formed:
            rep.violation("code file not well formed: %s" % parsed.problems, case=prog, files=fl)
            return
        got = sorted((s, a, b) for (s, a), bs in parsed.image().items() for b in bs)
        exp = render(b)[1]
        wild = set((s, a) for (s, a, v) in exp if v is None)
        got = [(s, a, None if (s, a) in wild else v) for (s, a, v) in got]
        exp = [(s, a, None if (s, a) in wild else v) for (s, a, v) in exp]
        exp = sorted(exp, key=lambda t: (t[0], t[1], -1 if t[2] is None else t[2]))
        got = sorted(got, key=lambda t: (t[0], t[1], -1 if t[2] is None else t[2]))
        if got != exp:
            missing = sorted(set(exp) - set(got), key=str)[:5]
            extra = sorted(set(got) - set(exp), key=str)[:5]
            rep.violation("image of the code file differs from the image the specification predicts: %d vs %d bytes; "
                          "missing %s extra %s" % (len(exp), len(got), missing, extra), case=prog, files=fl)
            return
        ev = file_events(res.trace, parsed)
        if ev:
            named.append(("generated#%d" % len(named), ev, (prog, src, res.p)))

    for (b, src, nexp), res in zip(jobs, results):
        judge(b, src, res)
    th.join()
    if "err" in fam_mc:
        raise CheckError("TLC runs of the output-context family failed: %r" % fam_mc["err"])
    fmc = tlc.must(fam_mc["r"], "CodeWriter_MC(SpecFam)")
    if fmc.violation:
        raise CheckError("the output-context family of CodeWriter_MC violates its invariants: %s" % fmc.violation[:800])
    rep.model("CodeWriter_MC(SpecFam)", fmc)
    family(rep, bld, tier, judge, fam_mc["cov"], fam_mc["sim"])
    # several sources in ONE invocation (dimension added after a seeded change that let the entry address of
    # `END <addr>` survive into the code files of the following sources): every source's code file must be the one
    # the same source gives alone - which was just compared with the image and entry the specification predicts
    pairs = []
    even = [bi for bi in range(0, len(jobs), 2) if results[bi].p is not None and results[bi].rc == 0]
    for x, y, z in zip(even, even[1:], even[2:]):
        pairs.append((x, y, z))
    pairs = pairs[:60 if tier == "quick" else 1000]
    with Phase("replay %d invocations with three sources" % len(pairs)):
        pres = aslrun.assemble_many(bld, [{"sources": {"a.asm": jobs[x][1], "b.asm": jobs[y][1], "c.asm": jobs[z][1]},
                                           "main": ["a.asm", "b.asm", "c.asm"], "opts": ["-q"], "timeout": 120,
                                           "want": ["b.p", "c.p"]} for (x, y, z) in pairs])
    for (x, y, z), res in zip(pairs, pres):
        rep.evaluated()
        got = {"a.p": res.p, "b.p": res.files.get("b.p"), "c.p": res.files.get("c.p")}
        for name, bi in (("a.p", x), ("b.p", y), ("c.p", z)):
            if got[name] != results[bi].p:
                alone = codefile.parse(results[bi].p)
                here = codefile.parse(got[name]) if got[name] else None
                rep.violation("code file of a source assembled as one of three sources of an invocation differs from the "
                              "code file the same source gives alone (%s: entries alone %s, here %s; rc=%s)"
                              % (name, [r.as_dict() for r in alone.records if r.kind == "entry"],
                                 [r.as_dict() for r in here.records if r.kind == "entry"] if here else None, res.rc),
                              case=[jobs[x][0], jobs[y][0], jobs[z][0]],
                              files={"a.asm": jobs[x][1], "b.asm": jobs[y][1], "c.asm": jobs[z][1]},
                              key={"kind": "invocation"})
                break
    rep.traces(len(pairs))
    for (b, src, exp) in jobs[:2]:
        rep.sample({"program": b, "rendered_head": src[:300], "expected_bytes": exp})
    if named:
        with Phase("validate generated traces"):
            v, bad = validate_batch(rep, "generated", named)
        if bad:
            rep.violation("trace of a generated program rejected by CodeWriter_Trace: %s" % v.detail[:300],
                          case=bad[2][0], files={"a.asm": bad[2][1], "a.p": bad[2][2]})

    # (V) corpus
    if bld.hooks:
        tests = aslrun.corpus()

        def one(t):
            import shutil
            res = aslrun.assemble_corpus(bld, t, events="file,emit")
            shutil.rmtree(res.dir, ignore_errors=True)
            return t[0], res
        with Phase("corpus traces"):
            runs = pmap(one, tests)
        named = []
        skipped = 0
        for name, res in runs:
            if res.rc != 0 or res.p is None:
                raise CheckError("golden test %s does not assemble (rc=%s)" % (name, res.rc))
            ev = file_events(res.trace, codefile.parse(res.p))
            if big(ev):
                skipped += 1      # addresses >= 2^30: outside TLC's 32-bit integers
                continue
            named.append((name, ev, None))
        rep.part("corpus", programs=len(named), skipped_large_addresses=skipped)
        with Phase("validate corpus traces"):
            v, bad = validate_batch(rep, "corpus", named)
        if bad:
            rep.violation("corpus program %s: code file is not the emitted stream: %s" % (bad[0], v.detail[:300]),
                          case=bad[0], key={"test": bad[0]})
        rep.sample({"corpus_trace_head": named[0][1][1:4], "of": named[0][0]})
    return rep.finish(rule="generated = TLC-simulated statement sequences of CodeWriter_Gen (distinct by rendered source, "
                           "non-trivial = contains ORG/RESERVE/SEGMENT/CPU/END); validated traces = last-pass emit "
                           "stream + parsed code file of each generated and each golden program", exhaustive=False)


def replay(path):
    import json
    v = json.load(open(os.path.join(path, "violation.json")))
    log(json.dumps(v, indent=1)[:3000])
    src = os.path.join(path, "a.asm")
    if os.path.exists(src):
        bld = build.get("hook")
        srcs = {"a.asm": open(src).read()}
        for f in os.listdir(path):
            if f.endswith(".bin"):                       # files of BINCLUDE statements
                srcs[f] = open(os.path.join(path, f), "rb").read()
        res = aslrun.assemble(bld, srcs, opts=["-q"], events="file,emit")
        log("rc=%s records=%s" % (res.rc, [r.as_dict() for r in res.parsed().records] if res.p else None))
    return 0
