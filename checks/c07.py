"""C07 - PBIND conserves records and PLIST reports them truthfully.

Specifications (on top of spec/CodeFile.tla and spec/CodeFileBytes.tla = the byte grammar of doc/file-formats.md as a
decoder/encoder pair in TLA+):
  spec/PBind.tla  operational: pbind.c ProcessFile/CloseTarget + toolutils.c ReadRecordHeader/WriteRecordHeader/FilterOK
                  (CopyItem, WrShort header-form rule, ReaderRejects length check), with the NAMED DEVIATION
                  quiet_stale_errno (WriteRecordHeader: `if (fwrite(..)) ChkIO(..)` + errno only cleared by the progress
                  message that -q suppresses => `pbind -q` dies with a bogus I/O error); declarative: Conserved = the output
                  decodes as a well-formed code file whose data/entry records are, in input order, exactly the entry
                  records and the data records whose CPU id passes -f, with unchanged segment/granularity/address/payload.
  spec/PList.tla  operational: plist.c ProcessSingle (ListItem: row fields, Sums[]) and the summary loop (SumLines),
                  with the NAMED DEVIATION total_format (printf(PRIu32, ..) without '%'); declarative: Truthful = one row
                  per record with true family (headids.c table), segment, start, byte length, last address
                  start + len/gran - 1, and every printed total equals the sum of its segment, every non-empty segment
                  has a total.
(F) spec/FilterList.tla: pbind's -f is the result of a SEQUENCE of -f (add) / +f (cancel) operations, those preset through
    BINDCMD first (toolutils.c CMD_FilterList/FilterOK, cmdarg.c ProcessCMD): FilterBytes array with append-unless-found /
    swap-remove vs. "last operation naming the id is an add"; FilterList_MC checks all sequences of <= 5 (6) operations
    over 4 ids; PBind_CoverFilt.cfg replays FilterList!FPatterns (cancel first / middle / last / absent / repeated / all,
    re-add, duplicates, BINDCMD presets with and without command-line operations) and BigPatterns (100 entries); real
    files get -f lists of their families plus foreign ids with the first / middle / last entry cancelled.
(M) PBind_MC / PList_MC: the programs as step machines (one record per step) over every case of bounded spaces
    (cfg files PBind_MC*.cfg, PList_MC*.cfg): Conforms, StepRunAgrees, PrefixOK, RoundTrip (Decode/Encode), HeaderRule,
    Monotone / SumsSound, OneLinePerItem.  PList_MC_dev.cfg / PBind_MC_dev.cfg: with the deviation switched on TLC
    must find the defect.
(G) the `cover` spaces (exhaustive for their constants), one file with a record of every processor family, and
    TLC-simulated wide cases are printed by TLC as input file BYTES plus expected output (pbind: target file bytes;
    plist: rows/entries/creator/totals); the harness writes the bytes, runs the real pbind / plist, compares.
(V) PBind_Trace / PList_Trace: every differing run and every run on code files of the golden tests (pbind on 1..4 real
    files with and without -f lists of CPU ids that occur / do not occur; plist on every real file) is handed to TLC
    as raw bytes; TLC decodes inputs and outputs itself and evaluates Verdict.
Verdict: as C05 (~ok = violation; known only through a `known` entry for the named deviation that explains it).

Bounds: addresses < 2^30 (TLC integers), files <= 24 KiB per case in the quick tier, generated payloads <= 12 bytes.
NOT covered: relocatable records ($82..$85: outside the documented grammar, such inputs are not judged), wildcard file
    names, BINDCMD/PLISTCMD, plist with several files (file-name column) or reading the name from stdin, the entry
    point and creator lines of plist (predicted by the model, drift only: the property does not mention them), records
    of 65535 bytes (largest generated: 12; largest corpus record: a few KiB), a code file with an empty creator string
    (pbind refuses it with a format error: modelled as ReaderRejects, not judged).
    Granularity implied by a short header: the manual gives no table; the specification uses toolutils.c Granularity().

MUTATIONS tried (scratch copies, VERIF_REPO; list with sed expressions in selftest/C05-C07-mutations.txt):
  detected (VIOLATION, exit 1): pbind filter on the record type instead of the CPU id; short header allowed for CPU ids
    $80..$8f (found only after CPU id $81 was added to the case spaces); implied-granularity table entry changed; entry
    records dropped by pbind; skipped records mis-seeked; tail of a record longer than the 8192-byte copy buffer dropped;
    plist end address without granularity; plist sums booked on CODE; wrong segment name; wrong family name in
    headids.c; plist length column divided by the granularity.
  detected after the -f / +f operation sequences were added (FilterList.tla): swap-remove of a cancelled filter entry
    reading the slot past the end (`FilterBytes[FilterCnt--]`), which only shows with -f a,b,c +f <non-last entry>.
  equivalent (exit 0, rightly): pbind copying in 16-byte pieces.

EXTENSION (relocatable code files, ALINK) - checks/ext_alink.py, last phase of main()
  Neither the manual nor a listed property defines the record types $82..$85 or what ALINK does (man/alink.1: "work in
  progress", exit codes 0..3); the specification is written from fileformat.h and states its own declarative side.
  spec/RelocFile.tla   the records $82 (data + symbols) $83 (relocatable) $84 (both) $85 (relocation info: patch entries
                       addr:8 strpos:4 type:4, export entries strpos:4 flags:4 value:8, string table), the 32-bit relocation
                       type word bit by bit (TypeBytes / TypeOfBytes, Simple types L8 L16 B16 L24 B24 L32 B32 L64 B64, SUB, PAGE),
                       field arithmetic on byte lists (TLC integers are 32 bit), encoder REncode (layout of asmcode.c WrPatches,
                       and a shared-string layout) / decoder RDecode (toolutils.c ReadRelocInfo), PListRelocRows.
  spec/RelocWriter.tla asmcode.c NewRecord / WrPatches / WriteBytes / CloseFile with the patch and export queues, record by record
                       (a record that carries queue entries when it is closed becomes $82/$84 and a $85 record follows), the
                       statement level of code51.c (the ONLY code generator that emits relocations: MOV A,#x -> L8, MOV DPTR,#x /
                       LJMP / LCALL -> B16), EXTERN_SYM / EXPORT_SYM / RSEG / ASEG, the pass loop; declarative Faithful = image
                       unchanged + every relocation and every export exactly once + every patch inside the record it follows.
                       NAMED DEVIATIONS (all reproduced on the real asl): tail_exports_lost (queue entries behind the last
                       non-empty record never reach the file), export_queue_survives_pass (... and are written by the NEXT pass),
                       merge_same_sign_cancels (asmrelocs.c MergeRelocs: ga+ga loses both relocations), split_patch_stray (64 KiB
                       record split: the patch entry is attached to the record in front of its instruction).
  spec/ALink.tla       operational: alink.c pass 1 ReadSymbols / GetExport (part list, double definitions), the placement loop of
                       main (relocatable records one behind the other per segment from 0, relative exports and patch addresses
                       moved), pass 2 ProcessFile (PartRun, "$$$", GetValue/PutValue by type, undefined symbols, record header
                       form), one step per record; declarative Link_decl = symbol table of all export entries, double / undefined
                       names are errors (exit 1, no target), otherwise the image of the inputs with every patched field replaced
                       by field +/- sum of the symbol values (width, endianness, sign from the type).  NAMED DEVIATIONS of
                       alink.c: plain_part_null, undef_part_stall, patch_outside_unchecked (all three: SIGSEGV / heap access,
                       proposed_fixes/C07-alink-part-list.diff), dup_in_record_unnoticed, reloc_plain_passthrough.
  (M) ALink_MC (cfgs ALink_MC*.cfg): every link set of bounded spaces (1..2(3) files x 1..2 records x <= 1(2) patches of 3 types x
      <= 1(2) exports, absolute/relocatable, "$$$", relative exports): Conforms (operational model without deviations satisfies
      Link_decl), StepRunAgrees, NoCrash, PrefixOK, Aligned, RoundTrip, OneForOne; five *_dev_* cfgs: with a deviation switched on
      TLC must find it.  RelocWriter_MC: every program of <= 3 (4) statements over 14 statement kinds with the record limit
      scaled to 4 bytes: WFaithful (faithful unless a named situation occurs), what each situation costs, ImageOK, RoundTrip;
      *_dev_* cfgs (each situation is reachable; quick: one combined run).
  (G) file level: ALink_MC!ListCases (162 hand-picked link sets: every type x add/sub x first/last offset x carries, unknown
      types, several patches on one field, shared string tables, placement of relocatable records in two segments, double /
      undefined names in every position, records without relocation info in every position, entry records, other CPU /
      segment / granularity, malformed files) + the ALink_Cover spaces are printed by TLC as FILE BYTES with the expected
      target bytes / exit code / diagnostics, Link_decl's records and the relocation rows PLIST must print; the harness writes
      the files (cross-checked against the independent writer vlib/relocfile.py), runs the real alink and plist, compares the
      target bytes, the image read by vlib.codefile and plist's rows.
      source level: ALink_Gen families (73 link sets) + TLC-simulated link sets of 1..4 modules are printed as STATEMENT LISTS plus
      the code files RelocWriter says asl must write; the harness renders MCS-51 source, assembles with the real asl (files compared
      byte for byte up to the creator), links with the real alink, compares target bytes, the vlib.codefile image and the p2bin
      image with Link_decl.  Thorough adds the link set at the real 65535-byte record limit.
  (V) every differing run is handed to ALink_Trace as raw bytes (inputs = what alink really read); TLC decodes, evaluates
      ALink!Verdict: definite / Linked / which set of named deviations explains the observation.
  Verdicts: a run killed by a signal or the time limit is a VIOLATION (man/alink.1 exit codes; property C03 names alink) - known
      entries in known_findings/C07-alink.json for the three crashing deviations; every other mismatch is SPEC-DRIFT, one line per
      named deviation and one "UNEXPLAINED" line for what no deviation explains (VERIF_ALINK_STRICT=1 turns those into violations).
  What works in this tree (the rest is "feature incomplete", see report): EXTERN_SYM/EXPORT_SYM/RSEG/ASEG exist only as these
      undocumented names; only MCS-51 instructions emit patches (DB/DW of an external symbol silently assemble 0; `-` drops the
      relocations of both operands); relocatable segments link correctly only as ONE record per segment assembled at origin 0
      with RSEG in front of CPU ("$$$" = new start of the record carrying the patch); ALINK handles L8 L16 B16 L32 B32 L64 B64 (no
      24-bit, no ACALL/AJMP page types: exit 3).
  Bounds: addresses/values < 2^24, <= 4 modules, <= 8 patches per record, granularity 1 (patch addresses count bytes only then).
  NOT covered: -v output ("(u Bytes)": same missing '%' as plist had), ALINKCMD, wildcards, several segments on the source level,
      80C251/80C390 (24-bit types), PAGE semantics, entry records (ALINK drops them: modelled, not judged).
  MUTATIONS tried (extension only, scratch copies; default: SPEC-DRIFT UNEXPLAINED, exit 0; VERIF_ALINK_STRICT=1: exit 1):
      alink.c PutValue B16 written little-endian (266 cases); relative exports not moved with their record (15); DoubleErr only for
      the first export of a record (1); asmcode.c record with exports only keeps type $81 (223 files); asmrelocs.c TransferRelocs2
      SUB flag on all but the last patch of a field (226 files); toolutils.c ReadRelocInfo export name off by one (114 link sets,
      5 plist listings, and 2 VIOLATIONs in default mode: alink killed, explained by no deviation).
"""
import json
import os
import re

from checks import ext_alink
from vlib import aslrun, build, tlc, utilrun
from vlib.common import CheckError, Phase, log, pmap, rng, scratch
from vlib.report import Report

PID = "C07"


# ------------------------------------------------------------------------------------------------
# pbind
# ------------------------------------------------------------------------------------------------
def pbind_job(c, r):
    files = {}
    names = []
    for i, b in enumerate(c["files"]):
        files["f%d.p" % i] = bytes(b)
        names.append("f%d.p" % i)          # pbind does not add the extension to source names
    target = r.choice(["out.p", "out"])
    fcmd, env = utilrun.filter_ops(c["fops"], r, "BINDCMD")
    opts = utilrun.weave([["-q"]] if c["quiet"] else [], fcmd, r)
    flat = [x for op in opts for x in op]
    argv = (flat + names + [target]) if r.random() < 0.5 else (names + [target] + flat)
    return {"argv": argv, "files": files, "want": ["out.p"], "env": env}


def pbind_obs(res):
    rc = 124 if res["timeout"] else (128 - res["rc"] if res["rc"] < 0 else res["rc"])
    data = res["files"].get("out.p")
    return {"rc": rc, "bytes": list(data) if (data is not None and rc == 0) else []}


# ------------------------------------------------------------------------------------------------
# plist: tokenise stdout
# ------------------------------------------------------------------------------------------------
_HEX8 = re.compile(r"^[0-9A-F]{8}$")
_HEX4 = re.compile(r"^[0-9A-F]{4}$")
_TOT = re.compile(r"^(?:altogether)?\s*(\S+)\s+bytes?\s+(\S+)\s*$")


def s32(h):
    v = int(h, 16)
    return v - (1 << 32) if v >= (1 << 31) else v


def plist_obs(res):
    rc = 124 if res["timeout"] else (128 - res["rc"] if res["rc"] < 0 else res["rc"])
    rows, entries, totals, creator, junk = [], [], [], [], 0
    lines = res["out"].split("\n")
    body = False
    for ln in lines:
        if not body:
            if ln.startswith("-----"):
                body = True
            continue
        if not ln.strip():
            continue
        if ln.startswith("creator : "):
            creator = [ord(ch) for ch in ln[len("creator : "):]]
            continue
        if ln.startswith("<entry point>"):
            h = ln[len("<entry point>"):].strip()
            if _HEX8.match(h):
                entries.append(s32(h))
            else:
                junk += 1
            continue
        f = ln.split()
        if len(f) == 5 and _HEX8.match(f[2]) and _HEX4.match(f[3]) and _HEX8.match(f[4]):
            rows.append({"fam": f[0], "seg": f[1], "start": s32(f[2]), "len": int(f[3], 16), "last": s32(f[4])})
            continue
        m = _TOT.match(ln)
        if m:
            totals.append({"n": int(m.group(1)) if m.group(1).isdigit() else -1, "seg": m.group(2)})
            continue
        junk += 1
    if rc != 0:
        return {"rc": rc, "rows": [], "entries": [], "creator": [], "totals": [], "junk": 0}
    return {"rc": rc, "rows": rows, "entries": entries, "creator": creator, "totals": totals, "junk": junk}


def plist_job(c, r):
    name = r.choice(["f0.p", "f0"])
    return {"argv": [name] + (["-q"] if r.random() < 0.5 else []), "files": {"f0.p": bytes(c["file"])}, "want": []}


# ------------------------------------------------------------------------------------------------
def generate(rep, module, covers, simcfg, nsim, depth):
    cases = []
    for cfg in covers:
        with Phase("TLC %s %s" % (module, cfg)):
            cov = tlc.must(tlc.run(module, cfg, timeout=1500, mem="8g"), cfg)
        rep.model("%s(%s)" % (module, cfg), cov)
        cases += [x for (tag, x) in cov.printed if tag == "TR"]
    with Phase("TLC %s simulate" % module):
        sim = tlc.must(tlc.run(module, simcfg, workers=4, simulate=nsim, depth=depth, timeout=1500, mem="8g"), simcfg)
    seen = set()
    for (tag, x) in sim.printed:
        if tag == "BEH":
            k = json.dumps(x["c"], sort_keys=True)
            if k not in seen:
                seen.add(k)
                cases.append(x)
    for x in cases:
        if x["def"] and not x["allowed"]:
            raise CheckError("specification inconsistent (%s): model output not allowed for %s"
                             % (module, json.dumps(x["c"])[:500]))
    return cases, len(seen)


def judge(rep, tier, module, pending, tool, describe, bld, observe):
    """pending: (tag, case, job, obs).  TLC evaluates Verdict on each."""
    if not pending:
        return
    path = os.path.join(scratch(), "c07-%s.ndjson" % module)
    with open(path, "w") as f:
        for i, (tag, c, job, obs) in enumerate(pending):
            f.write(json.dumps({"id": i, "c": c, "obs": obs}, separators=(",", ":")) + "\n")
    with Phase("TLC %s judges %d observations" % (module, len(pending))):
        r = tlc.must(tlc.run(module, module + ".cfg", workers=1, env={"CASES": path}, mem="10g",
                             timeout=1500 if tier == "quick" else 3000), module)
    if r.violation:
        raise CheckError("%s did not judge every case: %s" % (module, r.violation[:400]))
    rep.model("%s(%d observations)" % (module, len(pending)), r)
    verdicts = {v["id"]: v for (tag, v) in r.printed if tag == "OUT"}
    if len(verdicts) != len(pending):
        raise CheckError("%s judged %d of %d cases" % (module, len(verdicts), len(pending)))
    ndrift = 0
    stats = {"judged": len(pending), "definite": 0, "harmless_deviation": 0}
    # DESIGN 2.4 rule 3: a rejected observation counts only if a second run of the real program repeats it
    bad = [i for i in range(len(pending)) if not verdicts[i]["ok"]]
    flaky = set()
    if bad:
        again = utilrun.run_many(bld, tool, [pending[i][2] for i in bad])
        for i, r2 in zip(bad, again):
            if observe(r2) != pending[i][3]:
                flaky.add(i)
                rep.drift("%s %s is not deterministic" % (tool, " ".join(pending[i][2]["argv"])))
    for i, (tag, c, job, obs) in enumerate(pending):
        if i in flaky:
            continue
        v = verdicts[i]
        stats["definite"] += 1 if v["definite"] else 0
        fit = v["fit"]
        if v["ok"]:
            if fit == ["none"]:
                ndrift += 1
                if ndrift <= 6:
                    rep.drift("%s: %s %s: observation satisfies the property but is not what the operational model "
                              "predicts: %s" % (tag, tool, " ".join(job["argv"]), describe(obs)))
            elif fit:
                stats["harmless_deviation"] += 1
            continue
        files = dict(job["files"])
        files["argv.json"] = json.dumps(job["argv"])
        files["env.json"] = json.dumps(job.get("env") or {})
        files["observed.json"] = json.dumps(obs)
        files["verdict.json"] = json.dumps(v)
        what = "%s%s %s (%s): observed %s; %s" % ("".join("%s='%s' " % kv for kv in (job.get("env") or {}).items()),
                                                   tool, " ".join(job["argv"]), tag, describe(obs),
                                                 v.get("why") or "specification expects %s" % describe(v.get("model", {})))
        if fit == ["none"] or not fit:
            rep.violation(what, case={"fops": c.get("fops")}, files=files,
                          key={"tool": tool, "explained_by": "none" if fit else "model"})
        else:
            for d in fit:
                rep.violation(what + " [explained by deviation %s]" % d, case={"fops": c.get("fops")}, files=files,
                              key={"tool": tool, "explained_by": d})
    if ndrift > 6:
        rep.drift("... and %d more %s observations not reproduced by the operational model" % (ndrift - 6, tool))
    rep.part(module, **stats)


def _d_pbind(o):
    b = o.get("bytes", [])
    return "{rc=%s len=%d bytes=%s%s}" % (o.get("rc"), len(b), bytes(b[:40]).hex(), "..." if len(b) > 40 else "")


def _d_plist(o):
    return json.dumps({k: o.get(k) for k in ("rc", "rows", "totals", "junk")})[:500]


def corpus_files(bld, tier):
    tests = aslrun.corpus()
    r = rng("c07/corpus")
    if tier == "quick":
        tests = r.sample(tests, min(80, len(tests)))
    maxsize = 24 * 1024 if tier == "quick" else 128 * 1024

    def asm(t):
        import shutil
        res = aslrun.assemble_corpus(bld, t)
        shutil.rmtree(res.dir, ignore_errors=True)
        return t[0], res.p
    with Phase("assemble %d golden tests" % len(tests)):
        ps = pmap(asm, tests)
    return [(n, p) for (n, p) in ps if p is not None and len(p) <= maxsize]


def cpus_of(p):
    """CPU ids of the long-header records of a file written by asl (rendering choice for -f lists only)"""
    from vlib import codefile
    return sorted({rec.cpu for rec in codefile.parse(p).data_records()})


def main(tier):
    rep = Report(PID, tier)
    bld = build.get("hook")
    nomc = bool(os.environ.get("VERIF_DEV_NOMC"))     # developer shortcut for mutation runs
    rep.assumptions += ["TLC explores PBind / PList only within the constants of the cfg files; addresses < 2^30",
                        "input and output code files are handed to TLC as raw bytes and decoded by spec/CodeFileBytes.tla; "
                        "plist's stdout is split into columns by the harness, every comparison is TLC's",
                        "granularity implied by short headers = toolutils.c Granularity() (the manual has no table)"]
    # (M) ------------------------------------------------------------------------------------------
    mcs = [("PBind_MC", "PBind_MC.cfg"), ("PBind_MC", "PBind_MC1q.cfg"), ("PList_MC", "PList_MC.cfg")] if tier == "quick" \
        else [("PBind_MC", "PBind_MC2x2.cfg"), ("PBind_MC", "PBind_MC1.cfg"), ("PBind_MC", "PBind_MC3.cfg"),
              ("PList_MC", "PList_MC3.cfg")]
    for mod, cfg in ([] if nomc else mcs):
        with Phase("TLC " + cfg):
            mc = tlc.must(tlc.run(mod, cfg, timeout=2400, mem="10g", collect=False), cfg)
        if mc.violation:
            raise CheckError("%s violates its own property in %s: %s" % (mod, cfg, mc.violation[:800]))
        rep.model("%s(%s)" % (mod, cfg), mc)
    if not nomc:
        fl = tlc.must(tlc.run("FilterList_MC", "FilterList_MC5.cfg" if tier == "quick" else "FilterList_MC.cfg", timeout=900,
                              mem="4g", collect=False), "FilterList_MC")
        if fl.violation:
            raise CheckError("FilterList violates its invariants: %s" % fl.violation[:600])
        rep.model("FilterList_MC", fl)
    for mod, cfg, d in ([] if nomc else [("PList_MC", "PList_MC_dev.cfg", "total_format"),
                                         ("PBind_MC", "PBind_MC_dev.cfg", "quiet_stale_errno")]):
        mc = tlc.must(tlc.run(mod, cfg, timeout=600, mem="4g", collect=False, workers=2), cfg)
        if not (mc.violation and "Conforms" in mc.violation):
            raise CheckError("deviation %s is vacuous: TLC finds no violation of Conforms" % d)
        rep.model("%s(Dev={%s}: defect found by TLC)" % (mod, d), mc)

    # (G)+(V) pbind -----------------------------------------------------------------------------------
    cases, nsim = generate(rep, "PBind_MC", ["PBind_Cover.cfg", "PBind_Cover1.cfg", "PBind_CoverBig.cfg", "PBind_CoverFilt.cfg"], "PBind_Sim.cfg",
                           150 if tier == "quick" else 2500, 12)
    jobs = [pbind_job(x["c"], rng("c07/b/%d" % i)) for i, x in enumerate(cases)]
    with Phase("replay %d cases into pbind" % len(jobs)):
        results = utilrun.run_many(bld, "pbind", jobs)
    pending = []
    again = []
    for i, (x, job, res) in enumerate(zip(cases, jobs, results)):
        rep.evaluated()
        rep.distinct("pbind/" + json.dumps(x["c"], sort_keys=True), bool(x["def"]))
        if pbind_obs(res) != x["exp"]:
            again.append(i)
    if again:
        res2 = utilrun.run_many(bld, "pbind", [jobs[i] for i in again])       # DESIGN 2.4 rule 3
        for i, r2 in zip(again, res2):
            obs = pbind_obs(results[i])
            if pbind_obs(r2) != obs:
                rep.drift("pbind %s is not deterministic" % " ".join(jobs[i]["argv"]))
                continue
            pending.append(("generated case", cases[i]["c"], jobs[i], obs))
    rep.part("pbind_replay", cases=len(jobs), simulated_distinct=nsim, differing_from_model=len(pending))
    for x, job in list(zip(cases, jobs))[:1] + list(zip(cases, jobs))[-1:]:
        rep.sample({"tool": "pbind", "argv": job["argv"], "case": x["c"], "expected": x["exp"]})
    rep.traces(len(jobs))

    corpus = corpus_files(bld, tier)
    r = rng("c07/pbind-corpus")
    cj = []
    budget = 24 * 1024 if tier == "quick" else 192 * 1024
    for k in range(len(corpus) if tier == "quick" else 3 * len(corpus)):
        n = r.choice([1, 2, 2, 3, 4])
        pick = [corpus[(k + j * 7) % len(corpus)] for j in range(n)]
        while sum(len(p) for (_, p) in pick) > budget and len(pick) > 1:
            pick.pop()
        if sum(len(p) for (_, p) in pick) > budget:
            continue
        cpus = sorted({c for (_, p) in pick for c in cpus_of(p)})
        mode = r.randrange(6)
        fops = []

        def op(neg, lst, env=False):
            return {"neg": neg, "list": lst, "env": env}
        if cpus and mode == 1:
            fops = [op(False, [r.choice(cpus)])]
        elif cpus and mode == 2:
            fops = [op(False, sorted(set(r.sample(cpus, min(len(cpus), 2)) + [r.choice(cpus) ^ 0x5a])))]
        elif mode == 3:
            fops = [op(False, [0x81])]
        elif cpus and mode >= 4:
            # list of the families present plus two foreign ones, then cancel the first / a middle / the last entry
            lst = [0xEE] + list(cpus) + [0xED]
            r.shuffle(lst)
            victim = r.choice([lst[0], lst[len(lst) // 2], lst[-1]])
            fops = [op(False, lst, env=(mode == 5)), op(True, [victim])]
        c = {"files": [list(p) for (_, p) in pick], "fops": fops, "quiet": r.random() < 0.3}
        cj.append(("golden tests %s" % "+".join(nm for (nm, _) in pick), c, pbind_job(c, r)))
    with Phase("run pbind on %d corpus cases" % len(cj)):
        cres = utilrun.run_many(bld, "pbind", [j for (_, _, j) in cj])
    for (tag, c, job), res in zip(cj, cres):
        rep.evaluated()
        rep.distinct("pbind/" + tag + "/" + json.dumps(c["fops"]))
        pending.append((tag, c, job, pbind_obs(res)))
    rep.traces(len(cj))
    judge(rep, tier, "PBind_Trace", pending, "pbind", _d_pbind, bld, pbind_obs)

    # (G)+(V) plist -----------------------------------------------------------------------------------
    cases, nsim = generate(rep, "PList_MC", ["PList_Cover.cfg", "PList_Fam.cfg", "PList_CoverBig.cfg"], "PList_Sim.cfg",
                           150 if tier == "quick" else 2500, 9)
    jobs = [plist_job(x["c"], rng("c07/l/%d" % i)) for i, x in enumerate(cases)]
    with Phase("replay %d cases into plist" % len(jobs)):
        results = utilrun.run_many(bld, "plist", jobs)
    pending = []
    for x, job, res in zip(cases, jobs, results):
        rep.evaluated()
        rep.distinct("plist/" + json.dumps(x["c"], sort_keys=True), bool(x["def"]))
        obs = plist_obs(res)
        if obs != x["exp"]:
            pending.append(("generated case", x["c"], job, obs))
    rep.part("plist_replay", cases=len(jobs), simulated_distinct=nsim, differing_from_model=len(pending))
    for x, job in list(zip(cases, jobs))[:1] + list(zip(cases, jobs))[-1:]:
        rep.sample({"tool": "plist", "argv": job["argv"], "case": x["c"], "expected": x["exp"]})
    rep.traces(len(jobs))
    lj = []
    for (nm, p) in corpus:
        c = {"file": list(p)}
        lj.append(("golden test %s" % nm, c, plist_job(c, rng("c07/lc/" + nm))))
    with Phase("run plist on %d corpus files" % len(lj)):
        lres = utilrun.run_many(bld, "plist", [j for (_, _, j) in lj])
    for (tag, c, job), res in zip(lj, lres):
        rep.evaluated()
        rep.distinct("plist/" + tag)
        pending.append((tag, c, job, plist_obs(res)))
    rep.traces(len(lj))
    judge(rep, tier, "PList_Trace", pending, "plist", _d_plist, bld, plist_obs)
    ext_alink.run(rep, bld, tier)          # EXTENSION: relocatable code files and ALINK (checks/ext_alink.py)
    return rep.finish(
        rule="cases = every case of the TLC cover spaces (PBind_Cover*.cfg, PList_Cover.cfg, PList_Fam.cfg) + "
             "TLC-simulated wide cases + code files of the golden tests (pbind: seed-chosen groups of 1..4 files and -f "
             "lists; plist: every file); distinct = distinct input bytes + options; non-trivial = Definite",
        exhaustive=False)


def replay(path):
    v = json.load(open(os.path.join(path, "violation.json")))
    bld = build.get("hook")
    argv = json.load(open(os.path.join(path, "argv.json")))
    envp = os.path.join(path, "env.json")
    env = json.load(open(envp)) if os.path.exists(envp) else {}
    log("environment: %s" % env)
    files = {n: open(os.path.join(path, n), "rb").read() for n in os.listdir(path) if n.endswith(".p")}
    tool = v["key"]["tool"]
    res = utilrun.run_one(bld, tool, {"argv": argv, "files": files, "want": ["out.p"], "env": env})
    log("%s %s -> rc=%s" % (tool, " ".join(argv), res["rc"]))
    log(res["out"][-1500:] if tool == "plist" else _d_pbind(pbind_obs(res)))
    log("recorded: %s" % v["what"][:600])
    return 0
