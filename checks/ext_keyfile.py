"""C17 extension: the PHYSICAL shape of key files (cmdarg.c ProcessFile() around strutil.c ReadLn()).

Added because a change of ProcessFile() that left the read loop as soon as feof() was set - before the line just read was
handed to DecodeLine() - went unnoticed (it passes the 201 golden tests): fgets() sets the end-of-file indicator while it
reads a last line WITHOUT line end, so that line was silently dropped and `-D SYM=val`, `-cpu ...`, `-i ...` on it never took
effect - the same options gave another code file from such a key file than from the command line or ASCMD.  The command-line
layer (checks/ext_cmdline.py, spec/CmdLine*.tla) took a key file as what it MEANS (lines of words) and this file wrote every
one of them in ONE physical shape (`line + "\\n"` per line).  The missing dimension is the shape of the file between its bytes
and its lines: "the place an option is given (command line, ASCMD variable, @key file) never alters the code file" also
quantifies over HOW the same options are laid down in the file.

Specification: spec/KeyFile.tla - the file as a sequence of characters (whole words, runs of blanks, tab, CR, LF, ^Z); the
reader transcribed from the code (FGets with the end-of-file indicator as the C library sets it - when a byte is asked for
and there is none -, ReadLn stripping LF / CR / ^Z, the `while (!feof)` loop of ProcessFile, DecodeLine's ClrBlanks and its
cut at the first blank / else the first tab on characters) next to the reading every text tool has (TextLines / DeclLines:
lines are what stands between line ends, what follows the last line end is a line unless it is empty, words are what stands
between blanks and tabs, CR and ^Z are no text).  spec/KeyFile_MC.tla writes every sequence of <= 2 occurrence templates of
KNames (asl: -L, -D A=2, -D B=7, -D without argument, -cpu Z80, -i p1, -o o1, -g, a second source, an unknown switch, a key
reference) and <= 3 of K3Names into a key file in every SHAPE [cut, eol, term, deco, from]:
  cut   n occurrences on 1..n lines (all compositions)            eol   LF / CR-LF / alternating
  term  line end behind the last line or not                      from  @k on the command line / ASCMD=@k
  deco  none; blank / tab / blanks + tab in front; 3 blanks, tab, blank + tab, tab + blank between; blanks / tab / blank + tab
        behind; an empty line first / between / last; a last line of blanks only; a remark line first / last; ^Z as the last
        byte / in front of every line end; first / last line filled with blanks to 255 (the manual's maximum) and 254
        characters; a last line whose first word + blanks fill the reader's buffer (the rest arrives as another line)
(no occurrence: the empty file, one line end, one blank, one remark without line end, one ^Z ...), and checks
  ReaderReadsText      the chunks ProcessFile decodes are the lines of the text (every shape within 255 characters per line)
  ScanIsFoldK          the scanner behind the reader, named deviations repaired, = Meaning(Parse(Flatten(text)))
  DeviationsAreNamedK  where the code as it is differs, a named deviation is live (BlankBeforeTab: tab + blank)
  ShapeNeverMatters    PlaceNeverMatters over shapes: any two shapes - and the plain command line - that parse to the same
                       occurrences give the same scanner result
and refutes (ASSUME + KeyFile_MC_LeaveAtEof.cfg) the reader variant LeaveAtEof: it loses an unterminated last line, nothing else.
spec/KeyFile_Gen.tla prints every shaped file as a case in the format of CmdLine_Gen plus `phys` (the characters) and the same
occurrences on the plain command line.  This file only renders `phys` into bytes; the cases join the replay, the judgement
(judge_asl / judge_tool against what TLC printed) and the klass comparison of checks/ext_cmdline.py, so that a shaped key
file is compared with the command line, ASCMD and the key files of CmdLine_Gen that carry the same occurrences.
Verdicts as there: the manual-stated components of the outcome and byte-identical code files within a klass; shapes the manual
does not decide (^Z anywhere, a line beyond 255 characters: `open`) and shapes where BlankBeforeTab is live are compared with
the model only (SPEC-DRIFT).
quick:    asl, KThin = 2 (two and more occurrences: every (cut, term) with the plain decoration and 2 rotating ones; line end
          and `from` rotate; single occurrences and the empty sequence meet all 23 decorations): 160 states, 2 628 shaped files
          + 160 command lines, 10 - 30 s of TLC beside the other generators, about 15 s more replay.
thorough: KeyFile_MC asl with EVERY shape (KThin = 0: 2 x 3 x 2 x 23 x 2 shapes per composition, 99 912 shaped files, 1 min 45);
          cases: asl KThin = 6, p2bin (8 templates) and plist (5 templates) KThin = 3.
Bounds: <= 3 lines of options; one decoration at a time; words are atoms (no blank inside an argument, no quoting - the
manual has none); tab + blank BEHIND a line is left out (what a glued argument means is the callback's business); no line
longer than 256 characters + the rest; one key-file level (nesting is an error by the manual, template @kd).
No finding on the unchanged tree (0 violations, 0 drift).  Mutations tried on scratch copies (all pass the 201 golden tests),
replay of the quick cases (`VERIF_REPO=...`): the seeded ProcessFile change (`if (feof(KeyFile)) break;` behind ReadLn();
./check C17 --tier quick exits 1, 1 387 violations); strutil.c ReadLn() not stripping the CR (1 287 violations); cmdarg.c
ClrBlanks() skipping blanks only, not tabs (325); ReadLn() with fgets(Zeile, 255, ...) (204, the lines of 255 characters).
"""
import os

from vlib import tlc
from vlib.common import Phase, rng, subdir

INV = "ShapeInv"
_BYTE = {"sp": b" ", "tab": b"\t", "cr": b"\r", "lf": b"\n", "cz": b"\x1a"}


def jobs(tier):
    """(prog, MaxOcc, KThin) per TLC run of KeyFile_Gen"""
    if tier == "quick":
        return [("asl", 3, 2)]
    return [("asl", 3, 6), ("p2bin", 3, 3), ("plist", 3, 3)]


def model_jobs(tier):
    """(prog, MaxOcc, KThin) per TLC run of KeyFile_MC (no cases printed): every shape"""
    return [] if tier == "quick" else [("asl", 3, 0)]


def _cfg(kind, job, fixed, invs):
    (prog, maxocc, kthin) = job
    text = ('CONSTANTS Fixed = {%s} Prog = "%s" MaxOcc = %d Alphabet = "all"%s KThin = %d\nSPECIFICATION SpecK\n'
            'INVARIANTS %s\nCHECK_DEADLOCK FALSE\n' % (", ".join('"%s"' % d for d in fixed), prog, maxocc,
                                                       " Thin = 0" if kind == "gen" else "", kthin, invs))
    path = os.path.join(subdir("cmdlinecfg"), "keyfile_%s_%s_%d_%d.cfg" % (kind, prog, maxocc, kthin))
    with open(path, "w") as f:
        f.write(text)
    return path


def generate(job, fixed):
    name = "KeyFile_Gen(%s,<=%d,thin %d)" % job
    with Phase("TLC %s" % name):
        r = tlc.must(tlc.run("KeyFile_Gen", _cfg("gen", job, fixed, INV + " EmitK"), workers=2, timeout=1500, mem="6g",
                             tags=("TR",)), name)
    return name, r


def model(job, fixed):
    name = "KeyFile_MC(%s,<=%d,thin %d)" % job
    with Phase("TLC %s" % name):
        r = tlc.must(tlc.run("KeyFile_MC", _cfg("mc", job, fixed, INV), workers=4, timeout=2400, mem="6g", collect=False), name)
    return name, r


def order(cases):
    """the plain command lines first (the reference of a klass), then the shaped files in a seeded random order - so that the
    first violations reported are a sample of options and shapes, not twenty shapes of the first option"""
    ref = [c for c in cases if "phys" not in c]
    shaped = [c for c in cases if "phys" in c]
    rng("c17-keyfile").shuffle(shaped)
    return ref + shaped


def render(chars):
    """the characters TLC printed ([t, s, n]) as the bytes of the file"""
    out = b""
    for ch in chars:
        out += ch["s"].encode("latin-1") if ch["t"] == "w" else _BYTE[ch["t"]] * int(ch["n"])
    return out


def show(chars):
    """one line for messages: the bytes with the invisible ones spelled out, long runs of blanks counted"""
    out = ""
    for ch in chars:
        if ch["t"] == "w":
            out += ch["s"]
        elif ch["t"] == "sp":
            out += " " * ch["n"] if ch["n"] <= 3 else "<%d blanks>" % ch["n"]
        else:
            out += {"tab": "<TAB>", "cr": "<CR>", "lf": "<LF>", "cz": "<^Z>"}[ch["t"]]
    return out + "<end>"
