"""C11 - Macro, repetition and inclusion constructs are transparent.

Specification: spec/MacroProc.tla (machine side shaped like as.c / asmsub.c / asmpars.c / asmallg.c + declarative
side ExpandDecl = the manual's textual substitution carried out by hand), program families spec/MacroProg.tla.

(M) MacroProc_MC: every program of the nesting family (bodies  label? construct? statement?,  nesting <= 2 quick /
    3 thorough (two instances: counts {0,2} with a statement after the nested construct, count 2 with a label before
    and a statement after it - 75 k programs, 2.6 M states; the as-coded instance uses nesting 2 with the rich
    profile), counts {0,2}, loops REPT/IRP/IRPC/WHILE (+IRPN, GLOBALSYMBOLS in the rich profile), macros with
    0..2 parameters, default, empty and excess arguments) and of the focused families (binding shapes, SHIFT
    recursion, EXITM in IF, label privacy, INCLUDE nesting, adjacent \\a\\\\b\\ parameters) is run line by line;
    TLC checks  delivered = ExpandDecl(program), label privacy, balance of tag / symbol-space / IF stacks.
    Two instances: Fixed = all (the design with the proposed repairs is transparent for every definite program)
    and Fixed = the repairs recorded as applied in known_findings/*.json (the code as it is: the remaining named
    deviations are the only reasons for a difference).
(G) MacroProc_Gen: TLC enumerates the replay families (0..20 parameters incl. numbers 8, 9, 12, 16, 17; positional,
    empty, keyword, mixed, default, excess arguments; arguments spelled like other parameters; counts 0..40 for
    REPT/IRP/IRPC/WHILE with a SET counter; IRPN group sizes 1..4 with ragged tails; SHIFT/ALLARGS recursion up to
    20 arguments; the argument list as a sequence SHIFT walks through (family `shifthole`: 0..3 formals, 1..4 excess
    arguments each independently empty or not, every live formal + ARGCOUNT + ALLARGS after 0..3 SHIFTs; family `shiftloop`: SHIFT once per iteration of a
    REPT/IRP/IRPN/IRPC/WHILE nested in the macro, formals / ARGCOUNT / ALLARGS inside and after it); EXITM inside IF in REPT/IRP/WHILE/MACRO/MACRO+REPT; labels private vs GLOBALSYMBOLS; the private
    symbol space across a nested construct (family `scope`: outer REPT/IRP/IRPN/IRPC/WHILE/MACRO expanded twice,
    label defined before, used inside and after, another label defined after an inner REPT/IRP/IRPN/IRPC/WHILE/
    macro call/empty macro/INCLUDE with 0..3 iterations, same-named global label present); the DEPTH of a reference
    to a private label (family `refdepth`: chains of three constructs, every kind MACRO (called) / REPT / IRP / IRPN /
    IRPC / WHILE at every level; the label defined at the levels D (one or several: shadowing), USED AT EVERY LEVEL from
    which a definition or the same-named global label is visible - i.e. from the defining body itself, one and two
    expansions further in, and outside; definition before (backward) or after (forward) the nested construct; a
    same-named global label in front / behind / absent; GLOBALSYMBOLS on any subset of the levels (their labels land
    in the enclosing expansion or the global table); the name written in the body or handed down as macro argument /
    IRP / IRPN operand; quick: all 216 chains of kinds for D = {1} + 36 chains (every pair of kinds at every pair of
    levels) x D in {2}, {1,2}, {1,3} without and x 4 D with GLOBALSYMBOLS masks, the other dimensions cycling = 405
    programs; thorough: 216 chains x 7 D x 3 choices); nested
    INCLUDE depth 1..3 from REPT and from a macro; BINCLUDE windows over files of 0..600 bytes; INTLABEL, ALLARGS
    to IRP, macro defining a macro, ATTRIBUTE on 68000; the nesting family; family `binctx`: the TARGET as a
    dimension - BINCLUDE at top level / in a MACRO / REPT / IRP / WHILE / REPT inside a macro / an INCLUDEd file /
    an INCLUDE inside REPT, windows of even, odd and zero length and of more than one 256-byte chunk, FOLLOWED in the
    same body by nothing / byte / word / long data / a machine instruction and after the construct by one of these
    and a label that depends on every length, rendered for every target the specification lists (MacroProg.Targets*:
    every combination of TurnWords x ListGran {1, 2, 4} that occurs among the byte-addressed targets, big- and
    little-endian data statements, targets that pad odd addresses - z80, 68hc12, msp430, 80960, m16c, 68000,
    tms9900, sh7000, z8001, am29000, ppc403; thorough 21 targets)) and prints for each program P the hand expansion
    E = ExpandDecl(P) and the set of targets it is to be assembled for.  The harness renders P (seed-chosen letter case / white space / label colon) and E,
    assembles both with the real asl and compares the code files (records coalesced; raw record boundaries are only
    a SPEC-DRIFT) and, when both are rejected, the error numbers.
(V) MacroProc_Trace: for generated programs without a named deviation the `line` hook events of the real run (text
    delivered by GetNextLine, tag depth, exhausted flag; all passes) are validated event by event against the
    machine operators (the whole machine, program text known).
    MacroProc_CorpusTrace: for the golden tests (quick: the ~40 smaller ones that use constructs, thorough: 188 of
    201, 304 k events) the program text is NOT given to the specification: lines from FILE tags are inputs, every
    line handed out by a MACRO/IRP/IRPN/IRPC/REPT/WHILE tag must be what the collectors recorded and the processors
    produce from it with the binding of ExpandMacro / ExpandIRP...; statement fields come from the `split` hook,
    IfAsm / WasMACRO / recording flag / chain length from the `stmt` hook, REPT counts and WHILE conditions are
    read off the events (nondeterminism of the operators).  A rejection there is reported as SPEC-DRIFT.
Verdict-bearing: code-file equality of P and E for programs the manual gives a definite meaning (ExpandDecl.indef
= FALSE), no crash.  A difference is a KNOWN finding only if a named deviation fired in the model AND the real
asl behaves exactly as the as-coded model predicts (assembles like the model's delivered list / is rejected where
the model leaves raw parameter tokens / dies with SIGSEGV where the model dereferences NULL).

NOT judged (the specification marks them indef, MacroProg.PassDependent): a FORWARD use of a private label while a
symbol of the same name further out (enclosing expansion or global) is already defined - the manual (section FORWARD)
describes that the first pass takes the outer symbol and that a second pass need not happen; observed: `dw la` in front
of `la:` in a macro body with a global `la` defined earlier assembles with the GLOBAL value, no message, one pass.
NOT covered: READ, FUNCTION, STRUCT expansion, section-local macros (PUBLIC/GLOBAL: covered by the extension "macscope"
below, not by the families above), EXPORT/-M output, listing
control (C19), NESTMAX exhaustion, case-sensitive mode (-U), quoting of commas in arguments, macro use before
definition (pass-dependent by the manual), ARGCOUNT with fewer arguments than formals and formals left without an
argument by SHIFT (manual contradictory / silent: marked indef, not judged); BINCLUDE on targets whose address unit
is wider than a byte (56000, CP-1600, TMS320...): the manual counts BINCLUDE in bytes and does not say how they map to
words, so there is no hand expansion (observed, not judged: CodeBINCLUDE advances the counter by one WORD per byte
read and WriteBytes emits length x granularity bytes, the upper part being stale buffer contents).  Golden tests the corpus trace cannot
follow: #define (text rewritten after the hook), macro-processor arguments containing commas, macro names built by
{symbol} expansion (t_403, t_821) - 13 of 201, listed in the evidence.

Mutations of /repo tried (scratch copies): see the end of this file (MUTATIONS).

Extension "macscope" (checks/ext_macscope.py, last phase of main(); spec modules MacroScope, MacroScope_MC, BinWindow,
BinWindow_MC; details, bounds, findings and mutations in the docstring of checks/ext_macscope.py):
(A) the macro NAME TABLE - which definition a call finds: macros local to SECTIONs (nested, same name inside and outside),
    {PUBLIC[:PARENT]} / {GLOBAL[:PARENT]} (the additional macro S1_name), redefinition (error 1815), a macro named like a
    machine instruction / pseudo instruction / macro-processor statement, the '!' prefix, a macro defined in a macro body
    (section of the call), call before definition with one pass and with a forward reference (later passes know all
    definitions of pass 1), IFDEF of a macro name (observed only).  TLC: every program of <= 4 statements (thorough 5)
    over two names, <= 2 sections nested <= 2: lookup as coded (tree keyed by name + section handle, section stack walk,
    Defined flags, pass loop) = declarative rule (innermost known definition of the definition / section history); the
    same run prints the programs with the promised outcome, the harness assembles them (quick 3.5 k programs, 4 k
    assemblies) and compares bytes / rejection / error numbers 1200, 1815.
(B) BINCLUDE windows - file[,offset[,length]] over the whole argument space (omitted, 0, n-1, n, n+1, beyond the end,
    negative; files of 0..1030 bytes = up to 5 read chunks; statement at address 0 or 1; label before, `$` after; byte
    target Z80 with verdict, word-granular TMS32010 observed): 860 cases x 2 targets, expected code image computed by TLC.
Findings (known_findings/C11-macscope.json): the {GLOBAL} copy of a macro is uncallable (uninitialised UseCounter) and
replaces silently / frees a running macro (proposed_fixes/C11-global-macro-copy.diff); an empty BINCLUDE at address 0 is
"address overflow" (proposed_fixes/C11-binclude-empty-window-at-zero.diff).
"""
import os

from vlib import aslrun, build, tlc, tracecheck
from vlib import macrorender as mr
from vlib.common import CheckError, Phase, log, pmap, rng
from vlib.report import Report

PID = "C11"
# the "code as it is" instances use Fixed = repaired_in_repo(): repairs recorded as applied in known_findings
ALLDEVS = ["EmptyBodyPop", "IrpcEmptyOnce", "TokenStraddle", "ShiftExcess", "IrpPosNext", "IrpDoubleCleanup",
           "AllArgsLeadingEmpty"]
FIXED_ALL = "{" + ", ".join('"%s"' % d for d in ALLDEVS) + "}"


def repaired_in_repo():
    """named deviations whose repair is recorded as applied (known_findings/*.json, "status": "fixed", field "dev"):
    the "code as it is" instance of the model is the pinned code with exactly these repairs"""
    import glob
    import json
    out = set()
    for path in glob.glob(os.path.join(os.path.dirname(os.path.dirname(os.path.abspath(__file__))), "known_findings", "C*.json")):
        try:
            for f in json.load(open(path)).get("findings", []):
                if f.get("status") == "fixed" and f.get("dev") in ALLDEVS:
                    out.add(f["dev"])
        except (OSError, ValueError):
            pass
    return "{" + ", ".join('"%s"' % d for d in sorted(out)) + "}"

QUICK_FAMILIES = ["exit", "label", "scope", "incl", "bin", "count", "rec", "shift", "shifthole", "shiftloop", "adj", "bind", "special", "attr", "nest2q", "binctx", "refdepth"]
THOROUGH_FAMILIES = ["exit", "label", "scope", "incl", "bin", "count", "rec", "shift", "shifthole", "shiftloop", "adj", "bind", "special", "attr",
                     "nest2", "nest3", "binctx", "refdepth"]


def _cfg(name, text):
    """configuration files are generated per run (constants are listed in mc_cfg / gen_cfg and, for reference,
    in spec/MacroProc_MC.cfg, spec/MacroProc_Gen.cfg)"""
    from vlib.common import subdir
    path = os.path.join(subdir("c11cfg"), name)
    with open(path, "w") as f:
        f.write(text)
    return path


def mc_cfg(tier, fixed, variant=0):
    if tier == "quick":
        c = "MaxD = 2 Cnts = {0, 2} NPre = 1 NPost = 1 Rich = FALSE Focus = TRUE"
    elif fixed and variant == 0:
        c = "MaxD = 3 Cnts = {0, 2} NPre = 0 NPost = 1 Rich = FALSE Focus = TRUE"       # 3 levels, parameter uses
    elif fixed:
        c = "MaxD = 3 Cnts = {2} NPre = 1 NPost = 1 Rich = FALSE Focus = FALSE"         # 3 levels, labels and uses
    else:
        c = "MaxD = 2 Cnts = {0, 2} NPre = 1 NPost = 1 Rich = TRUE Focus = TRUE"        # code as it is, rich profile
    inv = "Transparent Private Balanced NoDevWhenFixed TagsOK" if fixed else "TransparentUnlessDev Private Balanced TagsOK"
    return ("CONSTANTS Fixed = %s HasAttrs = FALSE MaxNum = 99\n          %s\nSPECIFICATION Spec\nINVARIANTS %s\n"
            "CHECK_DEADLOCK FALSE\n" % (FIXED_ALL if fixed else repaired_in_repo(), c, inv))


def gen_cfg(family, tier):
    return ('CONSTANTS Fixed = %s HasAttrs = %s MaxNum = %d Family = "%s" Tier = "%s"\nINIT Init\nNEXT Next\n'
            'INVARIANTS Dump Agrees\nCHECK_DEADLOCK FALSE\n'
            % (repaired_in_repo(), "TRUE" if family == "attr" else "FALSE", 700 if family in ("bin", "binctx") else 99, family, tier))


DRIFT = {}


def records(res):
    """coalesced data records of a code file: (cpu, seg, gran, start, bytes); None without a code file"""
    if res.p is None:
        return None, None
    pr = res.parsed()
    raw = [(q.cpu, q.seg, q.gran, q.start, bytes(q.data)) for q in pr.data_records()]
    out = []
    for q in raw:
        if not q[4]:
            continue
        if out and out[-1][:3] == q[:3] and out[-1][3] + len(out[-1][4]) // max(q[2], 1) == q[3]:
            out[-1] = (q[0], q[1], q[2], out[-1][3], out[-1][4] + q[4])
        else:
            out.append(q)
    return out, raw


def errnums(res):
    import re
    return re.findall(r"#(\d+)", res.out + res.err)


def renderable(o):
    return not any(mr.has_ctrl(l) for f in o["p"].values() for l in f) and not any(mr.has_ctrl(l) for l in o["e"])


def targets_of(o):
    """the targets the specification wants the program assembled for (MacroProc_Gen: field `targets`)"""
    return sorted(o["targets"])


def make_jobs(o, idx, d):
    """P (seeded spelling), E (plain), and for programs with a fired deviation M = the as-coded model's list;
    d = target (one of targets_of(o))"""
    opts = ["-q", "-n", "-cpu", mr.DIALECTS[d]["cpu"]]
    r = rng("c11/%d" % idx if len(o["targets"]) == 1 else "c11/%d/%s" % (idx, d))
    bins = {f: bytes(v) for f, v in o["bins"].items()} if isinstance(o["bins"], dict) else {}
    srcP = {f: mr.render_file(ls, d, r, preamble=False) for f, ls in o["p"].items()}
    srcE = {"a.asm": mr.render_file(o["e"], d, None, preamble=False)}
    jobs = [{"sources": srcP, "opts": opts, "bin": bins}, {"sources": srcE, "opts": opts}]
    srcM = None
    if o["devs"] and not any(mr.has_ctrl(l) for l in o["m"]):
        srcM = {"a.asm": mr.render_file(o["m"], d, None, preamble=False)}
        jobs.append({"sources": srcM, "opts": opts})
    return jobs, srcP, srcE, srcM


def judge(rep, o, d, srcP, srcE, srcM, rp, re_, rm):
    tag = o["tag"] if len(o["targets"]) == 1 else o["tag"] + [d]
    devs = sorted(o["devs"])
    key = {"dev_" + d: (d in devs) for d in ALLDEVS}
    files = {"P_" + f: t for f, t in srcP.items()}
    files["E_a.asm"] = srcE["a.asm"]
    if isinstance(o["bins"], dict):
        for f, v in o["bins"].items():
            files["BIN_" + f] = bytes(v)
    files["stderr_P.txt"] = rp.out + rp.err
    files["stderr_E.txt"] = re_.out + re_.err
    if rp.timeout or rp.sig is not None:
        key["kind"] = "crash"
        key["as_model"] = ("IrpDoubleCleanup" in devs and rp.sig == 11)
        rep.violation("asl died (signal=%s timeout=%s) on construct program %s" % (rp.sig, rp.timeout, tag),
                      case={"tag": tag, "devs": devs, "target": d}, files=files, key=key)
        return
    if re_.rc != 0 and rp.rc != 0:
        # both rejected: the hand expansion is not a valid program either (e.g. an operand became empty);
        # transparency then means the same complaints
        if errnums(rp) != errnums(re_):
            DRIFT.setdefault("P and its hand expansion are both rejected, with different message numbers, e.g. %s" % tag[:1], []).append(tag)
        return
    a, araw = records(rp)
    c, craw = records(re_)
    if rp.rc == re_.rc and a == c:
        if araw != craw:
            DRIFT.setdefault("record boundaries differ (same bytes at the same addresses), e.g. program %s" % tag[:1], []).append(tag)
        return
    # a difference between P and its hand expansion
    key["kind"] = "differs"
    if devs:
        if srcM is not None and rm is not None:
            m, _ = records(rm)
            key["as_model"] = (rm.rc == rp.rc and m == a)
        else:
            # the as-coded model leaves raw parameter token bytes in the text: asl must reject P
            key["as_model"] = (rp.rc == 2)
    else:
        key["as_model"] = False
    rep.violation("construct program %s does not assemble like its hand expansion (rc %s vs %s; records %s vs %s)"
                  % (tag, rp.rc, re_.rc, _short(a), _short(c)), case={"tag": tag, "devs": devs, "target": d, "p": o["p"], "e": o["e"]},
                  files=files, key=key)


def _short(recs):
    if recs is None:
        return None
    return [(hex(r[3]), r[4][:24].hex()) for r in recs[:4]]


def trace_events(o, res):
    """hook events of one run -> MacroProc_Trace events"""
    ev = [{"a": "PROG", "files": o["p"], "bins": o["bins"] if isinstance(o["bins"], dict) else {}}]
    npass = 0
    for e in res.trace or []:
        if e["e"] == "pass_begin":
            npass += 1
            if npass > 1:
                ev.append({"a": "PASS"})
        elif e["e"] == "line":
            ev.append({"a": "LINE", "toks": mr.tokenize(e["text"]), "depth": e["depth"], "empty": bool(e["empty"])})
    return ev


def main(tier):
    rep = Report(PID, tier)
    bld = build.get("hook")
    rep.assumptions += ["TLC explores the MacroProc design only up to the stated bounds",
                        "renderer (token -> text), tokeniser and record comparison (Python) are trusted; the hand "
                        "expansion is computed by TLC, never by asl",
                        "hooks: %s" % ("line events" if bld.hooks else "unavailable (black-box replay only)")]
    fams = QUICK_FAMILIES if tier == "quick" else THOROUGH_FAMILIES

    # ---- TLC runs: (M) two instances of the model check, (G) one generator run per family ------------------
    tasks = [("mc_fixed", "MacroProc_MC", _cfg("_c11_mc_fixed.cfg", mc_cfg(tier, True))),
             ("mc_coded", "MacroProc_MC", _cfg("_c11_mc_coded.cfg", mc_cfg(tier, False)))]
    if tier == "thorough":
        tasks.append(("mc_fixed_labels", "MacroProc_MC", _cfg("_c11_mc_fixed2.cfg", mc_cfg(tier, True, 1))))
    for f in fams:
        tasks.append(("gen_" + f, "MacroProc_Gen", _cfg("_c11_gen_%s.cfg" % f, gen_cfg(f, tier))))
    big = {"nest2", "nest3", "nest2q", "bind", "refdepth", "mc_fixed", "mc_coded", "mc_fixed_labels"}
    tasks.sort(key=lambda t: t[0] != "gen_refdepth")      # a long one: started first (the order of `outs` stays that of fams)

    def run(t):
        name, mod, cfg = t
        w = (6 if (tier == "thorough" and name == "mc_fixed_labels") else 3) if name.replace("gen_", "") in big else 1
        r = tlc.run(mod, cfg, workers=w, timeout=2400, mem="6g", tags=("OUT",), collect=name.startswith("gen_"))
        return name, r
    with Phase("TLC: 2 model checks + %d generator families" % len(fams)):
        results = dict(pmap(run, tasks, workers=5))
    log("[tlc] " + " ".join("%s=%.0fs" % (n, r.wall) for n, r in results.items()))
    for name in [t[0] for t in tasks if t[0].startswith("mc_")]:
        r = tlc.must(results[name], name)
        if r.violation:
            raise CheckError("the MacroProc design itself violates its invariants (%s): %s" % (name, r.violation[:800]))
        rep.model("MacroProc_MC(%s,%s,%s)" % (tier, name, "Fixed={}" if name == "mc_coded" else "Fixed=all"), r)
    outs = []
    for f in fams:
        r = tlc.must(results["gen_" + f], "MacroProc_Gen(%s)" % f)
        if r.violation:
            raise CheckError("generator family %s: the machine and the declarative side disagree without a named "
                             "deviation: %s" % (f, r.violation[:800]))
        rep.model("MacroProc_Gen(%s)" % f, r)
        outs += [o for (t, o) in r.printed if t == "OUT"]
    rep.part("generation", programs=len(outs), indefinite=sum(1 for o in outs if o["indef"]),
             with_deviation=sum(1 for o in outs if o["devs"]))

    # ---- (G) replay ---------------------------------------------------------------------------------------
    jobs, index = [], []
    for i, o in enumerate(outs):
        if o["indef"] or not renderable(o):
            continue          # the manual leaves the outcome open: nothing to judge
        for d in targets_of(o):
            js, srcP, srcE, srcM = make_jobs(o, i, d)
            index.append((o, d, srcP, srcE, srcM, len(jobs), len(js)))
            jobs += js
    with Phase("replay %d assemblies of %d programs" % (len(jobs), len(index))):
        res = aslrun.assemble_many(bld, jobs)
    for (o, d, srcP, srcE, srcM, at, n) in index:
        rp, re_ = res[at], res[at + 1]
        rm = res[at + 2] if n == 3 else None
        rep.evaluated()
        rep.distinct(srcP["a.asm"] if len(o["targets"]) == 1 else d + "\n" + srcP["a.asm"], nontrivial=True)
        judge(rep, o, d, srcP, srcE, srcM, rp, re_, rm)
    for what, tags in sorted(DRIFT.items()):
        rep.drift("%s: %d programs (first %s)" % (what, len(tags), tags[0]))
    for (o, d, srcP, srcE, srcM, at, n) in index[:2] + index[-2:]:
        rep.sample({"tag": o["tag"], "target": d, "P": srcP, "E_by_TLC": srcE["a.asm"]})
    rep.traces(len(index))

    # ---- (V) trace validation of `line` events -------------------------------------------------------------
    if bld.hooks:
        cand = [o for o in outs if not o["indef"] and not o["devs"] and renderable(o) and targets_of(o) == ["z80"]
                and o["tag"][0] != "bin"]
        step = max(1, len(cand) // (400 if tier == "quick" else 3000))
        cand = cand[::step]
        tj = []
        for o in cand:
            srcP = {f: mr.render_file(ls, "z80", None, preamble=False) for f, ls in o["p"].items()}
            tj.append({"sources": srcP, "opts": ["-q", "-cpu", "z80"], "events": "file,line"})
        with Phase("record line events of %d programs" % len(tj)):
            tres = aslrun.assemble_many(bld, tj)
        execs = [trace_events(o, r) for o, r in zip(cand, tres) if r.trace]
        with Phase("validate %d events" % sum(len(x) for x in execs)):
            tcfg = _cfg("_c11_trace.cfg", "CONSTANTS Fixed = %s HasAttrs = FALSE MaxNum = 700\nINIT TInit\nNEXT TNext\n"
                                          "POSTCONDITION Accepted\nCHECK_DEADLOCK FALSE\n" % repaired_in_repo())
            v = tracecheck.validate("MacroProc_Trace", execs, cfg=tcfg, timeout=1500, mem="6g")
        rep.part("MacroProc_Trace(generated)", events=v.events, executions=v.executions, accepted=v.accepted,
                 distinct_states=v.states, wall_s=v.wall)
        rep.cov["states"] += v.states
        rep.cov["transitions"] += v.generated
        rep.traces(v.executions)
        if not v.accepted:
            o = cand[v.fail_exec]
            # a line delivered by the real macro processor is not the one the operators produce.  The code
            # files of P and E were equal (else reported above), so this is a drift of the model unless the
            # stream itself is wrong: report as drift, the replay is the verdict.
            rep.drift("program %s: %s" % (o["tag"], v.detail[:400]))
    # ---- (V2) the golden tests: every line handed out by a MACRO/IRP/IRPN/IRPC/REPT/WHILE tag -------------------
    if bld.hooks:
        corpus_trace(rep, bld, tier)
    from checks import ext_macscope         # phase "macscope": the macro name table (sections, '!', passes) + BINCLUDE windows
    ext_macscope.run(rep, bld, tier)
    return rep.finish(
        rule="programs = all members of the TLC-enumerated families (see docstring); each definite program is "
             "rendered twice (P, and E = ExpandDecl(P) computed by TLC) and both are assembled by asl; distinct = "
             "distinct rendered P; every program contains at least one construct", exhaustive=False)


# golden tests the corpus trace specification cannot follow, with the reason (found by analysing the rejection)
CORPUS_UNSUPPORTED = {
    "t_403": "macro names built by string-symbol expansion (mt{NAME} macro ...)",
    "t_821": "macro names built by string-symbol expansion (mt{NAME} macro ...)",
}
CONSTRUCT_RX = r"(?im)^\S*\s+(macro|rept|irp|irpc|irpn|while)\b"


def corpus_trace(rep, bld, tier):
    import re
    import shutil
    from vlib.macrotrace import corpus_events
    tests = []
    for t in aslrun.corpus():
        try:
            with open(t[2], "rb") as f:
                txt = f.read().decode("latin-1")
        except OSError:
            continue
        if t[0] in CORPUS_UNSUPPORTED:
            continue
        if tier == "thorough" or re.search(CONSTRUCT_RX, txt):
            tests.append(t)
    if tier == "quick":
        tests = [t for t in tests if os.path.getsize(t[2]) < 60000]

    def one(t):
        r = aslrun.assemble_corpus(bld, t, events="file,line,split,stmt")
        shutil.rmtree(r.dir, ignore_errors=True)
        return t[0], r
    with Phase("record line/split/stmt events of %d golden tests" % len(tests)):
        cr = pmap(one, tests)
    execs, names, skipped = [], [], {}
    for name, r in cr:
        ev, why = corpus_events(r.trace)
        if ev is None:
            skipped[name] = why
            continue
        if any(e.get("depth", 1) > 1 for e in ev) or tier == "thorough":
            execs.append(ev)
            names.append(name)
    with Phase("validate %d golden executions, %d events" % (len(execs), sum(len(x) for x in execs))):
        ccfg = _cfg("_c11_ctrace.cfg", "CONSTANTS Fixed = %s HasAttrs = TRUE MaxNum = 999\nINIT TInit\nNEXT TNext\n"
                                       "POSTCONDITION Accepted\nCHECK_DEADLOCK FALSE\n" % repaired_in_repo())
        v = tracecheck.validate("MacroProc_CorpusTrace", execs, cfg=ccfg, timeout=1700, mem="8g")
    rep.part("MacroProc_CorpusTrace", events=v.events, executions=v.executions, accepted=v.accepted, tests=names,
             distinct_states=v.states, wall_s=v.wall, not_representable=skipped, unsupported=CORPUS_UNSUPPORTED)
    rep.cov["states"] += v.states
    rep.cov["transitions"] += v.generated
    rep.traces(v.executions)
    if not v.accepted:
        # the stream of a golden program is not what the operators produce; the code files of the golden tests are
        # C04's business and P = E is judged above: a drift of the specification (or an unmodelled feature)
        rep.drift("golden test %s: %s" % (names[v.fail_exec], v.detail[:300]))


def replay(path):
    import json
    v = json.load(open(os.path.join(path, "violation.json")))
    if (v.get("case") or {}).get("phase") in ("macscope", "binwindow"):
        from checks import ext_macscope
        return ext_macscope.replay(path, v)
    bld = build.get("hook")
    srcP = {}
    for fn in os.listdir(path):
        if fn.startswith("P_"):
            srcP[fn[2:]] = open(os.path.join(path, fn)).read()
    srcE = {"a.asm": open(os.path.join(path, "E_a.asm")).read()}
    bins = {fn[4:]: open(os.path.join(path, fn), "rb").read() for fn in os.listdir(path) if fn.startswith("BIN_")}
    case = v.get("case") or {}
    cpu = mr.DIALECTS[case["target"]]["cpu"] if case.get("target") in mr.DIALECTS else \
        ("68000" if "attr" in str(case.get("tag")) else "z80")
    for name, src in (("P", srcP), ("E", srcE)):
        res = aslrun.assemble(bld, src, opts=["-q", "-n", "-cpu", cpu], binary_sources=bins)
        log("%s: rc=%s sig=%s %s" % (name, res.rc, res.sig, (res.out + res.err).strip()[:600]))
        log("   records: %s" % (_short(records(res)[0]),))
    log("recorded: %s" % v["what"])
    return 0


MUTATIONS = """
Each mutation was applied to a scratch copy of the unfixed /repo (VERIF_REPO=...), `./check C11 --tier quick` was run
and the mutant's own ctest result recorded:
  ExpandMacro: an empty positional argument overrides the default         -> VIOLATION after the `dholes` argument
      shape was added (the first run missed it: holes only sat on parameters without default)   (ctest 200/201)
  ExpandIRPN pads a full extra group when the arguments divide evenly     -> VIOLATION   (ctest 200/201)
  REPT_OutProcessor queues REPT 0 (one expansion, the pre-1.42 behaviour) -> VIOLATION   (ctest 201/201)
  CompressLine treats '_' as a name character (part1_part2 not replaced)  -> VIOLATION   (ctest 197/201)
  REPT_Processor opens one symbol space for all iterations                -> VIOLATION   (ctest 201/201)
  CodeBINCLUDE seeks to offset + 1                                        -> VIOLATION   (ctest 201/201)
  ExpandEXITM does not cut the IF stack back                              -> VIOLATION   (ctest 201/201)
  ExpandIRPC drops the last character of strings longer than 3            -> VIOLATION   (ctest 201/201)
  ExpandLine skips parameter number 12                                    -> VIOLATION   (ctest 201/201)
  INCLUDE inside REPT only read in the first iteration                    -> VIOLATION   (ctest 201/201)
  WHILE_OutProcessor queues the body although the condition is false      -> not reported: equivalent (the
      processor evaluates the condition again before the first line)                           (ctest 201/201)
  second keyword argument for the same parameter is ignored (first wins)  -> not reported: only reachable after
      asl has already reported "macro argument redefined"; such calls are indefinite for the property (ctest 201/201)
  MACRO_OutProcessor without KillCtrl                                     -> not reported: equivalent for the code
      file (TABs stay TABs in the stored body; white space only)                               (ctest 201/201)
Second round (a seeded change was missed: first IRP iteration pops the handle of the ENCLOSING expansion; the
programs never used an outer private label again after a nested construct) - family `scope` added, then on a copy
of the current /repo:
  IRP_Processor pops before the first iteration (the seed)                -> VIOLATION (scope)   (ctest 201/201)
  same in IRPC_Processor / REPT_Processor / WHILE_Processor               -> VIOLATION each      (ctest 201/201)
  MACRO_Restorer never pops                                               -> VIOLATION           (ctest 186/201)
Third round (seed missed: an EMPTY argument in an EXCESS position was dropped from the argument list) - family
`shifthole` added; on a copy of the current /repo:
  ExpandMacro appends only non-empty excess arguments                     -> VIOLATION (shifthole) (ctest 201/201)
  The new family also exposed a defect of the pinned tree (ALLARGS after SHIFT loses leading empty arguments,
  ComputeMacroStrings): named deviation AllArgsLeadingEmpty, proposed_fixes/C11-allargs-after-shift-drops-leading-
  empty.diff; all 94 differing quick-tier programs are exactly the ones the as-coded operator predicts.
Fourth round (seed missed: SHIFT inside a nested repetition recomputed ARGCOUNT/ALLARGS of the wrong tag) - family
`shiftloop` added; on a copy of the current /repo:
  ExpandSHIFT calls ComputeMacroStrings(FirstInputTag) instead of (RunTag) -> VIOLATION (shiftloop) (ctest 201/201)
Fifth round (seed missed: CodeBINCLUDE saved TurnWords AFTER clearing it, so on targets with Motorola word order
every word / long written after a BINCLUDE stayed unswapped until the next CPU statement).  All programs were
assembled for the Z80 (TurnWords = False) except one ATTRIBUTE program, and the BINCLUDE family was followed by one
little-endian DW only: the target was not a dimension of the case space.  Family `binctx` added (the specification
now names the targets and what the code distinguishes about them, and tells the harness for which targets each
program is to be assembled); on a copy of the current /repo:
  CodeBINCLUDE: TurnWords = False; SaveTurnWords = TurnWords; (the seed)   -> VIOLATION (binctx: 608 of 1632 quick
      programs - 68000, sh7000, tms9900 on DC.W / DC.L / instructions, z8001, am29000, ppc403 on instructions
      (their Intel style data statements set ActListGran = 1 and are never swapped); none on the targets with
      TurnWords = False or ListGran = 1, as the code predicts)                                  (ctest 201/201)
Sixth round (seed missed: FindLocNode's walk through the stack of enclosing symbol spaces searched the DIRECTLY
enclosing space at every step, so a label private to an expansion two or more levels further out was invisible: silently
the same-named global symbol, or "symbol undefined").  Every generated program used a label at its own level or one
level further in: the distance between use and definition was not a dimension.  Family `refdepth` added (+ the
pass-dependent zone named, see NOT judged); on a copy of the current /repo:
  FindLocNode: FindLocNode_FNode(Name, SearchType, FirstLocHandle->Cont) (the seed) -> VIOLATION (refdepth: 216 of 405
      quick programs = all with D = {1} and no GLOBALSYMBOLS level)                              (ctest 201/201)
  FindLocNode: the walk does not stop at the first hit (the OUTERMOST enclosing space decides) -> VIOLATION (refdepth:
      72 of 405, the programs with D = {2} and {1,2}: use two levels in, definition one level in)  (ctest not run)
Corrupted traces (MacroProc_CorpusTrace on t_irpn): one token of a delivered body line changed, one delivered line
dropped, exhausted flag flipped, depth changed -> each REJECTED at the corrupted event.
All six proposed fixes applied together: 0 violations, no known finding hit, 201/201 golden tests.
"""
