"""Composed validation phase of C12 (growth tasks "AsCore" and "AsCore + symbol table"): ONE recorded execution of the
assembler is validated against ALL statement-level machines of the specification at once (spec/AsCore.tla,
AsCore_Trace.tla).

run(rep, bld, tier):
  * assembles the 201 golden programs with the hook classes file,stmt,emit,sym,ref,diag,line,split (worker processes),
  * regroups the hook records per source statement (one S event = one Produce_Code execution with the line(s)
    GetNextLine delivered for it, its diag records, ALL its sym_def / sym_mod / sym_ref records in order, its
    emit/reserve/retract records; in the last pass of a kept file the emitted bytes and, in the PASS event, the code
    file as parsed by the independent reader vlib/codefile.py; the PASS event also carries the definitions
    AssembleFile_InitPass makes before pass_begin).  Tokenising only: line texts are interned, symbol values are split
    into (type, integer below 2^30, decimal text beyond), the label field and the arguments of SECTION / ENDSECTION /
    PUBLIC / GLOBAL / FORWARD / ENUM / NEXTENUM / ENUMCONF / PUSHV / POPV are case-folded the way the run was
    configured (CASESENSITIVE as the assembler predefines it) and cut at "," / ":" / "[" / "="; nothing is evaluated.
    Every comparison is TLC's.
  * validates the executions with TLC against AsCore_Trace (CondAsm x AddrBook x Diag/Driver_Trace x CodeWriter stream
    view x projected MacroProc x Symbols + the cross-machine claims), several TLC processes side by side; TLC takes up
    to 32 consecutive statements in one step (CONSTANT Block) and says how far it got; a rejected execution is
    validated again statement by statement (Block = 1) to name the rejected event,
  * on a rejection finds the violated claim by re-validating the rejected execution with one claim switched off
    (CONSTANT OffSet / OffAt of AsCore.tla; again TLC decides), and reports it: claims the manual / property C12 state
    definitely (DEFINITE below) as violation, the rest as SPEC-DRIFT,
  * reports coverage: share of the corpus statements handled by a named action of some machine, per machine
    (SY = symbol table: label, EQU / SET, other definitions, references, sections, ENUM, PUSHV / POPV).
A second, small part validates TLC-generated programs (AsCore_Gen: faulty lines, open constructs, macro / REPT /
EXITM, PHASE, labels; symbol family: label LX, CX EQU, VX SET, redefinitions, DB VX, SECTION / ENDSECTION / PUBLIC,
PUSHV / POPV, ENUM / NEXTENUM, also in skipped branches and macro / REPT bodies) the same way, because the golden
programs contain no unexpected error; they are assembled with -L and the symbol table of the listing is tokenised
into the FILEEND event (claim FinalTableIsListed).

GROWTH ROUND 6 (EXPECT list, IFDEF against the table, pass-loop causes, named single-statement actions)
  * EXPECT / ENDEXPECT (asmerr.c: pExpectErrors, InExpect, FindAndTakeExpectError, CodeEXPECT, CodeENDEXPECT,
    AsmErrPassInit / AsmErrPassExit) are composed: the list lives in Diag's state (d.exp, d.inexp), its semantics are
    DiagPos.tla's operators (Report / AddAll / TakeFirst / CodeEXPECT, by INSTANCE).  New S-event fields gk / ga (kind
    of the statement and its tokenised arguments: an EXPECT argument is read only if it is a literal decimal number
    and no RADIX statement has been executed; otherwise the list is `fuzzy` up to its ENDEXPECT and nothing is claimed
    about it).  Claims: ExpectListIsHistory (a diag record is "expected" iff its number is on the list = announced
    minus consumed; ErrsDeltaIsDiagCount therefore counts exactly the messages that were not announced),
    EndExpectReportsExactlyUnmet, ExpectDoesNotNest, ExpectEndsWithPass.  Corpus: 1221 EXPECT blocks per pass.
  * IfdefReadsTable (DEFINITE for C12: "IFDEF: true if the given symbol has been defined; the definition has to
    appear before IFDEF"): the branch 6883 IFDEF / IFNDEF statements of the corpus take is the one the symbol table of
    the specification dictates (entry found by FindLocNode / FindNode and defined in THIS pass); names that are also
    macros / functions are not judged (macro names are scoped by section - gap).  The redefinition rules themselves
    (SET may change, EQU / label may not, outcomes new / same / changed / redef_* / double / mix) were already
    composed in round 5 (SymbolTableFollowsAdder, ConstantIsStable, RedefinitionIsReported) and are unchanged.
  * PhaseErrorForcesRepass / RepassHasCause (PASSEND): Repass is set iff a constant was re-entered with another value
    (outcome "changed"), a lookup found nothing ("unknown") - or a REG statement ran: symbol table x pass loop.
  * named actions for what used to fall under the generic rule (histogram before: no instruction on the line 22738,
    code in a pass that is not the last 18948, EXPECT 1221, ENDEXPECT 1221, NEWPAGE 339, PAGE 152, ASSUME 53, BIT 31,
    END 30, ALIGN 10, ... of 355040 statements): EmptyLineIsInert, CodeLenIsEmitted (CodeLen = what the emit / reserve
    records hand out, in every pass), ListingControlIsInert, AlignReachesBoundary, EndStopsAssembly, EndSetsEntry.
    Share explained by a named action: 87.4 % -> 99.97 %; the remaining histogram is printed in the evidence part
    (generic_rule_histogram).
  * bounded model: family "exp" (AsCore_GenX.cfg: every program of <= 3 lines over 14 statements: EXPECT 1200 |
    1200,1450 | 1200,1200, ENDEXPECT, the faulty statements that raise 1200 / 1450, a user ERROR, IF 0 / ENDIF, data,
    END, IFDEF / IFNDEF CX, CX EQU 1; thorough: 4 lines) + 8 directed programs (second occurrence counts, unmet
    announcement, DrainIsSubjectToList in both orders, nesting, block left open, EXPECT in macro / REPT bodies and in a
    skipped branch, END inside a REPT body, IFDEF before / after the definition and inside a section).  The forward
    model raises its messages through Diag!WrXErrorPos (Diag.tla's own list), StmtSucc judges them with
    DiagPos!Report: the two stand-alone models of the list are checked against each other and against asl.
    Invariants: ExpectListIsAnnouncedMinusConsumed, HiddenIsNeverCounted, EndIsFinal.
  * mutations of the real code tried (scratch copies, VERIF_REPO=/tmp/gac-mN ./check C12; EXPECT is outside the letter
    of C12, so these show as SPEC-DRIFT with the named claim + "model predicts n errors, asl counted m"; exit 0):
      asmerr.c CodeENDEXPECT reports only the first unmet expectation -> EndExpectReportsExactlyUnmet (21 reports);
      asmerr.c CodeEXPECT without the nesting test                     -> ExpectDoesNotNest (77 reports);
      asmerr.c AddExpectError appends instead of prepending -> EndExpectReportsExactlyUnmet on the directed program
        EXPECT 2130,1200 / ENDEXPECT / EXPECT 1200,2130 / ENDEXPECT only (the error totals are the same);
      asmpars.c IsSymbolDefined ignores the Defined mark -> IfdefReadsTable on the golden t_avr, pass 2 (the include
        guard IFNDEF __REGAVRINC): a VIOLATION of C12.
    Recorded fields corrupted (TLC names the claim): an "expected" record dropped -> EndExpectReportsExactlyUnmet;
    EXPECT announcing another number -> ExpectListIsHistory; IFDEF <-> IFNDEF -> IfdefReadsTable; repass flag of a
    PASSEND cleared -> PhaseErrorForcesRepass; CodeLen + 1 -> CodeLenIsEmitted.
  * NOT covered: EXPECT arguments that are not literal numbers (list fuzzy, nothing claimed), IFDEF of names that are
    also macros / functions, IFDEF with [section] qualifiers or {..} names, the reverse direction of EndSetsEntry for
    relocatable output, ASSUME / BIT / CHARSET ... (the 112 statements of generic_rule_histogram).
"""
import concurrent.futures as cf
import json
import os
import tempfile
import time

from vlib import aslrun, codefile, tlc
from vlib.common import CheckError, NCPU, Phase, log, rng, scratch

EVENTS = "file,stmt,emit,sym,ref,diag,line,split"
LIM = 2 ** 30

IFOPS = {"IF": "IF", "IFDEF": "IF", "IFNDEF": "IF", "IFUSED": "IF", "IFNUSED": "IF", "IFEXIST": "IF",
         "IFNEXIST": "IF", "IFB": "IF", "IFNB": "IF", "ELSE": "ELSEIF", "ELSEIF": "ELSEIF", "ELSEC": "ELSEIF",
         "ENDIF": "ENDIF", "ENDC": "ENDIF", "SWITCH": "SWITCH", "SELECT": "SWITCH", "CASE": "CASE",
         "ELSECASE": "ELSECASE", "ENDCASE": "ENDCASE"}
AB_CLASS = {"ORG": "ORG", "RORG": "RORG", "SEGMENT": "SEGMENT", "CPU": "CPU", "PHASE": "PHASE", "DEPHASE": "DEPHASE",
            "SAVE": "SAVE", "RESTORE": "RESTORE", "STRUCT": "STRUCT", "STRUC": "STRUCT", "UNION": "UNION",
            "ENDSTRUCT": "ENDSTRUCT", "ENDSTRUC": "ENDSTRUCT", "ENDS": "ENDSTRUCT", "ENDUNION": "ENDSTRUCT"}
SY_CLASS = {"SECTION": "SECTION", "ENDSECTION": "ENDSECTION", "PUBLIC": "PUBLIC", "GLOBAL": "GLOBAL",
            "FORWARD": "FORWARD", "EQU": "EQU", "=": "EQU", "SET": "SET", ":=": "SET", "EVAL": "SET", "ENUM": "ENUM",
            "NEXTENUM": "NEXTENUM", "ENUMCONF": "ENUMCONF", "PUSHV": "PUSHV", "POPV": "POPV"}
MC_CLASS = {"MACRO": "MACRO", "IRP": "IRP", "IRPN": "IRPN", "IRPC": "IRPC", "REPT": "REPT", "WHILE": "WHILE",
            "ENDM": "ENDM", "ENDR": "ENDM", "EXITM": "EXITM", "SHIFT": "SHIFT", "SHFT": "SHIFT", "INCLUDE": "INCLUDE"}

LIST_OPS = {"NEWPAGE", "PAGE", "TITLE", "PRTINIT", "PRTEXIT", "PAGESIZE"}      # controls of the listing (asmallg.c)
_LIT = __import__("re").compile(r"^(0|[1-9][0-9]{0,4})$")


def _lit(a, ok=True):
    """a literal decimal number below 65536 (what EXPECT / ALIGN take), or -1: not known to the tokeniser"""
    t = a.strip()
    return int(t) if ok and _LIT.match(t) and int(t) < 65536 else -1


LABEL_CONSUMERS = {"=", ":=", "MACRO", "FUNCTION", "LABEL", "SET", "STRUCT", "STRUC", "EQU", "ENDSTRUCT", "ENDS",
                   "ENDSTRUC", "ENDUNION", "EVAL", "UNION", "REG", "BIT", "SFR", "PORT", "DEFBIT", "YSFR", "XSFR",
                   "SFRB", "RIV", "LIV", "DEFBITFIELD", "DEFBITB", "DBIT", "SFRBIT"}      # (coverage counting only)

# claims of AsCore.tla that can be switched off for diagnosis, in the order they are tried
CLAIMS = ["SkippedIsInert", "RecordedIsInert", "IfFamilyIsAddressNeutral", "ErrorLineEmitsNoCode",
          "FailedHandlerNeedsError", "MachineErrorIsReported", "ExitmRestoresEntryDepth", "RejectedHeaderNeedsError",
          "DeliveredAsRecorded", "TagDepthIsMachineDepth", "LabelValueIsExec", "LabelEntersTable",
          "RedefinitionIsReported", "DefKindMatchesStatement", "ErrorDefinesNothing", "ConstantIsStable",
          "SymbolTableFollowsAdder", "RefReadsTable", "SectionStackFollowsManual", "EnumAssignsSequentialValues",
          "StackIsLifo", "FinalTableIsListed", "LastPassImageEqualsFile", "ErrsDeltaIsDiagCount", "OpenConstructsAreReported",
          "ExpectListIsHistory", "EndExpectReportsExactlyUnmet", "ExpectDoesNotNest", "ExpectEndsWithPass",
          "IfdefReadsTable", "PhaseErrorForcesRepass", "RepassHasCause", "CodeLenIsEmitted", "EmptyLineIsInert", "ListingControlIsInert",
          "AlignReachesBoundary", "EndStopsAssembly", "EndSetsEntry"]
# what property C12 (selection) or the manual state definitely; the others are finer predictions of the model
DEFINITE = {"SkippedIsInert": "a statement in a branch that is not selected had an effect",     # (code, address, message,
            # symbol definition or modification, section stack, PUSHV stack)
            "RecordedIsInert": "a line stored into a macro / REPT body was assembled while being stored",
            "LabelValueIsExec": "a label did not get the current program counter",
            "LastPassImageEqualsFile": "the code file is not the byte stream emitted in the last pass",
            "DeliveredAsRecorded": "a REPT / WHILE body line was delivered differently from how it was written",
            "ExitmRestoresEntryDepth": "EXITM did not reset the IF/SWITCH stack to its state before the expansion",
            "IfdefReadsTable": "IFDEF / IFNDEF did not select the branch the definitions in front of it dictate"}


# ----------------------------------------------------------------------------------------------------------------
# regrouping (hook records -> AsCore_Trace events)
# ----------------------------------------------------------------------------------------------------------------
def _macro_name(text):
    """name defined by `name MACRO ...`: the label field = first blank-delimited token, a trailing ':' dropped"""
    toks = text.split()
    if not toks:
        return ""
    t = toks[0]
    if t.upper() == "MACRO" and len(toks) > 1:          # (no label field: asl rejects it; keep something)
        return ""
    return t.rstrip(":").upper()


def _symrec(e):
    """sym_def / sym_mod / sym_ref hook record -> record of AsCore (value split into type, integer below 2^30,
    decimal text beyond: TLC's integers have 32 bits)"""
    v = e.get("val")
    small = v is not None and abs(v) < LIM
    return {"k": {"sym_def": "def", "sym_mod": "mod", "sym_ref": "ref"}[e["e"]], "name": e["name"], "sect": e["sect"],
            "t": e.get("typ", 0), "v": v if small else 0, "x": "" if (v is None or small) else str(v),
            "chg": bool(e["chg"]), "out": e["out"]}


_PLAIN = __import__("re").compile(r"^[A-Za-z_@?][A-Za-z0-9_@?$.]*$")


def _plain(name):
    """a symbol name that is stored as it is written (ChkTmp: not $$name, .name, -, +, /; no {..}, no [section])"""
    return bool(_PLAIN.match(name))


def _qual(text, fold):
    """section qualifier of PUBLIC x:sect / name[sect] -> record of Symbols.tla (IdentifySection)"""
    import re
    q = text.strip()
    m = re.fullmatch(r"(?i)parent(\d?)", q)
    if q == "":
        return {"t": "glob"}
    if m:
        return {"t": "parent", "d": int(m.group(1) or 1)}
    return {"t": "name", "n": fold(q)}


def _sy_class(op, args, sed_pre, sed, fold):
    """class of the statement for the symbol table + its tokenised arguments (no evaluation: names case-folded,
    `name=value` noticed, a literal increment read); anything the tokeniser cannot render is class OTHER"""
    import re
    sc = SY_CLASS.get(op, "OTHER")
    if sc == "SECTION":
        return (sc, [fold(args[0])]) if len(args) == 1 and _plain(args[0]) else ("OTHER", [])
    if sc == "ENDSECTION":
        if len(args) == 0:
            return sc, [""]
        return (sc, [fold(args[0])]) if len(args) == 1 and _plain(args[0]) else ("OTHER", [])
    if sc in ("PUBLIC", "GLOBAL", "FORWARD"):
        if sed_pre == 0 or not args:                      # only decoded inside a section
            return "OTHER", []
        out = []
        for a in args:
            n, sep, q = a.partition(":")
            if not _plain(n.strip()) or "{" in q:
                return "OTHER", []
            out.append({"n": fold(n.strip()), "q": _qual(q, fold) if sep else {"t": "none"}})
        return sc, out
    if sc in ("ENUM", "NEXTENUM"):
        return sc, ["=" in a for a in args]
    if sc == "ENUMCONF":
        if args and re.fullmatch(r"\d{1,6}", args[0].strip()):
            return sc, [int(args[0].strip())]
        return sc, []
    if sc in ("PUSHV", "POPV"):
        if len(args) < 2 or (args[0] and not _plain(args[0])):
            return "OTHER", []
        out = []
        for a in args[1:]:
            m = re.fullmatch(r"([^\[\]]+)(?:\[([^\[\]]*)\])?", a.strip())
            if not m or not _plain(m.group(1)):
                return "OTHER", []
            out.append({"n": fold(m.group(1)), "q": _qual(m.group(2), fold) if m.group(2) is not None
                        else {"t": "none"}})
        return sc, [fold(args[0]), out]
    return sc, []


def _global_symbols(args):
    """{GLOBALSYMBOLS} / {NOGLOBALSYMBOLS} among the arguments of a MACRO / IRP / REPT / WHILE header"""
    gs = False
    for a in args:
        t = a.strip()
        if t.startswith("{") and t.endswith("}"):
            w = t[1:-1].strip().upper()
            if w == "GLOBALSYMBOLS":
                gs = True
            elif w == "NOGLOBALSYMBOLS":
                gs = False
    return gs


def listed_symbols(text):
    """symbol table of a listing (-L) -> [{n, s, v}] for the integer symbols (value printed in hex, below 2^30), or
    None if there is no table.  Entries look like `*NAME :  [SECTION]      1F C |`, two per line."""
    import re
    m = re.search(r"^\s*Symbol Table \(\* = unused\):\s*\n\s*-+\s*\n", text, re.M)
    if not m:
        return None
    out = []
    for ln in text[m.end():].split("\n"):
        if re.match(r"^\s+\d+ symbols?\s*$", ln):
            return out
        if "\f" in ln or " - Page " in ln:
            return None                                   # a page break inside the table: not tokenised
        for ent in ln.split("|"):
            mm = re.match(r"^\s*\*?(\S+) :\s+(?:\[(\S*)\]\s+)?(\S+) (\S)\s*$", ent)
            if mm and re.fullmatch(r"[0-9A-F]{1,7}", mm.group(3)):
                out.append({"n": mm.group(1), "s": mm.group(2) or "", "v": int(mm.group(3), 16)})
    return None


def regroup(trace, rc, p, lst=None):
    """-> (events, info) or (None, reason).  events exclude the RESET that separates executions."""
    passes = [e["pass"] for e in trace if e.get("e") == "pass_begin"]
    lastpass = passes[-1] if passes else 0
    parsed = codefile.parse(p) if p is not None else None
    recs = []
    if parsed is not None:
        recs = [{"cpu": r.cpu, "seg": r.seg, "gran": r.gran, "start": r.start, "data": list(r.data)}
                for r in parsed.data_records()]
        if any(r["start"] * max(r["gran"], 1) + len(r["data"]) >= 2 * LIM for r in recs):
            return None, "addresses beyond TLC's integers"
    texts = {"": 0}
    ev = [{"a": "RUN", "werror": False, "maxerr": 0, "suppw": False}]
    cls = {}

    def count(k):
        cls[k] = cls.get(k, 0) + 1
    cur_pass = 0
    stream = False
    pre, line, dg, chunks = [], None, [], []
    sy, psy, split = [], [], None          # symbol records since the line was delivered / before that; split record
    between = True                         # outside the passes: what AssembleFile_InitPass enters itself
    casesens = False
    last_stmt = None
    ifpre, recpre, sedpre = True, False, 0
    radix10 = True                         # no RADIX statement so far: a literal number is decimal

    def fold(x):
        return x if casesens else x.upper()

    def ln(e):
        t = e["text"]
        i = texts.get(t)
        if i is None:
            i = texts[t] = len(texts)
        return {"nl": False, "tx": i, "dp": e["depth"], "em": bool(e["empty"]), "_t": t}

    def strip(x):
        return {k: v for k, v in x.items() if k != "_t"}
    for e in trace:
        k = e.get("e")
        if k == "file_begin":
            ev.append({"a": "FILE", "ifasm": e["ifasm"], "ifd": e["ifd"], "tagd": e["tagd"], "rec": e["rec"],
                       "svd": e["svd"], "std": e["std"], "sed": e["sed"]})
            between = True
            sy = []
            radix10 = True
        elif k == "pass_begin":
            cur_pass = e["pass"]
            if e["pc"] >= LIM:
                return None, "addresses beyond TLC's integers"
            stream = cur_pass == lastpass and parsed is not None
            for r in sy:
                if r["name"] == "CASESENSITIVE":
                    casesens = r["v"] != 0
            pe = {"a": "PASS", "pass": e["pass"], "seg": e["seg"], "pc": e["pc"], "ifasm": e["ifasm"],
                  "cpu": e["cpu"], "last": cur_pass == lastpass, "hasfile": stream, "recs": recs if stream else [],
                  "problems": list(parsed.problems) if stream else [],
                  "entries": sum(1 for r in parsed.records if r.kind == "entry") if stream else 0,
                  "sy": [r for r in sy if r["k"] == "def"]}
            ev.append(pe)
            pre, line, dg, chunks = [], None, [], []
            sy, psy, split = [], [], None
            between = False
            last_stmt = None
            ifpre, recpre, sedpre = True, False, 0
        elif k in ("sym_def", "sym_mod", "sym_ref"):
            sy.append(_symrec(e))
        elif cur_pass == 0:
            continue
        elif k == "line":
            if line is not None:
                pre.append(strip(line))   # delivered, but never became a statement (preprocessor line)
            line = ln(e)
            psy += sy                     # written while the line was being fetched (WHILE evaluates its condition)
            sy = []
        elif k == "split":
            split = e
        elif k == "diag":
            dg.append({"num": e["num"], "cls": e["cls"], "errs": e.get("errs", 0), "warns": e.get("warns", 0)})
        elif k == "emit":
            g = max(e["gran"], 1)
            c = {"k": "E", "seg": e["seg"], "addr": e["addr"], "n": e["n"] // g, "g": g}
            if stream:
                c["b"] = list(bytes.fromhex(e["bytes"]))
            if e["addr"] >= LIM or e["addr"] * g >= 2 * LIM:
                return None, "addresses beyond TLC's integers"
            chunks.append(c)
        elif k == "reserve":
            if e["addr"] >= LIM:
                return None, "addresses beyond TLC's integers"
            chunks.append({"k": "R", "seg": e["seg"], "addr": e["addr"], "n": e["n"]})
        elif k == "retract":
            g = max(e["gran"], 1)
            chunks.append({"k": "X", "seg": e["seg"], "addr": e["addr"], "n": e["n"] // g, "nb": e["n"]})
        elif k == "stmt":
            op = e["op"].upper()
            if e["pc"] >= LIM or abs(e["ph"]) >= LIM:
                return None, "addresses beyond TLC's integers"
            if e["rec"]:
                ca = "OTHER"
            elif e["wasif"]:
                ca = IFOPS.get(op, "OTHER")
            elif e["wasmac"] and op == "EXITM":
                ca = "EXITM"
            else:
                ca = "OTHER"
            skip = (not e["ifasm"]) or e["rec"] or e["wasmac"] or e["wasif"] or recpre
            cb = "OTHER" if skip else AB_CLASS.get(op, "OTHER")
            mc = MC_CLASS.get(op, "OTHER")
            here = line if line is not None else {"nl": True, "tx": 0, "dp": 0, "em": False, "_t": ""}
            args = [a["a"] for a in (split or {}).get("args", [])]
            lab = (split or {}).get("lab", "")
            sc, sa = ("OTHER", []) if skip else _sy_class(op, args, sedpre, e["sed"], fold)
            # statement kind for the EXPECT list / IFDEF / the named actions of single statements (tokenising only:
            # a literal decimal number is read, a name is case-folded; nothing is evaluated)
            gk, ga = "OTHER", []
            if op in ("IFDEF", "IFNDEF"):
                gk = op
                if e["argc"] == 1 and len(args) == 1 and _plain(args[0].strip()):
                    ga = [fold(args[0].strip()), args[0].strip().upper()]
            elif skip:
                pass
            elif op == "EXPECT":
                gk = "EXPECT"
                ga = [_lit(a, radix10) for a in args] if len(args) == e["argc"] else [-1] * e["argc"]
            elif op == "ENDEXPECT":
                gk = "ENDEXPECT"
            elif op == "" and e["argc"] == 0 and (here["_t"].strip()[:1] in ("", ";")
                                                  or (split is not None and split.get("op", "x") == "")):
                gk = "EMPTY"                            # blank, comment or label only AS WRITTEN (a code generator may
                                                        # empty OpPart itself: Rabbit 2000 ALTD prefix, uPD77230)
            elif op in LIST_OPS:
                gk = "LIST"
            elif op == "ALIGN":
                gk = "ALIGN"
                ga = [_lit(args[0], radix10)] if args and _lit(args[0], radix10) > 0 else []
            elif op == "END":
                gk = "END"
            elif op == "FUNCTION":
                gk = "FUNCTION"
                ga = [fold(lab)] if _plain(lab) else []
            elif op == "RADIX":
                radix10 = False
            s = {"a": "S", "pre": pre, "nl": here["nl"], "tx": here["tx"], "dp": here["dp"], "em": here["em"],
                 "op": op, "argc": e["argc"], "lab": bool(e["lab"]), "wm": bool(e["wasmac"]), "ca": ca, "cb": cb,
                 "mc": mc, "nm": _macro_name(here["_t"]) if mc == "MACRO" else "",
                 "gsym": _global_symbols(args) if mc != "OTHER" else False,
                 "ifasm": bool(e["ifasm"]), "stk": e["ifs"], "rec": bool(e["rec"]), "tagd": e["tagd"],
                 "errs": e["errs"], "seg": e["seg"], "pc": e["pc"], "ph": e["ph"], "phd": e["phd"], "svd": e["svd"],
                 "std": e["std"], "sed": e["sed"], "len": e["len"], "cpu": e["cpu"], "dg": dg, "ch": chunks,
                 "sy": sy, "psy": psy, "lbn": fold(lab) if _plain(lab) else "",
                 "q": "[" in (split or {}).get("raw", ""), "sc": sc, "sa": sa, "gk": gk, "ga": ga}
            ev.append(s)
            # coverage classes (counting only): which machine has a named action for this statement
            named = []
            if ca != "OTHER":
                named.append("CA:" + ca)
            if cb != "OTHER":
                named.append("AB:" + cb)
            if recpre:
                named.append("MP:recorded" if e["rec"] else "MP:body-closed")
            elif mc != "OTHER":
                named.append("MP:" + mc)
            elif e["wasmac"]:
                named.append("MP:call")
            if here["dp"] > 1 and not recpre:
                named.append("MP:delivered-by-tag")
            if dg or (op in ("WARNING", "ERROR", "FATAL") and ifpre and not recpre):
                named.append("DG:diagnostic")
            if stream and any(c["k"] == "E" for c in chunks):
                named.append("CW:stream")
            ndef = sum(1 for r in sy if r["k"] == "def")
            labelled = bool(e["lab"]) and ifpre and not recpre and op not in LABEL_CONSUMERS and ndef > 0
            if labelled:
                named.append("SY:label")
            if sc in ("EQU", "SET") and ndef:
                named.append("SY:" + sc.lower())
            elif sc in ("SECTION", "ENDSECTION", "PUBLIC", "GLOBAL", "FORWARD"):
                named.append("SY:section")
            elif sc in ("ENUM", "NEXTENUM", "ENUMCONF"):
                named.append("SY:enum")
            elif sc in ("PUSHV", "POPV"):
                named.append("SY:stack")
            elif ndef > (1 if labelled else 0):
                named.append("SY:definition")            # made by another handler (BIT, SFR, STRUCT, CPU ...)
            if any(r["k"] == "ref" and r["out"] != "unknown" for r in sy + psy):
                named.append("SY:reference")
            if any(r["k"] == "mod" for r in sy):
                named.append("SY:label-moved")
            if not ifpre and not e["ifasm"] and ca == "OTHER" and not recpre:
                named.append("CA:skipped")
            if gk in ("EXPECT", "ENDEXPECT"):
                named.append("DG:expect")
            elif gk == "EMPTY":
                named.append("ST:empty-line")
            elif gk == "LIST":
                named.append("ST:listing-control")
            elif gk == "ALIGN" and ga:
                named.append("AB:ALIGN")
            elif gk == "END":
                named.append("ST:END")
            elif gk == "FUNCTION" and ga:
                named.append("SY:function")
            elif gk in ("IFDEF", "IFNDEF") and ga and ca == "IF" and ifpre:
                named.append("SY:ifdef")
            if any(c["k"] in "ER" for c in chunks) and not skip:
                named.append("AB:code-length")          # CodeLenIsEmitted: the counter moves by what was handed out
            for n in named:
                count(n)
            count("named" if named else "generic")
            if not named:                                # histogram of what falls to the generic rule (counting only)
                count("generic-op:" + ("(code)" if e["len"] > 0 and chunks else op))
            for m in sorted(set(n.split(":")[0] for n in named)):
                count("machine:" + m)
            last_stmt = e
            ifpre, recpre, sedpre = bool(e["ifasm"]), bool(e["rec"]), e["sed"]
            pre, line, dg, chunks = [], None, [], []
            sy, psy, split = [], [], None
        elif k == "pass_end":
            if line is not None:
                pre.append(strip(line))
                line = None
            if pre:
                ev.append({"a": "L", "pre": pre})
                pre = []
            if dg:
                ev.append({"a": "T", "dg": dg})
                dg = []
            if last_stmt is not None:
                ev.append({"a": "LAST", "rec": last_stmt["rec"], "std": 1 if last_stmt["std"] else 0,
                           "sed": 1 if last_stmt["sed"] else 0})
            ev.append({"a": "PASSEND", "pass": e["pass"], "repass": e["repass"], "errs": e["errs"],
                       "warns": e["warns"], "ifd": e["ifd"], "tagd": e["tagd"]})
            sy, psy = [], []
            between = True
        elif k == "file_end":
            ev.append({"a": "FILEEND", "passes": e["passes"], "errs": e["errs"], "warns": e["warns"],
                       "kept": e["kept"], "haslst": lst is not None, "lst": lst or []})
    if dg:
        ev.append({"a": "T", "dg": dg})       # the process died inside a statement
    ev.append({"a": "EXIT", "rc": rc if rc is not None else -1, "kept": [p is not None]})
    return ev, cls


_NEED_SPLIT_OPS = set(SY_CLASS) | {"MACRO", "IRP", "IRPN", "IRPC", "REPT", "WHILE", "EXPECT", "ALIGN", "IFDEF", "IFNDEF"}
_OP_RE = __import__("re").compile(rb'"lab":"((?:[^"\\]|\\.)*)","op":"((?:[^"\\]|\\.)*)"')


def read_trace(path):
    """like vlib.aslrun.read_trace, but a `split` record (one per source line) is only parsed where regroup uses it:
    a label field, a statement of the symbol table / a header with options, a '[' on the line"""
    ev = []
    with open(path, "rb") as f:
        for line in f:
            if line.startswith(b'{"e":"split"'):
                m = _OP_RE.search(line)
                if m and not m.group(1) and m.group(2).upper().decode("latin-1") not in _NEED_SPLIT_OPS:
                    a = line.find(b'"raw":"')
                    b = line.find(b'","div":', a)
                    if a >= 0 and b >= 0 and b"[" not in line[a:b]:
                        continue
            line = line.strip()
            if not line:
                continue
            try:
                ev.append(json.loads(line.decode("latin-1")))
            except Exception:
                ev.append({"e": "garbled", "raw": line[:200].decode("latin-1")})
    return ev


def _dump(ev):
    return "\n".join(json.dumps(e, separators=(",", ":")) for e in ev) + "\n"


# ----------------------------------------------------------------------------------------------------------------
# worker: one golden test -> ndjson fragment on disk
# ----------------------------------------------------------------------------------------------------------------
def _corpus_job(args):
    (bdir, hooks, flavour, t, outdir) = args
    import shutil
    from vlib.build import Build
    b = Build(bdir, flavour, hooks)
    tdir = tempfile.mkdtemp(prefix="c-", dir=scratch())
    tr = os.path.join(tdir, "trace.ndjson")
    res = aslrun.assemble_corpus(b, t, env={"ASL_VERIF_TRACE": tr, "ASL_VERIF_EVENTS": EVENTS}, outdir=tdir)
    trace = read_trace(tr) if os.path.exists(tr) else None
    shutil.rmtree(tdir, ignore_errors=True)
    if trace is None:
        return {"name": t[0], "skip": "no trace", "rc": res.rc}
    ev, info = regroup(trace, res.rc, res.p)
    if ev is None:
        return {"name": t[0], "skip": info, "rc": res.rc}
    path = os.path.join(outdir, t[0] + ".ndjson")
    with open(path, "w") as f:
        f.write(_dump(ev))
    return {"name": t[0], "path": path, "n": len(ev), "classes": info, "rc": res.rc,
            "stmts": sum(1 for e in ev if e["a"] == "S")}


def _program_job(args):
    """a chunk of generated programs -> ONE ndjson fragment file (RESET between the executions) + what was observed
    from outside (status, error / warning totals of the file_end record, the code file's data in file order)"""
    (bdir, hooks, flavour, chunk, outdir) = args
    from vlib.build import Build
    b = Build(bdir, flavour, hooks)
    out = []
    for (idx, src) in chunk:
        res = aslrun.assemble(b, {"a.asm": src}, opts=["-q", "-cpu", "z80", "-L"], events=EVENTS, want=["a.lst"])
        o = {"idx": idx, "rc": res.rc, "sig": res.sig, "timeout": res.timeout, "errs": None, "warns": None,
             "image": None, "events": None}
        for e in res.trace or ():
            if e.get("e") == "file_end":
                o["errs"], o["warns"] = e["errs"], e["warns"]
        if res.p is not None:
            pr = codefile.parse(res.p)
            o["image"] = [[r.start + i, x] for r in pr.data_records() for i, x in enumerate(r.data)]
        if res.trace is not None:
            lst = listed_symbols(res.files["a.lst"].decode("latin-1")) if "a.lst" in res.files else None
            ev, info = regroup(res.trace, res.rc, res.p, lst)
            if ev is not None:
                o["events"] = _dump(ev)
                o["n"] = len(ev)
        out.append(o)
    return out


# ----------------------------------------------------------------------------------------------------------------
# TLC side
# ----------------------------------------------------------------------------------------------------------------
BLOCK = 32      # statements per TLC step in production (AsCore_Trace.cfg); a rejection is located with Block = 1
_CFG = ("CONSTANTS Segs = {0,1,2,3,4,5,6,7,8,9,10} StructSeg = 11 OffSet = %s OffAt = %d Block = %d\n"
        "INIT TInit\nNEXT TNext\nVIEW TView\nPOSTCONDITION Accepted\nCHECK_DEADLOCK FALSE\n")


def _cfg(off=(), at=0, block=BLOCK):
    """production: the static AsCore_Trace.cfg (Off = {}, Block = 32); diagnosis: a temporary cfg with the claims `off`
    switched off at event number `at` of the trace file (and nowhere else), one statement per step"""
    if not off and block == BLOCK:
        return "AsCore_Trace.cfg", None
    fd, path = tempfile.mkstemp(prefix="_ascore_", suffix=".cfg", dir=tlc.SPEC)
    with os.fdopen(fd, "w") as f:
        f.write(_CFG % ("{" + ", ".join('"%s"' % c for c in off) + "}", at, block))
    return os.path.basename(path), path


def _validate(frags, off=(), at=0, mem="5g", timeout=1500, block=BLOCK):
    """frags: list of result dicts with path/n.  One TLC run over the concatenation (RESET between executions).
    -> dict(accepted, fail (index into frags), fail_index, fail_event, states, generated, wall, events).
    TLC takes up to `block` consecutive statements in one step and reports how far it got (<<"REACHED", n>>: the first
    event that was not consumed); with block > 1 the rejected execution is validated again statement by statement to
    name the rejected event."""
    import re
    if off:
        block = 1
    fd, path = tempfile.mkstemp(prefix="ascore-", suffix=".ndjson", dir=scratch())
    os.close(fd)
    owner = []
    with open(path, "w") as out:
        for fi, fr in enumerate(frags):
            out.write('{"a":"RESET"}\n')
            owner.append((fi, -1))
            if "text" in fr:
                out.write(fr["text"])
            else:
                with open(fr["path"]) as f:
                    out.write(f.read())
            owner += [(fi, i) for i in range(fr["n"])]
    cfgname, cfgpath = _cfg(off, at, block)
    try:
        r = tlc.run("AsCore_Trace", cfgname, workers=1, env={"TRACE": path}, mem=mem, timeout=timeout, collect=False,
                    keep_out=True)
    finally:
        if cfgpath:
            os.unlink(cfgpath)
    res = {"accepted": True, "states": r.distinct, "generated": r.generated, "wall": r.wall, "events": len(owner),
           "fail": None}
    if r.error and "postcondition" not in (r.error or "").lower():
        os.unlink(path)
        raise CheckError("trace validation with AsCore_Trace failed to run: %s" % r.error)
    if r.violation is None and r.error is None:
        os.unlink(path)
        return res
    m = re.search(r'<<"REACHED", (\d+)>>', r.out)
    if not m:
        os.unlink(path)
        raise CheckError("AsCore_Trace: cannot locate rejection: %s" % r.out[-800:])
    consumed = int(m.group(1)) - 1
    if consumed >= len(owner):
        os.unlink(path)
        raise CheckError("AsCore_Trace rejected but consumed everything")
    res["accepted"] = False
    res["fail"], res["fail_index"] = owner[consumed]
    if block > 1:
        os.unlink(path)
        one = _validate([frags[res["fail"]]], mem=mem, timeout=timeout, block=1)
        if one["accepted"]:
            raise CheckError("AsCore_Trace: execution %s rejected with Block = %d, accepted with Block = 1"
                             % (frags[res["fail"]].get("name"), block))
        res["fail_index"], res["fail_event"] = one["fail_index"], one.get("fail_event")
        res["wall"] += one["wall"]
        return res
    with open(path) as f:
        for i, line in enumerate(f):
            if i == consumed:
                res["fail_event"] = json.loads(line)
                break
    os.unlink(path)
    return res


def _diagnose(frag, fail_index):
    """which claim rejects?  Re-validate the single execution with one claim switched off AT THE REJECTED EVENT
    (line fail_index + 2 of the trace file: 1-based, behind the RESET); TLC decides."""
    for c in CLAIMS:
        r = _validate([frag], off=(c,), at=fail_index + 2, mem="3g", timeout=300)
        if r["accepted"] or (r["fail_index"] is not None and r["fail_index"] > fail_index):
            return c
    return None


def _partition(frags, k):
    parts = [[] for _ in range(k)]
    load = [0] * k
    for fr in sorted(frags, key=lambda x: -x["n"]):
        i = load.index(min(load))
        parts[i].append(fr)
        load[i] += fr["n"]
    return [p for p in parts if p]


PART_BYTES = 60 * 10 ** 6      # JSON text per TLC run (TLC holds the whole deserialised trace: ~ 5 GB heap at 150 MB)


def _size(fr):
    return len(fr["text"]) if "text" in fr else os.path.getsize(fr["path"])


def validate_parts(frags, jvms):
    """several TLC processes side by side (at most `jvms` at a time, every run bounded in size); no reporting (may
    run in a helper thread)"""
    nparts = max(jvms, -(-sum(_size(fr) for fr in frags) // PART_BYTES))
    parts = _partition(frags, nparts)
    with cf.ThreadPoolExecutor(max_workers=jvms or 1) as ex:
        results = list(ex.map(_validate, parts))
    return parts, results


def validate_all(rep, frags, label, jvms, done=None):
    """-> list of (frag, result) for rejected partitions (first rejection of each partition)"""
    parts, results = done if done is not None else validate_parts(frags, jvms)
    rejected = []
    tot = {"events": 0, "states": 0, "generated": 0, "wall": 0.0}
    for part, r in zip(parts, results):
        tot["events"] += r["events"]
        tot["states"] += r["states"]
        tot["generated"] += r["generated"]
        tot["wall"] = max(tot["wall"], r["wall"])
        if not r["accepted"]:
            rejected.append((part[r["fail"]], r))
    rep.cov["states"] += tot["states"]
    rep.cov["transitions"] += tot["generated"]
    rep.traces(len(frags))
    return rejected, tot


def report_rejection(rep, label, frag, r):
    claim = None
    ev = r.get("fail_event") or {}
    if ev.get("a") == "PASS":
        claim = "PassBoundaryResetsEverything"
    elif r["fail_index"] is not None and r["fail_index"] >= 0:
        claim = _diagnose(frag, r["fail_index"])
    short = {k: v for k, v in ev.items() if k not in ("recs",)}
    what = "%s %s: event %s rejected by AsCore_Trace (claim: %s): %s" % (
        label, frag["name"], r["fail_index"], claim or "a machine step / PostOK", json.dumps(short)[:400])
    if claim in DEFINITE:
        files = {"a.asm": frag["src"]} if "src" in frag else None
        rep.violation("%s - %s" % (DEFINITE[claim], what), case={"test": frag["name"], "event": short, "claim": claim},
                      files=files, key={"kind": "ascore", "claim": claim, "test": frag["name"]})
    else:
        rep.drift(what)
    return claim


# ----------------------------------------------------------------------------------------------------------------
# generated programs (AsCore_Gen): the golden programs contain no unexpected error, no construct left open
# ----------------------------------------------------------------------------------------------------------------
def render(prog):
    """abstract source lines [k, a, id] of AsCore_MC -> Z80 source text; data bytes = number of the source line"""
    out = []
    for st in prog:
        k, a, i = st["k"], st["a"], st["id"]
        if k == "EMIT":
            out.append("\tdb\t" + ",".join([str(i)] * a))
        elif k == "LAB":
            out.append("L%d:\tdb\t%d" % (i, i))
        elif k == "BAD":
            out.append("\tbogus")
        elif k == "UERR":
            out.append('\terror\t"x"')
        elif k == "UWARN":
            out.append('\twarning\t"x"')
        elif k == "IF":
            out.append("\tif\t%d" % a)
        elif k in ("ELSE", "ENDIF", "DEPHASE", "SAVE", "RESTORE", "ENDM", "EXITM"):
            out.append("\t" + k.lower())
        elif k in ("ORG", "PHASE", "REPT"):
            out.append("\t%s\t%d" % (k.lower(), a))
        elif k == "MACRO":
            out.append("mm\tmacro")
        elif k == "CALL":
            out.append("\tmm")
        elif k == "LBX":
            out.append("LX:\tdb\t%d" % i)
        elif k == "EQU":
            out.append("CX\tequ\t%d" % a)
        elif k == "SET":
            out.append("VX\tset\t%d" % a)
        elif k == "SETC":
            out.append("CX\tset\t%d" % a)
        elif k == "USE":
            out.append("\tdb\tVX")
        elif k == "SECTION":
            out.append("\tsection\tS1")
        elif k == "ENDSECTION":
            out.append("\tendsection" + ("" if a == 0 else "\tS%d" % a))
        elif k == "PUBLIC":
            out.append("\tpublic\tLX")
        elif k in ("PUSHV", "POPV"):
            out.append("\t%s\t,VX" % k.lower())
        elif k == "ENUM":
            out.append("\tenum\tEA,EB=5,EC")
        elif k == "NEXTENUM":
            out.append("\tnextenum\tED,EE")
        elif k == "EXPECT":
            out.append("\texpect\t" + {1: "1200", 2: "1200,1450", 3: "1200,1200", 4: "2130,1200", 5: "1200,2130"}[a])
        elif k in ("ENDEXPECT", "END"):
            out.append("\t" + k.lower())
        elif k in ("IFDEF", "IFNDEF"):
            out.append("\t%s\tCX" % k.lower())
        else:
            raise CheckError("AsCore_Gen printed an unknown statement %r" % (st,))
    return "\n".join(out) + "\n"


def gen_models(tier):
    """TLC side of the generated part (may run in a helper thread): -> (cfgs, flat, macro family, directed, symbol
    family, simulation); two chains of TLC runs side by side"""
    cfg = "AsCore_Gen.cfg" if tier == "quick" else "AsCore_Gen4.cfg"
    cfgm = "AsCore_GenM.cfg" if tier == "quick" else "AsCore_GenM4.cfg"
    cfgs = "AsCore_GenS.cfg" if tier == "quick" else "AsCore_GenS4.cfg"
    cfgx = "AsCore_GenX.cfg" if tier == "quick" else "AsCore_GenX4.cfg"
    nsim = 32 if tier == "quick" else 800       # (the simulator evaluates EVERY successor of a state to pick one: 40
                                                # statements per step in the family "all")

    def chain1():
        mc = tlc.run("AsCore_Gen", cfg, workers=4, timeout=1500, mem="6g")
        mcm = tlc.run("AsCore_Gen", cfgm, workers=4, timeout=1500, mem="6g")
        return mc, mcm

    def chain2():
        mcs = tlc.run("AsCore_Gen", cfgs, workers=4, timeout=1500, mem="6g")
        mcd = tlc.run("AsCore_Gen", "AsCore_GenD.cfg", workers=1, timeout=600, mem="2g")
        sim = tlc.run("AsCore_Gen", "AsCore_Sim.cfg", workers=2 if tier == "quick" else 4, simulate=nsim, depth=70,
                      timeout=2400, mem="4g")
        return mcs, mcd, sim
    def chain3():
        return tlc.run("AsCore_Gen", cfgx, workers=2 if tier == "quick" else 4, timeout=1500, mem="4g")
    with cf.ThreadPoolExecutor(max_workers=3) as ex:
        f1, f2, f3 = ex.submit(chain1), ex.submit(chain2), ex.submit(chain3)
        mc, mcm = f1.result()
        mcx = f3.result()
        mcs, mcd, sim = f2.result()
    return (cfg, cfgm, cfgs, cfgx), mc, mcm, mcd, mcs, sim, mcx


def _restore_twice_in_body(prog):
    """classification for known_findings (C12-variable-local-in-expansion): two RESTORE lines directly inside one
    MACRO / REPT body of the source text"""
    counts = []
    for st in prog:
        if st["k"] in ("MACRO", "REPT"):
            counts.append(0)
        elif st["k"] == "ENDM" and counts:
            counts.pop()
        elif st["k"] == "RESTORE" and counts:
            counts[-1] += 1
            if counts[-1] >= 2:
                return True
    return False


def generated(rep, bld, tier, models=None):
    """(M)+(G)+(V) on the bounded family of AsCore_MC: TLC checks the forward model against StmtSucc and exports every
    complete behaviour with the outcome it predicts; the programs are rendered, assembled with hooks, the outcome
    is compared and the recorded executions are validated by AsCore_Trace like the golden ones."""
    (cfg, cfgm, cfgs, cfgx), mc, mcm, mcd, mcs, sim, mcx = models if models is not None else gen_models(tier)
    for what, r in (("AsCore_Gen(%s)" % cfg, mc), ("AsCore_Gen(%s)" % cfgm, mcm), ("AsCore_Gen(AsCore_GenD.cfg)", mcd),
                    ("AsCore_Gen(%s)" % cfgs, mcs), ("AsCore_Gen(%s)" % cfgx, mcx), ("AsCore_Gen simulate", sim)):
        tlc.must(r, what)
        if r.violation:
            raise CheckError("the composed design violates its own invariants (%s): %s" % (what, r.violation[:600]))
    rep.model("AsCore_Gen(%s)" % cfg, mc)
    rep.model("AsCore_Gen(%s)" % cfgm, mcm)
    rep.model("AsCore_Gen(%s)" % cfgs, mcs)
    rep.model("AsCore_Gen(%s)" % cfgx, mcx)
    behs = [b for (tag, b) in mc.printed if tag == "BEH"]
    behm = [b for (tag, b) in mcm.printed if tag == "BEH"]
    behsy = [b for (tag, b) in mcs.printed if tag == "BEH"]
    behx = [b for (tag, b) in mcx.printed if tag == "BEH"]     # EXPECT family
    nall = len(behs) + len(behm) + len(behsy) + len(behx) + len(mcd.printed)
    if tier == "quick":
        # flat family: every program of up to 2 lines, a seeded fifth of the 3-line programs; macro family: a seeded
        # 40 % (thorough: one line more each; flat: all up to 3 lines + a seeded 35 % of the 4-line programs, macro: all)
        r = rng("ascore-gen")
        behs = [b for b in behs if len(b["prog"]) <= 2 or r.random() < 0.2]
        behm = [b for b in behm if r.random() < 0.4]
        behx = [b for b in behx if len(b["prog"]) <= 2 or r.random() < 0.2]        # (EXPECT family: the same)
        behsy = [b for b in behsy if len(b["prog"]) <= 2 or r.random() < 0.25]     # symbol family: a seeded quarter of
    else:                                                                          # the 3-line programs (thorough: all
        r = rng("ascore-gen")                                                      # up to 3 lines, 15 % of the 4-line)
        behs = [b for b in behs if len(b["prog"]) <= 3 or r.random() < 0.35]
        behsy = [b for b in behsy if len(b["prog"]) <= 3 or r.random() < 0.15]
        behx = [b for b in behx if len(b["prog"]) <= 3 or r.random() < 0.12]
    behs += behm + behsy + behx + [b for (tag, b) in mcd.printed if tag == "BEH"]   # + the directed programs (regression seeds)
    seen = set(json.dumps(b["prog"]) for b in behs)
    for (tag, b) in sim.printed:
        key = json.dumps(b["prog"])
        if tag == "BEH" and key not in seen:
            seen.add(key)
            behs.append(b)
    srcs = [render(b["prog"]) for b in behs]
    outdir = tempfile.mkdtemp(prefix="ascoregen-", dir=scratch())
    per = max(1, min(200, len(srcs) // (NCPU * 4) or 1))
    chunks = [list(enumerate(srcs))[i:i + per] for i in range(0, len(srcs), per)]
    with Phase("composed: replay %d generated programs" % len(srcs)):
        with cf.ProcessPoolExecutor(max_workers=NCPU) as ex:
            res = [o for part in ex.map(_program_job, [(bld.dir, bld.hooks, bld.flavour, c, outdir) for c in chunks])
                   for o in part]
    frags = []
    nbad = 0
    for o in res:
        b, src = behs[o["idx"]], srcs[o["idx"]]
        rep.evaluated()
        rep.distinct("ascore:" + src, any(st["k"] not in ("EMIT", "LAB", "LBX") for st in b["prog"]))
        key = {"kind": "ascore-gen", "restore_twice_in_body": _restore_twice_in_body(b["prog"])}
        if o["timeout"] or o["sig"] is not None or o["rc"] not in (0, 2):
            rep.violation("assembler did not end normally (rc=%s signal=%s) on a program of the composed model"
                          % (o["rc"], o["sig"]), case=b["prog"], files={"a.asm": src}, key=key)
            nbad += 1
            continue
        clean = b["errs"] == 0
        if (o["rc"] == 0) != clean:
            rep.violation("composed model predicts %d error(s), the assembler ended with status %s (%s errors)"
                          % (b["errs"], o["rc"], o["errs"]), case=b["prog"], files={"a.asm": src}, key=key)
            nbad += 1
        elif clean and o["image"] != b["image"]:
            rep.violation("code file differs from the stream the composed model predicts: expected %s, file has %s"
                          % (b["image"][:12], (o["image"] or [])[:12]), case=b["prog"], files={"a.asm": src}, key=key)
            nbad += 1
        elif o["errs"] is not None and (o["errs"], o["warns"]) != (b["errs"], b["warns"]):
            rep.drift("generated program%s: model predicts %d errors / %d warnings, asl counted %s / %s: %r"
                      % (" (known: C12-variable-local-in-expansion)" if key["restore_twice_in_body"] else "",
                         b["errs"], b["warns"], o["errs"], o["warns"], src))
            nbad += 1
        if o["events"] is not None:
            frags.append({"name": "gen#%d" % o["idx"], "text": o["events"], "n": o["n"], "src": src})
    jvms = max(1, min(4, NCPU // 4)) if tier == "quick" else max(1, min(4, NCPU // 2))
    with Phase("composed validation of %d generated executions" % len(frags)):
        rejected, tot = validate_all(rep, frags, "generated program", jvms)
    rep.part("AsCore_Gen(replay)", programs=len(srcs), complete_behaviours_of_the_model=nall,
             outcome_mismatches=nbad,
             events=tot["events"], accepted=not rejected, tlc_wall_s=tot["wall"])
    if behs:
        rep.sample({"ascore_program": behs[-1]["prog"], "rendered": srcs[-1],
                    "predicted": {k: behs[-1][k] for k in ("errs", "warns", "image")}})
    for frag, r in rejected:
        report_rejection(rep, "generated program", frag, r)


# ----------------------------------------------------------------------------------------------------------------
def run(rep, bld, tier):
    if not bld.hooks:
        return
    t0 = time.time()
    helper = cf.ThreadPoolExecutor(max_workers=2)
    fmodels = helper.submit(gen_models, tier)          # TLC on the bounded model runs beside the corpus work
    outdir = tempfile.mkdtemp(prefix="ascore-", dir=scratch())
    tests = aslrun.corpus()
    jobs = [(bld.dir, bld.hooks, bld.flavour, t, outdir) for t in tests]
    with Phase("composed: assemble + regroup %d golden programs" % len(tests)):
        with cf.ProcessPoolExecutor(max_workers=NCPU) as ex:
            res = list(ex.map(_corpus_job, jobs, chunksize=2))
    frags = [x for x in res if "path" in x]
    skipped = {x["name"]: x["skip"] for x in res if "skip" in x}
    classes = {}
    for x in frags:
        for k, v in x["classes"].items():
            classes[k] = classes.get(k, 0) + v
    jvms = max(1, min(4, NCPU // 2))
    t1 = time.time()
    fcorpus = helper.submit(validate_parts, frags, jvms)   # ... and the corpus validation beside the generated part
    try:
        generated(rep, bld, tier, models=fmodels.result())
    finally:
        done = fcorpus.result()
        helper.shutdown()
    rejected, tot = validate_all(rep, frags, "golden test", jvms, done=done)
    log("[phase] composed validation (AsCore_Trace, %d events, %d TLC processes): %.1fs (overlapped)"
        % (tot["events"], jvms, tot["wall"]))
    total = (classes.get("named", 0) + classes.get("generic", 0)) or 1
    per_machine = {k.split(":", 1)[1]: round(v / total, 4) for k, v in classes.items() if k.startswith("machine:")}
    rep.part("AsCore_Trace(corpus)", events=tot["events"], executions=len(frags), accepted=not rejected,
             wall_s=round(time.time() - t0, 1), tlc_wall_s=tot["wall"], statements=total,
             statements_by_class={k: v for k, v in sorted(classes.items()) if not k.startswith("machine:")
                                  and not k.startswith("generic-op:") and k not in ("named", "generic")},
             share_handled_by_a_named_action=round(classes.get("named", 0) / total, 4),
             share_generic_rule=round(classes.get("generic", 0) / total, 4),
             share_per_machine=per_machine, skipped=skipped,
             generic_rule_histogram=dict(sorted(((k.split(":", 1)[1], v) for k, v in classes.items()
                                                 if k.startswith("generic-op:")), key=lambda kv: -kv[1])[:15]))
    for frag, r in rejected:
        report_rejection(rep, "golden test", frag, r)
