"""C17 extension: PER-PASS STATE of the program under the report options (spec/PassReports.tla, PassReports_MC.tla).

Why: the option matrix of C17 never met a source whose CODE depends on what one pass leaves to the next.  as.c AssembleFile() cleans up between two passes, and some of these clean-ups are guarded by a
report option (`if (MakeCrossList) ClearCrossList();`, `if (MakeUseList) ...`, `if (DebugMode != DebugNone) ...`).  A
change that moved ClearDefineList() under the -C guard passed the check (and the 201 golden tests): no source of the
matrix needed two passes AND gave a `#define` name a second meaning, so "-C never alters the code file" was never tried
on a program whose code can see what the previous pass left behind.

Dimension (all of it, bounded): component of per-pass state x position of the reader relative to the writer x number
of passes (1, 2, 3) x the report options.
  settings the source can read (MODES; a Probe lays down bytes showing the value, a Set alters it):
      radix outradix relaxed enumconf listing                           (AssembleFile_InitPass / InitPass)
      charset codepage                                                  (ClearCodepages)
      used                                                              (IFUSED; ResetSymbolDefines)
      define defsym                                                     (ClearDefineList; #undef + #define again,
                                                                         a symbol name that is #defined later)
  components only report writers read (TOUCH; a Touch writes an entry when its option is on, fixed bytes):
      cross (-C) usage (-u) lineinfo addrrange secusage (-g) include (-I) macpro (-P) macdef (-M) page (-L) share (-c/-p/-a)
  Fwd  = `dw` of a label at the end of the source (second pass); Fwd3 = a 6502 `lda` whose operand turns out to be
  absolute only in pass 2, so every label behind it moves and a third pass is needed.
(M) PassReports_MC over the table of the pinned tree (which clean-up is guarded by which option, which component is
    recorded under which option): CodeOK - the readings of the last pass are the declarative ones (function of the
    statements in front of the probe) under every subset of the 8 options (quick: none / one / all); ReportsOK - a report component holds the entries of one
    pass; GuardsOK - settings are cleaned unconditionally, report components under exactly their recording option.
    PassReports_MC_dev.cfg (ClearDefineList under -C) and _dev2.cfg (ClearCrossList under -u) must be refuted by TLC.
(G) Emit prints every generated program with the reading expected at every probe: quick 280 programs (every setting:
    the bodies p, pp, ps, sp, psp with 1 / 2 / 3 passes; every component alone with 1 / 2 / 3 passes; every (setting,
    component) pair as p t s t p with 2 passes), thorough 4 330 (all bodies of <= 3 Probe / Set; the pairs with 1 / 2 / 3
    passes; all sequences of <= 3 statements over Probe / Set of one setting, Touch of one component, Fwd, Fwd3 anywhere; two
    settings in bodies of <= 2).  This file renders them for the Z80 (tables below; include files beside the source) and
    hands them to checks/c17.py as an additional SOURCE FAMILY of the option matrix: program number n runs plain, under
    Rotation(n) (a 1-wise cover of the pairwise sample: every value of every report option) and under AllOn, so the
    family as a whole meets the entire pairwise sample many times over (2 460 / about 39 000 runs).
Verdict-bearing (C17): the code file under every vector is byte-identical to the plain run's (the existing comparison
of c17.py; key mechanism=passstate).  Against the bytes TLC expects (image): a plain run that differs is C08's business
(settings across passes) and recorded as SPEC-DRIFT here; a vector run that differs while the plain run agrees is
already a code difference.  On the unchanged tree all 4 330 programs assemble to the expected bytes with the expected
number of passes, with and without -L -C -u -s -I -g MAP -P -M -c.
Not covered: programs of more than 6 statements, more than three passes, per-pass state of other targets' InitPass
procedures (ASSUME, bank registers, SUPMODE, PADDING ...), settings without an effect on Z80 code (MACEXP, NESTMAX),
the CONTENT of the reports (ReportsOK is model-level only; C19 reads listings).  Seen on the way, not C17: the
statement NESTMAX does not update the predefined symbol NESTMAX (manual: "dynamic"); DOTTEDSTRUCTS defines an
undocumented symbol of its name that is unknown before the first statement and survives into the next pass.
Mutations tried on scratch copies (quick tier of C17, all compile, each reported as VIOLATION, exit 1): the seeded change
- ClearDefineList() only under `if (MakeCrossList)` (passes the 201 golden tests; 150 violations on the define / defsym
programs with 2 and 3 passes, culprit C); AssembleFile_InitPass resetting RadixBase only without -u (53, culprit u);
ResetSymbolDefines keeping the `used` flags under -C (64, culprit C; the latter two not run against the golden tests).
"""
import threading

from vlib import codefile, tlc
from vlib.common import CheckError, Phase

# mode -> (header lines, setting statement(s), probe statement(s), bytes under default, bytes under altered); {i} = position
MODES = {
    "radix": ([], ["\tradix 16"], ["\tdb 10"], [10], [16]),
    "outradix": ([], ["\toutradix 2"], ['\tdb "\\{5}"'], [0x35], [0x31, 0x30, 0x31]),
    "relaxed": ([], ["\trelaxed on"], ["\tdb RELAXED"], [0], [1]),
    "enumconf": ([], ["\tenumconf 2"], ["\tenum na{i},nb{i}", "\tdb nb{i}"], [1], [2]),
    "listing": ([], ["\tlisting off"], ["\tdb LISTON"], [1], [0]),
    "charset": ([], ["\tcharset 'a',1"], ["\tdb 'a'"], [0x61], [1]),
    "codepage": ([], ["\tcodepage alt{i}", "\tcharset 'b',2"], ["\tdb 'b'"], [0x62], [2]),
    "used": (["SYM\tequ 7"], ["\tdb SYM"], ["\tifused SYM", "\tdb 1", "\telseif", "\tdb 0", "\tendif"], [0], [1]),
    "define": (["#define FOO 1"], ["#undef FOO", "#define FOO 2"], ["\tdb FOO"], [1], [2]),
    "defsym": (["BAR\tequ 1"], ["#define BAR 2"], ["\tdb BAR"], [1], [2]),
}
SET_AGAIN = {"defsym": ["#undef BAR", "#define BAR 2"]}     # a second Set of the mode in one program (a repeated #define is an error)
SET_BYTES = {"used": [7]}
# component -> (statement lines, reserved bytes in front, bytes laid down)
TOUCH = {
    "cross": (["TX{i}\tequ 5", "\tdb TX{i}"], 0, [5]),
    "usage": (["\tds 2", "\tdb 0aah"], 2, [0xaa]),
    "lineinfo": (["\tnop"], 0, [0]),
    "addrrange": (['\tinclude "pa.inc"'], 0, [9]),
    "secusage": (["\tsection sc{i}", "ls{i}:\tdb 3", "\tendsection"], 0, [3]),
    "include": (['\tinclude "pi.inc"'], 0, [4]),
    "macpro": (["mp{i}\tmacro x", "\tdb x", "\tendm", "\tmp{i} 6"], 0, [6]),
    "macdef": (["md{i}\tmacro {EXPORT},x", "\tdb x+1", "\tendm", "\tmd{i} 6"], 0, [7]),
    "page": (["\tpage 5", "\tnewpage", "\ttitle \"t{i}\"", "\tdb 8"], 0, [8]),
    "share": (["SH{i}\tequ 2", "\tshared SH{i}", "\tdb SH{i}"], 0, [2]),
}
INCLUDES = {"pa.inc": "\tdb 9\n", "pi.inc": '\tinclude "pj.inc"\n', "pj.inc": "\tdb 4\n"}
FAR = 0x300         # where the operand of Fwd3 lives: not on the zero page the first pass guesses


def render(prog, exp):
    """-> (source text, expected image = the data bytes of the code file in order)"""
    hdr = ["\tcpu z80"]
    for m in sorted({s["m"] for s in prog if s["k"] in ("probe", "set")}):
        hdr += MODES[m][0]
    body, image, pc, fwd_at = [], [], 0, []
    for i, s in enumerate(prog, 1):
        if s["k"] == "fwd":
            body.append("\tdw fwd")
            fwd_at.append(len(image))
            image += [None, None]
            pc += 2
        elif s["k"] == "fwd3":
            body += ["\tcpu 6502", "\tlda far", "\tcpu z80"]
            image += [0xad, FAR & 255, FAR >> 8]
            pc += 3
        elif s["k"] == "set":
            again = s["m"] in SET_AGAIN and any(x["k"] == "set" and x["m"] == s["m"] for x in prog[:i - 1])
            body += [l.replace("{i}", str(i)) for l in (SET_AGAIN[s["m"]] if again else MODES[s["m"]][1])]
            image += SET_BYTES.get(s["m"], [])
            pc += len(SET_BYTES.get(s["m"], []))
        elif s["k"] == "touch":
            lines, gap, data = TOUCH[s["m"]]
            body += [l.replace("{i}", str(i)) for l in lines]
            image += data
            pc += gap + len(data)
        else:
            data = MODES[s["m"]][3 if exp[i - 1] == "d" else 4]
            body += [l.replace("{i}", str(i)) for l in MODES[s["m"]][2]]
            image += data
            pc += len(data)
    for a in fwd_at:
        image[a], image[a + 1] = pc & 255, pc >> 8
    return "\n".join(hdr + body + ["fwd:", "\torg 0%xh" % FAR, "far:"]) + "\n", image


def start(tier):
    """TLC beside the other phases of C17: model check + deviations refuted + the programs"""
    box = {"tier": tier}

    def work():
        try:
            for cfg in ("PassReports_MC_dev.cfg", "PassReports_MC_dev2.cfg"):
                r = tlc.run("PassReports_MC", cfg, workers=1, timeout=900, mem="2g", tags=())
                if r.error and not r.violation:
                    raise CheckError("PassReports_MC(%s): %s" % (cfg, r.error[:400]))
                if not r.violation:
                    raise CheckError("PassReports_MC(%s): the deviating clean-up table is not refuted" % cfg)
            cfg = "PassReports_MC.cfg" if tier == "quick" else "PassReports_MC_full.cfg"
            r = tlc.must(tlc.run("PassReports_MC", cfg, workers=2, timeout=2400, mem="3g", tags=("PR",)), "PassReports_MC(%s)" % cfg)
            if r.violation:
                raise CheckError("PassReports_MC(%s): the specification violates its own invariant: %s" % (cfg, r.violation[:400]))
            box["mc"] = (cfg, r)
        except BaseException as ex:       # re-raised in sources()
            box["error"] = ex

    box["thread"] = threading.Thread(target=work, daemon=True)
    box["thread"].start()
    return box


def sources(rep, box):
    """the generated programs as sources of C17's option matrix"""
    with Phase("waiting for PassReports_MC"):
        box["thread"].join()
    if "error" in box:
        raise box["error"]
    cfg, r = box["mc"]
    rep.model("PassReports_MC(%s)" % cfg, r)
    cases = sorted((o for (tag, o) in r.printed if tag == "PR"), key=lambda o: repr(o["prog"]))
    if not cases:
        raise CheckError("PassReports_MC printed no programs")
    out = []
    for n, o in enumerate(cases):
        text, image = render(o["prog"], o["exp"])
        out.append({"name": "pr%04d" % n, "copy": None, "text": text, "files": dict(INCLUDES), "flags": [],
                    "stringify": "\\{" in text, "mechanism": "passstate", "passprog": o, "image": image, "decoys": ()})
    box["n"] = len(out)
    return out


def brief(o):
    return " ".join(s["k"] + ("(" + s["m"] + ")" if s["m"] else "") for s in o["prog"])


def image_of(pbytes):
    if pbytes is None:
        return None
    got = []
    for rec in codefile.parse(pbytes).data_records():
        got += list(rec.data)
    return got


def finish(rep, box, observed):
    """observed: [(src, tag, vec, job, res)] of the plain runs; a plain run whose code is not what TLC expects is not a
    C17 matter (nothing was compared with another option set) - named, without verdict"""
    bad = {}
    for (s, tag, vec, job, res) in observed:
        got = image_of(res.files.get(job["_p"]))
        if res.rc != 0 or got != s["image"]:
            modes = "+".join(sorted({x["m"] for x in s["passprog"]["prog"] if x["k"] in ("probe", "set")})) or "-"
            bad.setdefault(modes, []).append((s, res.rc, got))
    for modes, lst in sorted(bad.items()):
        s, rc, got = lst[0]
        rep.drift("per-pass state [%s]: %d program(s) assemble to other bytes than PassReports expects even without report "
                  "options, e.g. `%s` (%d passes): rc=%s expected %s, code file has %s (settings across passes are C08's "
                  "property)" % (modes, len(lst), brief(s["passprog"]), s["passprog"]["passes"], rc, s["image"], got))
    rep.part("PassReports(programs)", programs=box.get("n", 0), plain_mismatches=sum(len(v) for v in bad.values()),
             modes=sorted(MODES), components=sorted(TOUCH))
