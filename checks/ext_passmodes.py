"""C08 extension: settings across PASSES (spec/PassModes.tla, PassModes_MC.tla).

A constant, a predefined symbol or a conditional reads the setting the statements IN FRONT of it established - never
one made behind it, however many passes the forward references of the program make necessary.  Found when a seeding
agent noticed that RADIX 16 at the end of a source turned `db 10` at its top into 16 in pass 2 (RadixBase/OutRadixBase
were initialised per file, not per pass; repaired in /repo: known_findings/C08.json C08-radix-leaks-into-next-pass).

(M) PassModes_MC: every program of <= 4 statements over Probe(m) / Set(m) / Fwd: the readings of the last pass equal
    the declarative ones (function of the statements in front of the probe); PassModes_MC_dev.cfg (modes not reset at a
    pass start) must be refuted by TLC.
(G) PassModes_Gen prints every program of <= 3 statements (thorough: of the MODES table below, quick: a seed-chosen
    share) with the reading expected at every probe; each is rendered for the Z80 with the table below (setting
    statement, probe, bytes laid down under the default and under the altered setting) and assembled by the real asl;
    the code file must hold exactly the expected bytes.  Fwd = `dw` of a label at the end of the source (a second
    pass), so the same program is observed with one and with two passes.
Verdict-bearing: all probes are expression values (C08: the value of a constant in the radix in force, of a character
constant through the active map, of the predefined symbols that mirror a setting) or the branch IFUSED takes.
"""
from vlib import aslrun, tlc
from vlib.common import CheckError, Phase, rng

# mode -> (header lines, setting statement(s), probe statement(s) with {i} = position, bytes under default, altered)
MODES = {
    "radix": ([], ["\tradix 16"], ["\tdb 10"], [10], [16]),
    "outradix": ([], ["\toutradix 2"], ['\tdb "\\{5}"'], [0x35], [0x31, 0x30, 0x31]),
    "relaxed": ([], ["\trelaxed on"], ["\tdb RELAXED"], [0], [1]),
    "charset": ([], ["\tcharset 'a',1"], ["\tdb 'a'"], [0x61], [1]),
    "listing": ([], ["\tlisting off"], ["\tdb LISTON"], [1], [0]),
    "used": (["SYM\tequ 7"], ["\tdb SYM"], ["\tifused SYM", "\tdb 1", "\telseif", "\tdb 0", "\tendif"], [0], [1]),
    "define": (["#define FOO 1"], ["#undef FOO", "#define FOO 2"], ["\tdb FOO"], [1], [2]),
    # the probe symbols must not be words of radix-16 digits (ea2, eb2): under `radix 16` such a word is read as a
    # constant - the known finding C08-radix-letter-leading-constant, judged where it belongs (c08_lit), not here
    "enumconf": ([], ["\tenumconf 2"], ["\tenum pa{i},pb{i}", "\tdb pb{i}"], [1], [2]),
}
SET_BYTES = {"used": [7]}
QUICK_MODES = ["radix", "outradix", "relaxed", "charset", "used", "define"]


def render(prog, exp):
    hdr = ["\tcpu z80"]
    for m in sorted({s["m"] for s in prog if s["m"]}):
        hdr += MODES[m][0]
    body, image, fwd_at = [], [], []
    for i, s in enumerate(prog, 1):
        if s["k"] == "fwd":
            body.append("\tdw fwd")
            fwd_at.append(len(image))
            image += [None, None]
        elif s["k"] == "set":
            body += MODES[s["m"]][1]
            image += SET_BYTES.get(s["m"], [])
        else:
            body += [l.replace("{i}", str(i)) for l in MODES[s["m"]][2]]
            image += MODES[s["m"]][3 if exp[i - 1] == "d" else 4]
    end = len(image)
    for a in fwd_at:
        image[a], image[a + 1] = end & 255, end >> 8
    return "\n".join(hdr + body + ["fwd:"]) + "\n", image


def run(rep, bld, tier, only=None):
    """only: restrict the replay to these modes (shapes over a single mode); used by C12 for the IFUSED ladder"""
    for cfg, must_fail in (("PassModes_MC.cfg", False), ("PassModes_MC_dev.cfg", True)):
        r = tlc.run("PassModes_MC", cfg, workers=2, timeout=600, mem="2g")
        if r.error and not r.violation:
            raise CheckError("PassModes_MC(%s): %s" % (cfg, r.error[:400]))
        if bool(r.violation) != must_fail:
            raise CheckError("PassModes_MC(%s): %s" % (cfg, "the deviation is not refuted" if must_fail
                                                        else "the specification violates its invariant: " + r.violation[:400]))
        if not must_fail:
            rep.model("PassModes_MC(%s)" % cfg, r)
    g = tlc.must(tlc.run("PassModes_MC", "PassModes_Gen.cfg", workers=1, timeout=600, mem="2g", tags=("PM",)), "PassModes_Gen")
    rep.model("PassModes_Gen", g)
    shapes = [o for (tag, o) in g.printed if tag == "PM"]
    # the generator works on three abstract mode names; every shape is instantiated with the real modes
    names = sorted({s["m"] for o in shapes for s in o["prog"] if s["m"]})
    modes = QUICK_MODES if tier == "quick" else list(MODES)
    if only:
        modes = list(only)
        shapes = [o for o in shapes if len({s["m"] for s in o["prog"] if s["m"]}) <= len(modes)]
    r = rng("c08/passmodes")
    jobs = []
    for o in shapes:
        if not any(s["k"] == "probe" for s in o["prog"]):
            continue
        for rep_i in range(1 if tier == "quick" else 6):
            used_names = sorted({s["m"] for s in o["prog"] if s["m"]})
            pick = r.sample(modes, len(used_names))
            ren = dict(zip(used_names, pick))
            prog = [dict(s, m=ren.get(s["m"], "")) for s in o["prog"]]
            src, image = render(prog, o["exp"])
            jobs.append((prog, o, src, image))
    with Phase("passmodes: assemble %d programs" % len(jobs)):
        results = aslrun.assemble_many(bld, [{"sources": {"a.asm": src}, "opts": ["-q"]} for (_, _, src, _) in jobs])
    bad = 0
    for (prog, o, src, image), res in zip(jobs, results):
        rep.evaluated()
        rep.distinct(src, True)
        if res.timeout or res.sig is not None or res.rc != 0:
            bad += 1
            rep.violation("program with setting statements rejected or abnormal end (rc=%s sig=%s): %s"
                          % (res.rc, res.sig, (res.out + res.err)[-300:]), case=prog, files={"a.asm": src},
                          key={"kind": "passmodes-rejected", "modes": sorted({s["m"] for s in prog if s["m"]})})
            continue
        got = []
        for rec in res.parsed().data_records():
            got += list(rec.data)
        if got != image:
            bad += 1
            leak = sorted({s["m"] for s in prog if s["k"] == "probe"})
            rep.violation("a statement reads a setting made BEHIND it (%s pass%s): expected bytes %s, code file has %s"
                          % ("two" if o["two"] else "one", "es" if o["two"] else "", image, got), case=prog,
                          files={"a.asm": src}, key={"kind": "passmodes", "modes": leak, "two": o["two"]})
    rep.traces(len(jobs))
    rep.part("PassModes(replay)", programs=len(jobs), shapes=len(shapes), modes=modes, mismatches=bad)
    if jobs:
        rep.sample({"program": jobs[-1][0], "rendered": jobs[-1][2], "expected_bytes": jobs[-1][3]})
