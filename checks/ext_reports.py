"""C19 extension (phase "reports"): the report sections behind the source listing.

Specification: spec/ListingReports.tla - chunks.c (AddChunk / DeleteChunk / PrintChunk), AddReference /
PrintCrossList, the section list and its indented print, WrLstLine / NewPage, each next to the declarative reading
of the manual (occupied addresses as maximal areas, "used more than once", uses per symbol / file / line with
counts, nesting by indentation, page length / width contract).
(M) ListingReports_MC, one bounded machine per report (CONSTANT Mode):
    usage  two segments, emit / reserve 1..2 (thorough 1..3) units, ORG anywhere in 0..6 (backwards: overlaps),
           SEGMENT, RetractWords; <= 5 (thorough 6) statements; granularity 1 (thorough 2).  The same statements
           drive CodeWriter.tla (buffer 3, record limit 4 cells), the file is closed and parsed in every state.
           Invariants: UsageSaysOccupied (printed items = maximal areas of the occupied addresses), WarnIffIntersect
           (AddChunk's result <=> the statement meets an occupied address, CODE only), ChunksApart, NoStaleIndex,
           UsageEqualsImage (addresses of the parsed code file = emitted addresses, inside the usage list).
    xref   2 symbols x 3 files x 2 lines, <= 6 look-ups / file changes / pass changes: CrossSaysUses, UnusedNotListed
    sect   SECTION X|Y nested <= 3 deep, two passes: SectionListSaysNesting, MomIsPath
    page   PAGE L in {2,3} x W in {0,3,4}, lines of 0/3/4/5/9 columns, chapter breaks: LinesFit, PagesFull
    deviations of the code exhibited by configurations that TLC must refute (ListingReports_MC_dev_*.cfg):
    dev_retract (DeleteChunk: CutBottomNoOp, SplitLosesTop), dev_page0 (WidthNeedsLength); thorough also the
    same models with the proposed repairs (usage_fixed, page_fixed) which hold.
(G) ListingReports_Gen: TLC-simulated programs (10 statements behind a fixed prelude: data with 1..3 arguments out
    of A B FWD P(section-local) / numbers, reserve, ORG 0/2/5/9/16, segment switch, SECTION X|Y two deep, macro
    call, function call, two include files one of which includes the other and calls the macro) with the reports
    the specification expects; rendered for 8051 (granularity 1, XDATA) and 320C25 (granularity 2, DATA); each
    assembled twice: `page 0` (reports tokenised) and `page L,W` with L in {0,5,7,60}, W in {0,40,72} (layout).
(V) ListingReports_Trace: hook records of all passes (file, line, split+stmt, sym, ref, emit, diag) replayed through
    the same operators; then every tokenised report item of the same run is judged by TLC: USE / USEEND / IMAGE
    (parsed code file), XSYM / XREF / XEND, SECTS, MACROS, FUNCS, REGS, INCS, PAGES, and per statement
    warning 90 <=> overlap.  Runs: the generated programs (strict) and seed-chosen golden sources with
    -L -C -u -s -I and -listradix 16/8/10/2 (quick 40 sources <= 4000 hook records, thorough all <= 120000).
Verdict-bearing (rep.violation): TLC verdict "bad" (see the Judge* operators: code not listed as occupied, listed but
not occupied, image outside the list, warning without overlap / overlap without warning, fewer uses listed than
look-ups, definition site / value wrong, used symbol missing, unused symbol listed (strict), section tree wrong,
macro / function / register names wrong, line wider than the page width, page longer than the page length,
early form feed (strict)), and for generated programs a difference between the tokenised report and the
expectation TLC exported.  SPEC-DRIFT: order of sections / files / definition site of re-SET symbols, reserved
areas missing from the usage list, the include nesting list (not documented at all).  "extra" uses (IFDEF,
DEFINED(), register symbols: AddReference without the hooked look-up) are counted in the evidence only.
Not judged: BITDATA usage (DissectBit syntax), segments with addresses >= 2^31, structure / DEFINE / code page
lists, the alphabetical order, TITLE lines, PAGE changed in the middle of a golden source.

Findings (proposed_fixes/C19-usage-retract.*, C19-page-width-without-length.*; known_findings/C19-reports.json):
  * RetractWords after a backward ORG: DeleteChunk cuts nothing at the lower end of an area (spurious warning 90)
    and drops the upper part when it has to split one (occupied address missing from the usage list);
  * PAGE 0,w: WrLstLine ignores the width when the length is 0.
Findings, continued: * CP-1600 `ZERO n` is booked twice (codecp1600.c DecodeRES + WriteCode): warning 90 without an
    overlap, t_cp1600 line 106 (proposed_fixes/C19-cp1600-zero-double-bookkeeping.*).
On a copy of /repo with the three diffs the phase reports nothing (no KNOWN-FINDING line, no violation).
Mutations of the real code tried (scratch copies /tmp/glist-m*, every one keeps the 201 ctest tests green):
  m1 asmpars.c AddReference: no OccNum++ for a repeated line            caught: XREF "fewer uses listed than look-ups"
  m2 chunks.c SetChunk: merged length one short                         caught: USE "code not listed", IMAGE, STMT
                                                                         warning without overlap; two golden sources
                                                                         never finish PrintChunk ("no finite listing")
  m3 asmsub.c WrLstLine: form feed at PageLength + 1                     caught: PAGES "more lines than the page length"
  m4 asmpars.c PrintSectionList_PSection: children not indented deeper   caught: SECTS "not the tree of the sections"
  m5 asmsub.c BookKeeping: Warn only if ActPC != SegCode                 caught: STMT "occupied already, no warning 90"
  m6 asmpars.c AddReference: file number of the main file               caught: XREF "more uses listed", XSYM / XEND
                                                                         "a use ... is not listed"
  m8 chunks.c Overlap(): touching areas are not merged                   SPEC-DRIFT only ("adjacent areas are not merged":
                                                                         the manual does not demand maximal areas)
  m7 asmsub.c PrintChunk: NewMin = end + 1                               equivalent (areas in the list never touch)
./check C19 --selftest: one token of a report / one hook record changed -> TLC rejects (10 variants).
"""
import concurrent.futures as cf
import os
import shutil
import tempfile

from vlib import aslrun, codefile, listing, listreports, tlc
from vlib.common import CheckError, NCPU, Phase, log, rng, scratch
from vlib.common import run as sh_run

DIALECTS = {
    "8051": {"cpu": "8051", "data": "db", "res": "ds", "seg2": "xdata", "seg2no": 4},
    "320c25": {"cpu": "320C25", "data": "word", "res": "res", "seg2": "data", "seg2no": 2},
}
EVENTS = "file,stmt,emit,sym,ref,diag,line,split"
MC_QUICK = ["all"]
MC_THOROUGH = ["all6", "fixed"]
MC_DEV = {"dev_retract": "DeleteChunk (CutBottomNoOp / SplitLosesTop)", "dev_page0": "WrLstLine (WidthNeedsLength)"}


# ---------------------------------------------------------------------------------------------------
# rendering of a ListingReports_Gen behaviour
# ---------------------------------------------------------------------------------------------------
def render(beh, dname, paged):
    d = DIALECTS[dname]
    lit = {"#": "7"}
    pg = "\tpage\t0" if not paged else ("\tpage\t%d" % beh["L"] + (",%d" % beh["W"] if beh["W"] else ""))
    lines = [pg, "\tcpu\t%s" % d["cpu"], "A\tequ\t1", "B\tequ\t2", "M1\tmacro\tx", "\t%s\tx,A" % d["data"], "\tendm",
             "F1\tfunction\tx,x+B"]
    seg = 1
    for st in beh["prog"]:
        k = st["k"]
        if k == "data":
            lines.append("\t%s\t%s" % (d["data"], ",".join(lit.get(a, a) for a in st["args"])))
        elif k == "res":
            lines.append("\t%s\t%d" % (d["res"], st["n"]))
        elif k == "org":
            lines.append("\torg\t%d" % st["a"])
        elif k == "seg":
            seg = 3 - seg
            lines.append("\tsegment\t%s" % ("code" if seg == 1 else d["seg2"]))
        elif k == "sect":
            lines.append("\tsection\t%s" % st["name"])
            lines.append("P\tequ\t7")
        elif k == "ends":
            lines.append("\tendsection")
        elif k == "call":
            lines.append("\tM1\t%s" % lit.get(st["a"], st["a"]))
        elif k == "func":
            lines.append("\t%s\tF1(1)" % d["data"])
        elif k == "inc":
            lines.append("\tinclude\t\"i%d.inc\"" % st["f"])
    lines += ["\tendsection"] * beh["closes"]
    lines += ["\tsegment\tcode", "FWD:\t%s\t0" % d["data"], "\tend"]
    assert len(lines) == beh["lastline"] + 1, (len(lines), beh["lastline"])
    return {"a.asm": "\n".join(lines) + "\n",
            "i1.inc": "; i1\n\t%s\tA,B\n" % d["data"],
            "i2.inc": "\t%s\tB\n\tinclude\t\"i1.inc\"\n\tM1\tB\n" % d["data"]}


# ---------------------------------------------------------------------------------------------------
# assembler runs
# ---------------------------------------------------------------------------------------------------
def _run_corpus(args):
    (bdir, hooks, flavour, t, opts) = args
    from vlib.build import Build
    b = Build(bdir, flavour, hooks)
    name, tdir, asm, flags = t
    d = tempfile.mkdtemp(prefix="r-", dir=scratch())
    try:
        for f in os.listdir(tdir):
            try:
                if f == name + ".asm":
                    shutil.copy(os.path.join(tdir, f), os.path.join(d, f))
                else:
                    os.symlink(os.path.join(tdir, f), os.path.join(d, f))
            except OSError:
                pass
        e = b.env(None)
        tr = os.path.join(d, "trace.ndjson")
        e["ASL_VERIF_TRACE"] = tr
        e["ASL_VERIF_EVENTS"] = EVENTS
        pfile = os.path.join(d, name + ".p")
        cmd = [b.tool("asl")] + [f for f in flags if f not in ("-c", "-p", "-a")] + ["-q", "-i", aslrun.INCLUDE] + opts + \
              [os.path.join(d, name + ".asm"), "-o", pfile, "-olist", os.path.join(d, name + ".lst")]
        # a listing that does not come to an end must not take the check down: 100 MB file size limit, 60 s
        rc, o, er, to = sh_run(["sh", "-c", "ulimit -f 200000; exec \"$@\"", "sh"] + cmd, cwd=d, env=e, timeout=60)
        if to or (rc is not None and rc < 0):
            return {"rc": rc, "msg": "no finite listing (timeout=%s, rc=%s)" % (to, rc), "p": None, "lst": None, "ev": None,
                    "big": set(), "n": -2}
        lst = None
        lp = os.path.join(d, name + ".lst")
        if os.path.exists(lp):
            with open(lp, "rb") as fh:
                lst = fh.read()
        pb = None
        if os.path.exists(pfile):
            with open(pfile, "rb") as fh:
                pb = fh.read()
        if os.path.exists(tr) and os.path.getsize(tr) > 40000000:
            return {"rc": rc, "msg": "trace too large", "p": None, "lst": None, "ev": None, "big": set(), "n": -1}
        trace = aslrun.read_trace(tr) if os.path.exists(tr) else None
        ev, big = listreports.trace_events(trace, "-U" in flags) if trace is not None else (None, set())
        return {"rc": rc, "msg": (o + er)[-300:], "p": pb, "lst": lst, "ev": ev, "big": big, "n": len(trace or [])}
    finally:
        shutil.rmtree(d, ignore_errors=True)


def case_events(ev, lst, pbytes, radix, big, strict, L, W, cs=False, pages_only=False):
    """all events of one run: CASE, the replay of the hook records, the tokenised reports"""
    pr = codefile.parse(pbytes) if pbytes is not None else None
    text = lst.decode("latin-1")
    if pages_only:
        _body, pages = listreports.split_pages(text)
        return [{"a": "CASE", "strict": strict, "L": L, "W": W}, listreports.page_event(pages)], {}, pages
    rev, st, pages = listreports.report_events(text, radix, pr, big, cs, want_pages=(L >= 0))
    return [{"a": "CASE", "strict": strict, "L": L, "W": W}] + ev + rev, st, pages


def judge(cases, timeout=1500):
    flat = []
    owner = []
    for ci, ev in enumerate(cases):
        flat.append({"a": "RESET"})
        owner.append((ci, -1))
        for k, e in enumerate(ev):
            flat.append(e)
            owner.append((ci, k))
    fd, path = tempfile.mkstemp(prefix="rtrace-", suffix=".ndjson", dir=scratch())
    os.close(fd)
    tlc.write_ndjson(flat, path)
    r = tlc.run("ListingReports_Trace", "ListingReports_Trace.cfg", workers=1, env={"TRACE": path}, mem="10g",
                timeout=timeout, keep_out=True)
    os.unlink(path)
    if r.error or r.violation:
        raise CheckError("ListingReports_Trace did not run to the end: %s" % ((r.error or r.violation or "") + r.out[-1500:])[:2500])
    outs = [v for (tag, v) in r.printed if tag == "OUT"]
    if not outs or outs[-1].get("n") != len(flat):
        raise CheckError("ListingReports_Trace printed no verdict: %s" % r.out[-800:])
    res = {}
    for b in outs[-1]["bad"]:
        ci, k = owner[b["l"] - 1]
        res.setdefault(ci, []).append((k, b["sev"], b["why"]))
    return res, r


# ---------------------------------------------------------------------------------------------------
# expectation of the generator against the tokenised reports (generated programs only)
# ---------------------------------------------------------------------------------------------------
def expectation_diffs(beh, dname, text, trace):
    """-> list of (severity, text)"""
    d = DIALECTS[dname]
    exp = beh["exp"]
    out = []
    body, _ = listreports.split_pages(text)
    secs = listreports.report_sections(body)
    use = {}
    cross = []
    sects = []
    incs = None
    for (k, arg, lines) in secs:
        if k == "use":
            use[arg] = listreports.parse_usage(lines)
        elif k == "cross":
            cross = listreports.parse_cross(lines, 16)
        elif k == "sects":
            sects = listreports.parse_indented(lines)
        elif k == "incs":
            incs = [[i // 5, listreports.norm_file(n)] for (i, n) in listreports.parse_indented(lines)]
    for s, segname in ((0, "CODE"), (1, d["seg2"].upper())):
        want = [list(x) for x in exp["usage"][s]]
        got = use.get(segname) or []
        if want != got:
            merged = []
            for a, b in got:
                if merged and a == merged[-1][1] + 1:
                    merged[-1][1] = b
                else:
                    merged.append([a, b])
            out.append(("drift" if merged == want else "bad", "usage list %s: listing %s, specification %s" % (segname, got, want)))
    fp = listing.final_pass(trace)
    got_w = sorted((listreports.norm_file(e["pos"].split("(")[0]), int(e["pos"].split("(")[1].split(")")[0]))
                   for e in trace if e["e"] == "diag" and e.get("num") == 90 and e.get("pass") == fp)
    want_w = sorted((w["f"], w["l"]) for w in exp["warns"])
    if got_w != want_w:
        out.append(("bad", "overlap warnings at %s, specification %s" % (got_w, want_w)))
    gx = {(s["name"], s["sect"]): s for s in cross}
    wx = {(s["name"], s["sect"]): s for s in exp["xref"]}
    if set(gx) != set(wx):
        out.append(("bad", "cross reference lists symbols %s, specification %s" % (sorted(gx), sorted(wx))))
    for key in sorted(set(gx) & set(wx)):
        g, w = gx[key], wx[key]
        gg = [(f, [(ln, n) for (ln, n) in es]) for (f, es) in g["groups"]]
        ww = [(x["file"], [(e["l"], e["n"]) for e in x["es"]]) for x in w["groups"]]
        if sorted((f, sorted(es)) for (f, es) in gg) != sorted((f, sorted(es)) for (f, es) in ww):
            out.append(("bad", "cross reference of %s%s: listing %s, specification %s" % (key[0], "[%s]" % key[1] if key[1] else "", gg, ww)))
        elif gg != ww:
            out.append(("drift", "cross reference of %s: order differs: %s / %s" % (key[0], gg, ww)))
        if (g["dfile"], g["dline"]) != (w["def"]["f"], w["def"]["l"]):
            out.append(("bad", "cross reference of %s: defined at %s:%d, specification %s:%d" % (
                key[0], g["dfile"], g["dline"], w["def"]["f"], w["def"]["l"])))
    ws = [[x["ind"], x["name"]] for x in exp["sects"]]
    if sorted(map(tuple, sects)) != sorted(map(tuple, ws)):
        out.append(("bad", "section list %s, specification %s" % (sects, ws)))
    elif sects != ws:
        out.append(("drift", "section list order %s, specification %s" % (sects, ws)))
    wi = [[0, "a.asm"]] + [[x["d"], x["f"]] for x in exp["incs"]]
    if incs is not None and incs != wi:
        out.append(("drift", "include nesting list %s, specification %s" % (incs, wi)))
    return out


# ---------------------------------------------------------------------------------------------------
def _mc(cfgname):
    return cfgname, tlc.run("ListingReports_MC", "ListingReports_MC_%s.cfg" % cfgname, workers=2, timeout=1500, mem="4g",
                            collect=False)


def run_phase(rep, bld, tier):
    quick = tier == "quick"
    rep.assumptions += ["reports extension: tokenisers of vlib/listreports.py are trusted; hook records (look-ups in LookupSymbol, emissions in WriteBytes, diag 90) are the witness, the parsed code file ties them to the file (IMAGE)",
                        "reports extension: uses that bypass LookupSymbol (IFDEF, DEFINED(), register symbols) are counted as `extra`, not judged; BITDATA usage, segments >= 2^31, golden sources with a PAGE statement other than `page 0` (layout) are not judged"]
    # (M) -------------------------------------------------------------------------------------------
    cfgs = (MC_QUICK if quick else MC_THOROUGH) + list(MC_DEV)
    with Phase("TLC ListingReports_MC %s" % ",".join(cfgs)):
        with cf.ThreadPoolExecutor(max_workers=3) as ex:
            res = list(ex.map(_mc, cfgs))
    for name, r in res:
        tlc.must(r, "ListingReports_MC(%s)" % name)
        if name in MC_DEV:
            if not r.violation:
                rep.drift("ListingReports_MC_%s: the deviation %s is not exhibited any more (model out of date)" % (name, MC_DEV[name]))
        elif r.violation:
            raise CheckError("ListingReports_MC(%s): the report model violates its invariants: %s" % (name, r.violation[:600]))
        rep.model("ListingReports_MC(%s)" % name, r)
    # (G) -------------------------------------------------------------------------------------------
    nsim = 24 if quick else 400
    gen = tlc.must(tlc.run("ListingReports_Gen", "ListingReports_Gen.cfg", workers=1, simulate=nsim, depth=12, timeout=600,
                           mem="4g"), "ListingReports_Gen")
    rep.model("ListingReports_Gen", gen)
    behs = []
    seen = set()
    for (tag, bh) in gen.printed:
        if tag == "BEH":
            k = repr(bh)
            if k not in seen:
                seen.add(k)
                behs.append(bh)
    if not behs:
        raise CheckError("ListingReports_Gen exported no program")
    jobs = []
    gmeta = []
    for bi, bh in enumerate(behs):
        dn = list(DIALECTS)[bi % 2]
        for paged in (False, True):
            if paged and bh["L"] == 60 and bh["W"] == 0 and bi % 3:
                continue
            jobs.append({"sources": render(bh, dn, paged), "opts": ["-q", "-L", "-C", "-u", "-s", "-I"], "events": EVENTS,
                         "want": ["a.lst"]})
            gmeta.append({"kind": "generated", "beh": bh, "dialect": dn, "paged": paged, "name": "gen%d/%s/%s" % (
                bi, dn, "paged" if paged else "page0")})
    with Phase("assemble %d runs of %d generated programs" % (len(jobs), len(behs))):
        gres = aslrun.assemble_many(bld, jobs)
    # corpus ------------------------------------------------------------------------------------------
    r = rng("c19-reports")
    tests = aslrun.corpus()
    r.shuffle(tests)
    if quick:
        tests = [t for t in tests if os.path.getsize(t[2]) < 40000]
    limit = 4000 if quick else 120000
    want = 40 if quick else len(tests)
    radices = [16, 16, 8, 10, 2]
    cjobs = []
    for ti, t in enumerate(tests[:(90 if quick else len(tests))]):
        radix = radices[ti % 5]
        cjobs.append((bld.dir, bld.hooks, bld.flavour, t, ["-L", "-C", "-u", "-s", "-I", "-listradix", str(radix)]))
    with Phase("assemble %d golden sources with -L -C -u -s -I" % len(cjobs)):
        with cf.ProcessPoolExecutor(max_workers=NCPU) as ex:
            cres = list(ex.map(_run_corpus, cjobs, chunksize=1))
    # events ------------------------------------------------------------------------------------------
    cases = []
    infos = []
    stats = {"use": 0, "xsym": 0, "xref": 0, "sects": 0, "macros": 0, "funcs": 0, "regs": 0, "incs": 0, "skipped_segments": 0,
             "hook_records": 0, "too_large": 0, "pages": 0}
    with Phase("tokenise reports, build events"):
        for m, res in zip(gmeta, gres):
            rep.evaluated()
            if res.rc != 0 or res.trace is None or "a.lst" not in res.files:
                rep.drift("reports: generated program %s not accepted by the assembler (rc=%s): %s" % (m["name"], res.rc, (res.out + res.err)[-200:]))
                continue
            bh = m["beh"]
            if m["paged"]:
                ev, st, pages = case_events(None, res.files["a.lst"], None, 16, set(), True, bh["L"], bh["W"], pages_only=True)
            else:
                tev, big = listreports.trace_events(res.trace)
                ev, st, pages = case_events(tev, res.files["a.lst"], res.p, 16, big, True, -1, -1)
                stats["hook_records"] += len(res.trace)
            m["pages"] = len(pages)
            for k2, v in st.items():
                stats[k2] = stats.get(k2, 0) + v
            stats["pages"] += len(pages)
            cases.append(ev)
            infos.append((m, res))
            rep.distinct(("reports", m["name"]), True)
        taken = 0
        for (j, res) in zip(cjobs, cres):
            t = j[3]
            radix = int(j[4][-1])
            if taken >= want:
                break
            if res["ev"] is None or res["lst"] is None or res["rc"] != 0:
                if res["n"] == -2:
                    rep.violation("reports: golden source %s with -L -C -u -s -I: %s" % (t[0], res["msg"]),
                                  case={"name": t[0], "kind": "corpus"}, key={"event": "RUN", "deviation": "none", "phase": "reports"})
                elif res["n"] == -1:
                    stats["too_large"] += 1
                else:
                    rep.drift("reports: golden source %s with report options: rc=%s %s" % (t[0], res["rc"], res["msg"][-160:]))
                continue
            if res["n"] > limit:
                stats["too_large"] += 1
                continue
            rep.evaluated()
            text = res["lst"].decode("latin-1")
            pagestmt = _page_statements(text)
            L, W = (60, 0) if not pagestmt else ((0, 0) if pagestmt == ["0"] else (-1, -1))
            ev, st, pages = case_events(res["ev"], res["lst"], res["p"], radix, res["big"], False, L, W, "-U" in t[3])
            for k2, v in st.items():
                stats[k2] = stats.get(k2, 0) + v
            stats["hook_records"] += res["n"]
            stats["pages"] += len(pages)
            cases.append(ev)
            infos.append(({"kind": "corpus", "name": t[0], "radix": radix, "paged": False}, res))
            rep.distinct(("reports", t[0], radix), st["xref"] + st["use"] > 0)
            taken += 1
    with Phase("ListingReports_Trace: %d runs, %d events" % (len(cases), sum(map(len, cases)))):
        verdicts, tr = judge(cases)
    rep.cov["states"] += tr.distinct
    rep.cov["transitions"] += tr.generated
    rep.traces(len(cases))
    # classification -------------------------------------------------------------------------------------
    extra = 0
    nbad = 0
    for ci in sorted(verdicts):
        m, res = infos[ci]
        shown = {}
        for (k, sev, why) in verdicts[ci]:
            e = cases[ci][k]
            if sev == "extra":
                extra += 1
                continue
            cls = (e["a"], why)
            if shown.get(cls, 0) >= 1:
                continue
            shown[cls] = 1
            what = "reports: %s: %s  [event %s]" % (m["name"], why, _short(e))
            if sev == "drift":
                rep.drift(what)
                continue
            nbad += 1
            _violation(rep, m, res, what, e, why, cases[ci])
    # expectation of the generator ---------------------------------------------------------------------------
    nexp = 0
    for (m, res) in infos:
        if m["kind"] != "generated" or m["paged"]:
            continue
        nexp += 1
        for (sev, txt) in expectation_diffs(m["beh"], m["dialect"], res.files["a.lst"].decode("latin-1"), res.trace)[:4]:
            what = "reports: %s: %s" % (m["name"], txt)
            if sev == "drift":
                rep.drift(what)
            else:
                _violation(rep, m, res, what, {"a": "EXPECT"}, txt.split(":")[0], None)
    for (m, res) in infos[:1] + infos[-1:]:
        rep.sample({"reports_run": m["name"], "kind": m["kind"], "pages": m.get("pages")})
    rep.part("reports_extension", runs=len(cases), generated_programs=len(behs), expectation_compared=nexp,
             corpus=sum(1 for (m, _) in infos if m["kind"] == "corpus"), rejected_items=nbad,
             uses_listed_without_hooked_lookup=extra, **stats)


def _page_statements(text):
    """arguments of the PAGE / PAGESIZE statements a listing shows (tokenising the source column)"""
    import re
    out = []
    for ln in text.split("\n"):
        m = re.match(r"^.{0,12}\d+/\s*[0-9A-Za-z]+ [:R] .{20}\s*(?:\S+:?\s+)?page(?:size)?\s+([^;\s]+)", ln, re.I)
        if m and not re.match(r"^.{0,12}\d+/\s*[0-9A-Za-z]+ [:R] .{20}\S*\s*;", ln):
            out.append(m.group(1))
    return out


def _short(e):
    s = {k: v for k, v in e.items() if k not in ("pages",)}
    t = repr(s)
    return t if len(t) < 300 else t[:300] + "..."


def _violation(rep, m, res, what, e, why, case_ev):
    files = {}
    dev = "none"
    if e["a"] in ("USE", "IMAGE", "USEEND", "STMT") and case_ev:
        seg = e.get("seg", 1)
        if any(x["a"] == "CHUNK" and x["kind"] == "retract" and (x["seg"] == seg or e["a"] == "USEEND") for x in case_ev):
            dev = "usage-retract"                 # a list of areas that went through chunks.c DeleteChunk
    if e["a"] == "STMT" and e.get("opname") == "ZERO" and why.startswith("warning 90") and dev == "none":
        dev = "cp1600-zero-double-bookkeeping"
    if m["kind"] == "generated":
        for fn, txt in render(m["beh"], m["dialect"], m["paged"]).items():
            files[fn] = txt
        files["a.lst"] = res.files.get("a.lst", b"")
        if e["a"] == "PAGES" and m["beh"]["L"] == 0 and m["beh"]["W"] > 0 and "wider than the page width" in why:
            dev = "page-width-without-length"
    else:
        files[m["name"] + ".lst"] = res["lst"] or b""
    rep.violation(what, case={"name": m["name"], "kind": m["kind"], "dialect": m.get("dialect"), "paged": m.get("paged"),
                              "beh": m.get("beh"), "event": e if e["a"] != "PAGES" else {"a": "PAGES"}},
                  files=files, key={"event": e["a"], "deviation": dev, "phase": "reports"})


def run_guarded(rep, bld, tier):
    """called from checks/c19.py main(): the phase must never take the check down with a Python error of its own"""
    run_phase(rep, bld, tier)


run = run_guarded      # the name the growth brief asks for: run(rep, bld, tier)


def replay(path, case):
    """replay of a recorded violation of this phase (called from c19.replay)"""
    from vlib import build
    bld = build.get("hook")
    if case.get("kind") != "generated":
        log("golden source %s: re-run ./check C19 to reproduce" % case.get("name"))
        return 0
    bh = case["beh"]
    res = aslrun.assemble(bld, render(bh, case["dialect"], case["paged"]), opts=["-q", "-L", "-C", "-u", "-s", "-I"],
                          events=EVENTS, want=["a.lst"])
    if case["paged"]:
        ev, _, _ = case_events(None, res.files["a.lst"], None, 16, set(), True, bh["L"], bh["W"], pages_only=True)
    else:
        tev, big = listreports.trace_events(res.trace)
        ev, _, _ = case_events(tev, res.files["a.lst"], res.p, 16, big, True, -1, -1)
    v, _ = judge([ev])
    for (k, sev, why) in v.get(0, []):
        if sev != "extra":
            log("replay: TLC says %s: %s [%s]" % (sev, why, _short(ev[k])))
    if not case["paged"]:
        for (sev, txt) in expectation_diffs(bh, case["dialect"], res.files["a.lst"].decode("latin-1"), res.trace):
            log("replay: expectation %s: %s" % (sev, txt))
    return 0


def selftest():
    """binding demonstration of the reports phase: a run that TLC accepts is rejected after one token of a report
    (or one hook record) is changed"""
    import copy
    from vlib import build
    bld = build.get("hook")
    src = {"a.asm": "\tpage\t0\n\tcpu\t8051\nA\tequ\t1\n\tsection\tX\nP\tequ\t7\n\tsection\tY\n\tdb\tA,A,P\n\tendsection\n"
                    "\tendsection\n\torg\t1\n\tdb\tA\n\tinclude\t\"i1.inc\"\n\tsegment\txdata\n\tds\t2\n\tend\n",
           "i1.inc": "B\tequ\t2\n\tdb\tA,B\n"}
    r = aslrun.assemble(bld, src, opts=["-q", "-L", "-C", "-u", "-s", "-I"], events=EVENTS, want=["a.lst"])
    tev, big = listreports.trace_events(r.trace)
    ev, _, _ = case_events(tev, r.files["a.lst"], r.p, 16, big, True, 0, 0)
    variants = {"unchanged": ev}

    def first(kind, pred=lambda e: True):
        return next(i for i, e in enumerate(ev) if e["a"] == kind and pred(e))

    def variant(name, kind, change, pred=lambda e: True):
        v = copy.deepcopy(ev)
        change(v[first(kind, pred)])
        variants[name] = v
    variant("cross reference count changed", "XREF", lambda e: e.update(n=e["n"] + 1), lambda e: e["n"] > 1)
    variant("cross reference line changed", "XREF", lambda e: e.update(line=e["line"] + 1))
    variant("definition line changed", "XSYM", lambda e: e.update(dline=e["dline"] + 1))
    variant("usage area one address short", "USE", lambda e: e["items"][0].__setitem__(1, e["items"][0][1] - 1))
    variant("usage area one address long", "USE", lambda e: e["items"][-1].__setitem__(1, e["items"][-1][1] + 1))
    variant("overlap warning dropped", "WARN90", lambda e: e.update(a="LINE", d=9))
    variant("section indentation changed", "SECTS", lambda e: e["lines"][1].__setitem__(0, 2))
    variant("look-up record dropped", "REF", lambda e: e.update(a="LINE", d=9))
    variant("function list names another function", "FUNCS", lambda e: e["names"].append("F9"))
    variant("form feed without a page length", "PAGES", lambda e: e["pages"].append({"n": 1, "maxw": 1, "forced": False}) or e["pages"][0].update(forced=False))
    names = list(variants)
    res, _ = judge([variants[n] for n in names])
    ok = True
    for k, n in enumerate(names):
        rej = any(sev == "bad" for (_k, sev, _w) in res.get(k, []))
        log("selftest reports %-36s %s" % (n, "rejected" if rej else "accepted"))
        ok = ok and (rej == (n != "unchanged"))
    log("selftest C19 reports binding: %s" % ("OK" if ok else "FAILED"))
    return ok
