"""C17 extension: the command-line / option layer (cmdarg.c ProcessCMD + the CMD_* callbacks) of asl, p2bin, plist.

Specification: spec/CmdLine.tla (scanner transcribed from cmdarg.c and the callbacks; the manual's grammar Flatten /
Parse / Meaning; the programs behind the option layer), spec/CmdLineCases.tla (occurrence templates x placements),
spec/CmdLine_MC.tla (invariants), spec/CmdLine_Gen.tla (cases).  This file renders the cases TLC prints into real
invocations, tokenises what the programs did and compares it with what TLC printed as expectation.

(M) TLC, every sequence of <= MaxOcc occurrence templates in every placement (command line with the file arguments
    first or last, environment variable, key file named on the command line / in the variable / written on one line
    with blanks, with tabs, with a tab and then blanks, split environment | command line, one occurrence moved into
    a key file in place):
      ScanIsFold         the scanner with the named deviations repaired = Meaning(Parse(Flatten(I))) on every input
                         the manual decides
      DeviationsAreNamed wherever the scanner as coded differs from that, a named deviation is live
      PlaceNeverMatters  the scanner as coded gives equal results for placements that parse to the same occurrences
      EnvBeforeArgv, ErrorIsFinal
    quick: asl 42 templates <= 2 (1807 sequences), p2bin 21 templates <= 2 (463), plist 10 templates <= 2 (111);
    thorough: asl all <= 3 (75 895) and the 14-template core alphabet <= 4 (41 371), p2bin <= 3 (9 724), plist <= 4.
(G) every printed case is run (quick about 8 500, thorough about 70 000 distinct invocations): asl on a probe source
    that shows the effective configuration in its code file (header byte = -cpu, symbols A / a / B read back as data =
    -D and -U, which inc.inc was found = -i, file names = -o, a second source = file arguments), in its outputs
    (listing file / console listing = -L / -l, debug file = -g, banner = -q, extended messages = -x) and in its exit
    status; p2bin and plist against a reference run of the configuration TLC expects, spelled canonically on a plain
    command line.  Besides the template sequences: no parameter at all (help text, status 1, ASCMD not even read) and
    256 / 257 / 300 / 1500 parameters (size of the Unprocessed[] mask).
    Verdict-bearing (rep.violation): the components of the expectation that doc/ states and where the manual's
    reading agrees with the scanner as coded (`bearing`, computed by TLC): exit status 4 (asl) / 1 (utilities) and
    nothing produced after a parameter error, status 1 without parameters, names and contents of the code files,
    listing / debug file / banner / message level; the C17 clause itself: all inputs of one klass (the same
    occurrences given on the command line, in ASCMD, in a key file, mixed) leave byte-identical code files; and no
    abnormal end.  Everything else the model predicts (include search order, what happens where the manual is
    silent: combined letters with arguments, +l of p2bin, -q -q +q, a second -D of a name, file names in P2BINCMD,
    tabs in key files) is compared too, a difference is a SPEC-DRIFT.
Named deviations of the pinned code (CmdLine.tla AllDevs; the model of "the code as it is" contains exactly those not
recorded as fixed in known_findings/*.json, field "dev"): QuietCounter, DefFirstWins, ToolFilesArgv, BlankBeforeTab
(manual silent: recorded, no verdict), and three findings with proposed fixes and known_findings/C17-cmdline.json:
  IncRemoveWipes  `+i <dir>` empties the whole include path (asmsub.c RemoveIncludeList, swapped strmaxcpy arguments)
  EmptyNumberOK   p2bin -l / -e, p2hex -R / -e take a missing argument as 0 and drop the next parameter
  MaskOverflow    more than 256 parameters overflow Unprocessed[] (p2bin: SIGSEGV with 1500 parameters)
`VERIF_CMDLINE_FIXED=<dev,...>` treats deviations as repaired (for trying a proposed fix on a scratch copy).
Bounds: <= 2 occurrences (quick) / <= 3 (thorough, core alphabet) replayed; argument texts are the handful of
CmdLine.tla (DefParts, PathParts, KnownCPU ...); one key file level (nesting is an error by the manual); no `/`
switches (SLASHARGS is a DOS build option), no wildcards (the shell expands them on Unix), no interactive prompt
(stdin is empty), plist without parameters (it prompts) not modelled.
The key files of (G) are written in ONE physical shape (every line + LF); the shape of the file itself (lines, line ends, last
line without line end, blanks, empty / remark lines, ^Z, 255 characters) is the extension checks/ext_keyfile.py +
spec/KeyFile*.tla, whose cases join the replay, the judgement and the klass comparison of run() below.
Mutations of the real code tried (scratch copies, all pass the 201 golden tests; `VERIF_REPO=... ./check C17` exits
1 for each): cmdarg.c ProcessCMD scanning argv before the environment variable; DecodeLine not skipping the consumed
argument (z++ dropped); as.c ParamError leaving with exit(2); ProcessParam not blanking a look-ahead that starts with
`+`; asmsub.c AddToOutList putting new names in front.
"""
import glob
import json
import os
import re

from checks import ext_keyfile
from vlib import cmdrun, codefile, tlc, utilrun
from vlib.common import CheckError, Phase, VERIF, log, subdir

ALLDEVS = ["QuietCounter", "DefFirstWins", "IncRemoveWipes", "ToolFilesArgv", "EmptyNumberOK", "MaskOverflow", "BlankBeforeTab"]
UNDEFINED = 99                        # CmdLine.tla Undefined: out-of-bounds writes, nothing is predicted
PLACE_SENSITIVE = {"ToolFilesArgv", "EmptyNumberOK", "BlankBeforeTab", "MaskOverflow"}   # CmdLine_MC NoFileDev: not covered by PlaceNeverMatters
DEFECTS = {"IncRemoveWipes", "EmptyNumberOK"}          # deviations that contradict the manual (the others: the manual is silent)
INVS = "ScanIsFold DeviationsAreNamed PlaceNeverMatters EnvBeforeArgv ErrorIsFinal"
ENVNAME = {"asl": "ASCMD", "p2bin": "P2BINCMD", "plist": "PLISTCMD"}

PROBE = """\tif\tMOMCPU=425992
emit\tmacro\tv
\tdc.b\tv,v
\tendm
\telseif
emit\tmacro\tv
\tdb\tv,v
\tendm
\tendif
kw\tmacro\tp
\tendm
\temit\t%d
\tifdef\tA
\temit\tA
\telseif
\temit\t0
\tendif
\tifdef\ta
\temit\ta
\telseif
\temit\t0
\tendif
\tifdef\tB
\temit\tB
\telseif
\temit\t0
\tendif
\tifexist\t"inc.inc"
\tinclude\t"inc.inc"
\telseif
\temit\t0
\tendif
\tkw\tp=1,p=2
"""
ASL_FILES = {"s1.asm": PROBE % 101, "s2.asm": PROBE % 102, "p1/inc.inc": "\temit\t11\n", "p2/inc.inc": "\temit\t22\n"}
CPU_OF_HEADER = {0x01: "68008", 0x51: "Z80", 0x31: "8051"}
SRC_OF = {101: "s1", 102: "s2"}
INC_OF = {0: "none", 11: "p1", 22: "p2"}
AMBIGUOUS = 999


def _tool_files():
    d = lambda cpu, start, data: {"k": "D", "cpu": cpu, "seg": 1, "gran": 1, "start": start, "data": data}
    return {"src.p": utilrun.render_file([d(0x51, 0x10, [1, 2, 3, 4]), d(0x31, 0x18, [5, 6])]),
            "src2.p": utilrun.render_file([d(0x51, 0x1C, [7, 8])])}


def repaired():
    """named deviations whose repair is recorded as applied (known_findings/*.json: "status": "fixed", field "dev")"""
    out = {d for d in os.environ.get("VERIF_CMDLINE_FIXED", "").split(",") if d in ALLDEVS}     # for trying a proposed fix
    for path in glob.glob(os.path.join(VERIF, "known_findings", "*.json")):
        try:
            for f in json.load(open(path)).get("findings", []):
                if f.get("status") == "fixed" and f.get("dev") in ALLDEVS:
                    out.add(f["dev"])
        except (OSError, ValueError):
            pass
    return sorted(out)


def _cfg(name, fixed, prog, maxocc, alphabet, thin=None):
    text = ('CONSTANTS Fixed = {%s} Prog = "%s" MaxOcc = %d Alphabet = "%s"%s\nSPECIFICATION SpecMC\nINVARIANTS %s%s\n'
            'CHECK_DEADLOCK FALSE\n' % (", ".join('"%s"' % d for d in fixed), prog, maxocc, alphabet,
                                        "" if thin is None else " Thin = %d" % thin, INVS, "" if thin is None else " Emit"))
    path = os.path.join(subdir("cmdlinecfg"), name)
    with open(path, "w") as f:
        f.write(text)
    return path


# ---- rendering ---------------------------------------------------------------------------------------------------
def make_job(case):
    prog = case["prog"]
    files = dict(ASL_FILES) if prog == "asl" else _tool_files()
    for k, lines in case["keys"].items():
        files[k] = "".join(ln + "\n" for ln in lines)
    for k, chars in case.get("phys", {}).items():          # key files in a physical shape (spec/KeyFile*.tla): byte by byte
        files[k] = ext_keyfile.render(chars)
    env = {}
    if case["env"]:
        env[ENVNAME[prog]] = " ".join(case["env"])
    return {"tool": prog, "files": files, "argv": list(case["argv"]), "env": env, "timeout": 30}


def canonical(prog, exp):
    """the configuration TLC expects, written the plainest way: one occurrence per setting, all on the command line"""
    c = exp["cfg"]
    argv = list(exp["files"])
    if prog == "p2bin":
        argv += ["-l", str(c["fill"])]
        if c["range"] != "auto":
            argv += ["-r", c["range"]]
        if c["cks"]:
            argv.append("-s")
        if c["filt"]:
            argv += ["-f", ",".join(str(x) for x in c["filt"])]
    if c["quiet"]:
        argv.append("-q")
    return argv


# ---- tokenising --------------------------------------------------------------------------------------------------
def observe_asl(res):
    o = {"status": res["rc"], "outs": {}, "junk": []}
    for name, data in res["new"].items():
        if data[:2] != codefile.MAGIC:
            continue
        pr = codefile.parse(data)
        recs = [r for r in pr.data_records() if r.data]
        b = b"".join(bytes(r.data) for r in recs)
        if not pr.well_formed or len(b) != 10 or any(b[i] != b[i + 1] for i in range(0, 10, 2)) or not recs:
            o["junk"].append(name)
            continue
        o["outs"][name] = {"src": SRC_OF.get(b[0], "?%d" % b[0]), "cpu": CPU_OF_HEADER.get(recs[0].cpu, "?%02x" % recs[0].cpu),
                           "A": b[2], "a": b[4], "B": b[6], "inc": INC_OF.get(b[8], "?%d" % b[8])}
    text = res["out"] + res["err"]
    o["banner"] = "Macro Assembler" in res["out"]
    o["list"] = 2 if any(n.endswith(".lst") for n in res["new"]) else 1 if re.search(r"^ AS V.* - Source File ", res["out"], re.M) else 0
    o["x"] = 2 if re.search(r"^> > >\s+kw\s+p=1,p=2\s*$", text, re.M) else 1 if re.search(r"^> > > [Pp]\s*$", text, re.M) else 0
    o["g"] = ("MAP" if any(n.endswith(".map") for n in res["new"]) else "NOICE" if any(n.endswith(".noi") for n in res["new"])
              else "ATMEL" if any(n.endswith(".obj") for n in res["new"]) else "none")
    return o


def expected_outs(exp):
    d = {}
    for e in exp["outs"]:
        name = e["src"] + ".p" if e["name"] == "<default>" else e["name"]
        d[name] = {k: e[k] for k in ("src", "cpu", "A", "a", "B", "inc")}
    return d


def outs_equal(expd, obsd):
    if set(expd) != set(obsd):
        return False
    for n, e in expd.items():
        for k, v in e.items():
            if v != AMBIGUOUS and obsd[n][k] != v:
                return False
    return True


def _files_of(case, res):
    d = {"argv": case["prog"] + " " + " ".join(case["argv"][:300]),            # names read by checks/c17.py replay()
         "env": json.dumps({ENVNAME[case["prog"]]: " ".join(case["env"])} if case["env"] else {}),
         "keys.json": json.dumps(case["keys"]), "stdout.txt": res["out"][-3000:], "stderr.txt": res["err"][-3000:],
         "case.json": json.dumps(_brief(case), sort_keys=True)}
    for k, chars in case.get("phys", {}).items():                 # a key file in a physical shape: its bytes
        d["keyfile." + k] = ext_keyfile.render(chars)
    return d


def _abkey(case):
    return {"kind": "cmdline-abnormal", "prog": case["prog"], "dev": "MaskOverflow" if "MaskOverflow" in case["live"] else "-"}


def _brief(case):
    return case if len(case["argv"]) < 20 else dict(case, argv=case["argv"][:4] + ["..."], klass="...")


def _say(case):
    e = (ENVNAME[case["prog"]] + "='" + " ".join(case["env"]) + "' ") if case["env"] else ""
    k = "".join(" %s=[%s]" % (n, " / ".join(l.replace("\t", "<TAB>") for l in ls)) for n, ls in sorted(case["keys"].items())
                if n != "kd" and n not in case.get("phys", {}))
    k += "".join(" %s=[%s]" % (n, ext_keyfile.show(chars)) for n, chars in sorted(case.get("phys", {}).items()) if n != "kd")
    argv = case["argv"] if len(case["argv"]) < 20 else case["argv"][:4] + ["... (%d parameters)" % len(case["argv"])]
    return "%s%s %s%s" % (e, case["prog"], " ".join(argv), k)


# ---- judging against what TLC printed --------------------------------------------------------------------------
def judge_asl(rep, case, res, st):
    exp, bearing = case["exp"], set(case["bearing"])
    if res["timeout"] or res["sig"] is not None:
        rep.violation("asl ended abnormally (signal %s, timeout %s): %s" % (res["sig"], res["timeout"], _say(case)),
                      case=_brief(case), files=_files_of(case, res), key=_abkey(case))
        return None
    if exp["status"] == UNDEFINED:
        return None
    obs = observe_asl(res)
    diffs = []
    if obs["status"] != exp["status"]:
        diffs.append(("status", "exit status %s, expected %s" % (obs["status"], exp["status"])))
    if exp["status"] in (1, 4) and res["new"]:
        diffs.append(("status", "%s, but files were produced: %s" % ("parameter error" if exp["status"] == 4 else "help only", sorted(res["new"]))))
    if not outs_equal(expected_outs(exp), obs["outs"]) or obs["junk"]:
        diffs.append(("outs", "code files %s (unreadable: %s), expected %s" % (json.dumps(obs["outs"], sort_keys=True), obs["junk"],
                                                                               json.dumps(expected_outs(exp), sort_keys=True))))
    for k in ("banner", "list", "x", "g"):
        if k in exp and obs[k] != exp[k]:
            diffs.append((k, "%s = %s, expected %s" % (k, obs[k], exp[k])))
    for comp, text in diffs:
        what = "command line layer: %s  [%s; deviations live: %s]" % (text, _say(case), ",".join(case["live"]) or "-")
        if comp in bearing:
            rep.violation(what, case=case, files=_files_of(case, res), key={"kind": "cmdline", "prog": "asl", "component": comp})
        else:
            st["drift"] += 1
            if st["drift"] <= 8:
                rep.drift(what)
    # a deviation that contradicts the manual, confirmed by the real program
    if not diffs and not case["open"]:
        for dev in sorted(DEFECTS & set(case["live"])):
            if case["doc"] != exp:
                st["defect"][dev] = st["defect"].get(dev, 0) + 1
                rep.violation("the manual's reading differs from what asl does (deviation %s): %s -> %s, by the manual %s"
                              % (dev, _say(case), json.dumps(expected_outs(exp), sort_keys=True),
                                 json.dumps(expected_outs(case["doc"]), sort_keys=True) if "outs" in case["doc"] else case["doc"]),
                              case=case, files=_files_of(case, res), key={"kind": "cmdline-manual", "dev": dev})
    return obs


def judge_tool(rep, case, res, ref, st):
    prog, exp, bearing = case["prog"], case["exp"], set(case["bearing"])
    if res["timeout"] or res["sig"] is not None:
        rep.violation("%s ended abnormally (signal %s, timeout %s): %s" % (prog, res["sig"], res["timeout"], _say(case)),
                      case=_brief(case), files=_files_of(case, res), key=_abkey(case))
        return
    if exp["status"] == UNDEFINED:
        return
    diffs = []
    if exp["status"] == 1:
        if res["rc"] != 1:
            diffs.append(("status", "exit status %s, expected 1 (error in command line parameters)" % res["rc"]))
        if res["new"] or re.search(r"^\S+\s+[0-9A-F]{8}\s", res["out"], re.M):
            diffs.append(("status", "parameter error, but work was done: files %s" % sorted(res["new"])))
    else:
        comp = "cfg" if "cfg" in bearing and "files" in bearing else "model"
        if res["rc"] != ref["rc"]:
            diffs.append((comp, "exit status %s, the expected configuration (%s) gives %s" % (res["rc"], " ".join(ref["argv"]), ref["rc"])))
        if res["new"] != ref["new"]:
            diffs.append((comp, "produced %s, the expected configuration (%s) produces %s"
                          % ({k: v.hex() for k, v in res["new"].items()}, " ".join(ref["argv"]), {k: v.hex() for k, v in ref["new"].items()})))
        if (prog == "plist" and res["out"] != ref["out"]) or bool(res["out"]) != bool(ref["out"]):
            diffs.append((comp, "output differs from the run of the expected configuration (%s)" % " ".join(ref["argv"])))
    for comp, text in diffs:
        what = "command line layer: %s  [%s; deviations live: %s]" % (text, _say(case), ",".join(case["live"]) or "-")
        if comp in bearing:
            rep.violation(what, case=case, files=_files_of(case, res), key={"kind": "cmdline", "prog": prog, "component": comp})
        else:
            st["drift"] += 1
            if st["drift"] <= 8:
                rep.drift(what)
    if not diffs and not case["open"] and case["doc"] != exp:
        for dev in sorted(DEFECTS & set(case["live"])):
            st["defect"][dev] = st["defect"].get(dev, 0) + 1
            rep.violation("the manual's reading differs from what %s does (deviation %s): %s -> %s, by the manual %s"
                          % (prog, dev, _say(case), json.dumps(exp, sort_keys=True), json.dumps(case["doc"], sort_keys=True)),
                          case=case, files=_files_of(case, res), key={"kind": "cmdline-manual", "dev": dev})


def run(rep, bld, tier):
    fixed = repaired()
    quick = tier == "quick"
    gens = ([("asl", 2, "all", 2), ("p2bin", 2, "all", 3), ("plist", 2, "all", 0)] if quick else
            [("asl", 2, "all", 0), ("asl", 3, "core", 3), ("p2bin", 3, "all", 2), ("plist", 3, "all", 0)])
    mcs = [] if quick else [("asl", 3, "all"), ("asl", 4, "core"), ("plist", 4, "all")]

    def mc(job):
        (prog, n, alpha) = job
        name = "CmdLine_MC(%s,<=%d,%s)" % (prog, n, alpha)
        with Phase("TLC %s" % name):
            r = tlc.must(tlc.run("CmdLine_MC", _cfg("mc_%s_%d_%s.cfg" % (prog, n, alpha), fixed, prog, n, alpha),
                                 workers=4, timeout=2400, mem="6g", collect=False), name)
        return name, r

    import concurrent.futures as cf
    mcpool = cf.ThreadPoolExecutor(max_workers=2)          # the deep model checks run beside generation and replay
    mcfuts = [mcpool.submit(mc, j) for j in mcs] + [mcpool.submit(ext_keyfile.model, j, fixed) for j in ext_keyfile.model_jobs(tier)]
    cases = []

    def gen(job):
        (prog, n, alpha, thin) = job
        name = "CmdLine_Gen(%s,<=%d,%s)" % (prog, n, alpha)
        with Phase("TLC %s" % name):
            r = tlc.must(tlc.run("CmdLine_Gen", _cfg("gen_%s_%d_%s.cfg" % (prog, n, alpha), fixed, prog, n, alpha, thin),
                                 workers=4 if prog == "asl" else 2, timeout=1500, mem="6g", tags=("TR",)), name)
        return name, r

    # extension "physical shape of key files" (checks/ext_keyfile.py, spec/KeyFile*.tla): its cases join the replay, the
    # judgement and the klass comparison below
    kgens = ext_keyfile.jobs(tier)
    with cf.ThreadPoolExecutor(max_workers=4 if quick else 2) as ex:          # the generator runs are independent
        kfuts = [ex.submit(ext_keyfile.generate, j, fixed) for j in kgens]
        done = list(ex.map(gen, gens)) + [f.result() for f in kfuts]
    for name, r in done:
        if r.violation:
            raise CheckError("%s: the option-layer model violates its own invariant: %s" % (name, r.violation[:1200]))
        rep.model(name, r)
        cases += [c for (_, c) in r.printed] if not name.startswith("KeyFile") else ext_keyfile.order([c for (_, c) in r.printed])
    # distinct inputs only (the thinned and the full placements overlap between generator runs)
    seen, uniq = set(), []
    for c in cases:
        k = json.dumps([c["prog"], c["env"], c["argv"], c["keys"], c.get("phys")], sort_keys=True)
        if k not in seen:
            seen.add(k)
            uniq.append(c)
    cases = uniq
    if len(cases) < 100:
        raise CheckError("CmdLine_Gen printed only %d cases" % len(cases))
    # reference runs of the utilities: the expected configuration on a plain command line
    refs = {}
    for c in cases:
        if c["prog"] != "asl" and c["exp"]["status"] == 0:
            a = canonical(c["prog"], c["exp"])
            refs.setdefault((c["prog"], tuple(a)), None)
    refkeys = sorted(refs)
    with Phase("command line layer: %d cases, %d reference runs" % (len(cases), len(refkeys))):
        results = cmdrun.run_many(bld, [make_job(c) for c in cases] +
                                  [{"tool": p, "files": _tool_files(), "argv": list(a), "env": {}, "timeout": 30} for (p, a) in refkeys])
    for k, res in zip(refkeys, results[len(cases):]):
        res["argv"] = list(k[1])
        refs[k] = res
    st = {"drift": 0, "defect": {}}
    klass = {}
    live = {}
    for c, res in zip(cases, results):
        rep.evaluated()
        rep.distinct(json.dumps([c["prog"], c["klass"]], sort_keys=True), True)
        for d in c["live"]:
            live[d] = live.get(d, 0) + 1
        if c["prog"] == "asl":
            obs = judge_asl(rep, c, res, st)
            if obs is not None and not c["open"] and not (PLACE_SENSITIVE & set(c["live"])):
                code = {n: v for n, v in res["new"].items() if v[:2] == codefile.MAGIC}
                klass.setdefault(json.dumps(c["klass"], sort_keys=True), []).append((c, res, code))
        else:
            ref = refs.get((c["prog"], tuple(canonical(c["prog"], c["exp"])))) if c["exp"]["status"] == 0 else None
            judge_tool(rep, c, res, ref, st)
    # C17: the place an option is given never alters the code file
    groups = 0
    for k, members in klass.items():
        if len(members) < 2:
            continue
        groups += 1
        c0, r0, code0 = members[0]
        for (c, r, code) in members[1:]:
            if code != code0 or r["rc"] != r0["rc"]:
                rep.violation("the place an option is given alters the outcome: [%s] -> exit %s, code files %s; [%s] -> exit %s, code files %s"
                              % (_say(c0), r0["rc"], sorted(code0), _say(c), r["rc"], sorted(code)), case={"a": c0, "b": c},
                              files=dict([("a." + n, v) for n, v in _files_of(c0, r0).items()] + [("b." + n, v) for n, v in _files_of(c, r).items()] +
                                         [("argv", _say(c0) + "\n" + _say(c)), ("env", "{}")]),
                              key={"kind": "cmdline-place", "prog": "asl"})
                break
    for f in mcfuts:
        name, r = f.result()
        if r.violation:
            raise CheckError("%s: the option-layer model violates its own invariant: %s" % (name, r.violation[:1200]))
        rep.model(name, r)
    mcpool.shutdown()
    rep.traces(len(cases))
    rep.part("ext_cmdline", cases=len(cases), reference_runs=len(refkeys), klasses_compared=groups, repaired=fixed,
             deviations_live=live, drift=st["drift"], manual_contradicted=st["defect"])
    shaped = [c for c in cases if "phys" in c]
    rep.part("ext_keyfile", shaped_key_files=len(shaped), decorations=len({c["shape"]["deco"] for c in shaped}),
             unterminated_last_line=sum(1 for c in shaped if not c["shape"]["term"]),
             undecided_by_the_manual=sum(1 for c in shaped if c["open"]))
    for c in shaped[7:9]:
        rep.sample({"ext": "keyfile", "prog": c["prog"], "argv": c["argv"], "env": c["env"], "shape": c["shape"],
                    "file": ext_keyfile.show(c["phys"]["k"]), "exp": c["exp"]})
    if st["drift"] > 8:
        rep.drift("command line layer: %d more differences outside what the manual states" % (st["drift"] - 8))
    for c in cases[5:7]:
        rep.sample({"ext": "cmdline", "prog": c["prog"], "argv": c["argv"], "env": c["env"], "keys": c["keys"], "exp": c["exp"]})
    log("[C17/cmdline] %d cases replayed (%d reference runs, %d klasses with several placements), deviations live: %s"
        % (len(cases), len(refkeys), groups, live))
