"""C09 - Data-definition statements lay down exactly the documented bytes.

Specification: spec/DataDef.tla (statement kinds x element types table: DC.B/W/L/Q/C/S/D/X, DB/DW/DD/DQ/DT, BYT/FCB,
ADR/FDB, FCC, BYTE/WORD/LONG of the 16-bit-granular TMS320C2x, packed DB/DN (AVR code segment, z80) and AVR DATA with PACKING; integer range rule -2^(8w-1)..2^(8w)-1; byte order;
strings through the CHARSET table (a function value changed by CHARSET statements: range, single entry, string, reset;
assignments, never compositions), multi-character constants; nested DUP, [n] repeat, `?` reservations; PADDING;
BIGENDIAN), spec/IEEE.tla (half/single/double/extended encoders in integer arithmetic: round-to-nearest-even,
subnormals, overflow), spec/Limb64.tla.

(M) IEEE_MC   : every 12-bit significand x exponents -30..20: the half precision encoder yields a nearest representable
                value, ties to even, infinity exactly from MaxFinite + ulp/2 on (declarative side on 64-bit magnitudes,
                independent of the encoder); single precision at all its rounding boundaries incl. subnormals; double
                and extended layout; the transcription of the pinned Double_2_ieee2 deviates from IEEE only below the
                normal range.  IEEE_Dev.cfg (expected to fail) lets TLC exhibit a witness of that defect.
    DataDef_MC: on every generated case: range rule = the documented interval; bytes decode back to value mod 2^(8w);
                little endian = reversed big endian; length = elements x width through DUP / [n]; reservation emits
                nothing; PADDING pads exactly multi-byte objects at odd addresses; data mixed with `?` is an error; the lazy
                table lookup = the table function; every copy of a repeated string is the string translated exactly once;
                a statement assembled on both sides of CHARSET statements shows both tables.
    Single-quoted strings of EVERY length 0..9 ('', 'A', 'Ab', ... 'Abcdefghi') as argument of every statement kind: one integer up
    to min(4, w) characters, one element per character beyond w; for 5..8 characters in a 64-bit element (DQ, DC.Q) and for ''
    the manual leaves two readings (DataDef.tla Readings / LayoutAlts: one 8-character integer | character string; error | nothing):
    TLC prints both layouts (o.k = "alt"), the statement is assembled alone and must show one of them (law MultiCharReadings).
(G) every DataDef_MC case (statement x argument list x modes, expected layout printed by TLC) is rendered for
    68000 and 6809 (DC.x, big endian, PADDING on/off, odd/even start; code kept in words resp. bytes), z80 and 8051 (Dx, BIGENDIAN off/on), 6809 (FCB/FDB/FCC),
    6502 (BYT/ADR), 320C25 (BYTE/WORD/LONG, 16-bit granular) and atmega128 (packed DB/DN, DATA; DN also on the z80), one `org` slot per case followed by a marker byte; the
    code file is read back: pad + data bytes at the slot, marker at slot + pad + length (reservations: nothing but the
    marker at slot + pad + n).  Floats are written as exact dyadic expressions (m.0/2^k.0 spelled with exactly
    representable decimal literals) so that the host's decimal conversion is not in the loop.  Cases TLC evaluates to
    "error" must produce an error on their line and no bytes.
Verdict-bearing: bytes, error/no error, address advance.  NOT covered: decimal->binary conversion of float literals,
    DC.P (packed decimal), VAX/IBM float formats (vaxfloat.c, ibmfloat.c), PIC `DATA`, TI float formats, strings in float statements, empty double-quoted strings, the 1 KByte per line limit.

Known findings of the pinned tree (known_findings/C09.json, one proposed fix each): half precision subnormals truncated,
    string characters above 127 sign-extended in DW/DD/DQ/ADR/FDB, 0.0 in extended precision written with exponent 3C00h
    (two golden files pin that byte, the fix patches them), LONG of the TMS320C2x not range-checked (a golden test contains
    the typo the missing check hid), DC.C on 68xx targets takes its high byte from an uninitialised word; single-quoted strings
    of 5..8 characters in DQ / DC.Q and '' anywhere are written from a destroyed operand (`dq 'ABCDE'` = 05 00 .., `db ''` = 00:
    asmpars.c MultiCharToInt ignores that TempResultToInt failed; C09-multichar-constant-longer-than-4, found when the
    length 0..9 dimension was added; with the fix on a copy: 201/201 golden tests, 0 violations).

Mutations of the real code tried (fresh copy of /repo, VERIF_REPO, ./check C09 --tier quick):
    * motpseudo.c EnterWord: bytes swapped in the ListGran()==1 branch  -> MISSED by the first version (the 68000 keeps code in
      words and takes the other branch); after adding DC.x on a 6809 (mode lg = 1): caught (52 violations)
    * asmpars.c IntTypeDefs: Int16 made unsigned-only (0xc010 -> 0x0010) -> caught (441, negative words rejected)
    * intpseudo.c DUP replication loop runs once more                   -> caught (1146)
    * ieeefloat.c Double_2_ieee2: tie rounds up instead of to even      -> caught (76)
    * motpseudo.c PadBeforeStart ignores PADDING OFF                    -> caught (344)
    * ieeefloat.c Double_2_ieee4: lowest mantissa bit cleared           -> caught (174)
    * intpseudo.c Put32I_To_8: 16-bit halves swapped                    -> caught (435)
    With all proposed fixes applied to a copy: 0 violations, no KNOWN-FINDING line, 201/201 golden tests pass.
    * (after an independently seeded miss) motpseudo.c DecodeFCC resp. DecodeMotoBYT: TranslateString moved inside the
      repeat loop, so that copy k of `[n]"..."` is translated k times -> invisible with the maps of the first version
      (their images did not overlap their domains); with the string x repeat 1..3 x CHARSET sweep (maps: identity, A..Y -> B..Z,
      a <-> b, a..c -> X, set+reset, the same range twice, reset then swap; CHARSET statements between two copies of a
      statement; every case sets its map and resets it with a plain CHARSET): caught, 96 resp. 192 violations
      (`fcc [3]'Ab'` under A..Y -> B..Z lays down Bb Cb Db).
    * (third seed round) intpseudo.c SubCodeFill: the sub-word borrow no longer decrements FullWordCnt -> only visible for
      reservations inside DUP on packed targets.  Added: packed layouts (DataDef.tla LayoutPacked: DB two per word and DN four
      per word in the AVR code segment, DN two per byte on the z80; elements per unit, LSB/low nibble first, padded last
      unit, advance = ceil(n/E) units) with `?` and constants before / inside / behind DUP bodies, counts 1..5, bodies 1..3,
      every sub-unit start position, nested DUP, and AVR DATA (strings two per word, integers a word each, PACKING ON: one byte
      stream): caught, 116 violations "wrong address advance" (`db ?,3 dup (?,?,?),?` advances 8 words instead of 6).
    Finding of the unchanged tree from that round (known_findings + proposed fix C09-avr-data-drops-pending-byte): AVR
    `data "abc",0x1234` drops the character 'c' (codeavr.c PlaceValue).

Extension "charmap" (checks/ext_charmap.py, last phase of main(); spec modules CharMap, CharMap_MC + cfgs; details, bounds and
what is not covered in the docstring of checks/ext_charmap.py): the character translation table as a STATE MACHINE over
histories of CHARSET (no argument / i,v / i,j,v / i,"string" / "file"; integer arguments written as character constants are
translated themselves, string arguments are not) / CODEPAGE name[,source] (copy at creation, case-insensitive names unless -U)
/ SAVE / RESTORE, every pass starting from the single 1:1 page STANDARD.  TLC checks the pointer-level transcription of
asmallg.c against the declarative fold and a backward (demand-driven) reading of the manual over all histories of <= 2
statements of 101, <= 3 of 14 (thorough <= 3 of 101, <= 5 of 14; 23.7 k resp. 3.3 M states), refutes five named deviations,
and prints histories (quick 6 k: length 2 over 101 statements sampled, length 3 over the 12 page/stack statements exhaustive,
1 000 simulated of length 5; thorough ~52 k x 4 targets) with the element values of seven probes in front of and behind every
statement (strings, character constants, 2-character constants, constants in terms and instruction operands, string
comparisons that must NOT be translated, symbols captured eagerly / lazily); rendered for z80, 68000, 6502, 6809 (every fourth
with two passes, -U where the history says so), assembled by the real asl, code file compared element by element.  A wrong
element of a DATA probe in a history without erroneous statements is a C09 violation; instruction operands, histories with
erroneous statements (read through the emit/diag hooks) and the points where the manual's sentence on SAVE/RESTORE admits two
readings are SPEC-DRIFT only.  No finding on the unchanged tree (one named deviation: `CODEPAGE existing,unknown` is rejected
although the manual calls the second parameter meaningless then; kept as drift-level).
Mutations tried for the extension (scratch copies, quick tier, VERIF_REPO; number of rejected histories of ~6 000):
    * asmallg.c CodeCODEPAGE: memcpy from CurrTransTable->Table instead of Source->Table (second name ignored) -> caught, 20
      (8 before CharMap_Gen4s was added: only histories of >= 3 statements with an edited active page show it)
    * asmallg.c CodeRESTORE: `CurrTransTable = Old->SaveTransTable` dropped                               -> caught, 5
      (needs SAVE, switch, edit, RESTORE: the exhaustive 4-statement generator CharMap_Gen4s + simulated histories)
    * asmallg.c CodeCHARSET i,"string": the characters of the string translated through the table          -> caught, 458
    * asmallg.c CodeCODEPAGE: second name not upper-cased in the default case mode                          -> caught, 373
      (`codepage zeta,standard` rejected: "documented as valid, but the assembly fails")
    * asmsub.c TranslateString: table indexed with 7 bits                                                   -> caught, 2952
    * as.c InitPass / AssembleFile: pages survive into the next pass (no ClearCodepages, STANDARD reused)   -> caught, 653
      (the every-fourth histories rendered with a forward reference)
    * asmallg.c CodeCHARSET without arguments: only entries 0..127 reset                                    -> caught, 57
    * asmpars.c NonZString2Int: only the last character of a multi-character constant translated            -> caught, 938
"""
import os

from checks import c08 as base
from vlib import aslrun, build, tlc
from vlib import exprrender as er
from vlib.common import CheckError, Phase, log, pmap, rng
from vlib.report import Report

PID = "C09"
STRIDE = 512
MARK = 0xA5

MNEMO = {"DCB": "dc.b", "DCW": "dc.w", "DCL": "dc.l", "DCQ": "dc.q", "DCC": "dc.c", "DCS": "dc.s", "DCD": "dc.d",
         "DCX": "dc.x", "DB": "db", "DW": "dw", "DD": "dd", "DQ": "dq", "DT": "dt", "FCB": "fcb", "FDB": "fdb",
         "BYT": "byt", "ADR": "adr", "FCC": "fcc", "TIBYTE": "byte", "TIWORD": "word", "TILONG": "long",
         "PDB": "db", "PDN": "dn", "DN": "dn", "AVRDATA": "data"}


class Target:
    """cpu + mode directives of one file; renders items at org slots followed by a marker byte"""

    def __init__(self, cpu, hexfmt, big, gran, marker, md, extra=()):
        self.cpu, self.hexfmt, self.big, self.gran, self.marker = cpu, hexfmt, big, gran, marker
        self.md = md
        self.extra = list(extra)
        self.name = cpu
        self.lit = er.Dialect(cpu, cpu, hexfmt, big, "", "", "")

    def header(self):
        return ["\tcpu\t%s" % self.cpu] + ["\t" + x for x in self.extra]

    def slot_of(self, n, it):
        # byte address of the statement's location counter (word address x gran for the 16-bit target)
        return 0x1000 + n * STRIDE + (1 if (it.case["md"]["pcodd"] and self.gran == 1) else 0)

    def render(self, items):
        lines = self.header()
        for n, it in enumerate(items):
            md = it.case["md"]
            it.first = len(lines) + 1
            it.slot = self.slot_of(n, it)
            org = it.slot // self.gran if self.gran > 1 else it.slot
            lines.append("\torg\t%d" % org)
            lines += charset_lines(md["cs"])                 # the CHARSET statements in force for this case
            if self.cpu == "atmega128":
                lines.append("\tpacking\t%s" % ("on" if md.get("packing") else "off"))
            lines.append("\t%s\t%s" % (it.stmt, it.expr))
            if md.get("cs2"):
                lines += charset_lines(md["cs2"])            # changed between two copies of the statement
                lines.append("\t%s\t%s" % (it.stmt, it.expr))
            it.line = len(lines)
            lines.append("\t%s" % self.marker)
            if md["cs"] or md.get("cs2"):
                lines.append("\tcharset")                    # back to the identity: the next case must not see the map
        return "\n".join(lines) + "\n"


def target_for(case, r):
    fam, md, stmt = case["fam"], case["md"], case["stmt"]
    if fam == "moto":
        if md.get("lg", 2) == 1:
            return ("6809dc", "pad%d" % md["padding"], "")      # DC.x on a 68xx: code kept in bytes
        return ("68000", "pad%d" % md["padding"], "")
    if fam == "intel":
        if md["big"]:
            return ("8051", "big", "")
        return ("z80" if (md["pcodd"] or md["cs"]) else "8051", "little", "")
    if fam == "avrdata" or (fam == "packed" and stmt in ("PDB", "PDN")):
        return ("atmega128", "", "")          # word-addressed code segment: DB two, DN four per word
    if fam == "packed":
        return ("z80", "little", "")        # DN: two nibbles per byte
    if fam == "m68":
        return ("6809" if stmt in ("FCB", "FDB", "FCC") else "6502", "", "")
    return ("320c25", "", "")


def make_target(key, md):
    cpu, mode, cs = key
    if cpu == "68000":
        return Target(cpu, "moto", True, 1, "dc.b\t$A5", md, ["padding\t" + ("on" if mode == "pad1" else "off")])
    if cpu == "6809dc":
        return Target("6809", "moto", True, 1, "dc.b\t$A5", md, ["padding\t" + ("on" if mode == "pad1" else "off")])
    if cpu == "8051":
        return Target(cpu, "intel", mode == "big", 1, "db\t0A5h", md, ["bigendian\t" + ("on" if mode == "big" else "off")])
    if cpu == "z80":
        return Target(cpu, "intel", False, 1, "db\t0A5h", md)
    if cpu == "atmega128":
        return Target(cpu, "c", False, 2, "dw\t0xa5a5", md)
    if cpu == "6809":
        return Target(cpu, "moto", True, 1, "fcb\t$A5", md)
    if cpu == "6502":
        return Target(cpu, "moto", False, 1, "byt\t$A5", md)
    return Target(cpu, "intel", False, 2, "word\t0A5A5h", md)


def charset_lines(ops):
    """CHARSET statements of a map description; numeric arguments, so that an already active map cannot touch them"""
    out = []
    for op in ops:
        k = op["k"]
        if k == "range":
            out.append("\tcharset\t%d,%d,%d" % (op["a"], op["b"], op["c"]))
        elif k == "one":
            out.append("\tcharset\t%d,%d" % (op["a"], op["c"]))
        elif k == "str":
            out.append("\tcharset\t%d,%s" % (op["a"], er.spell_string(op["cs"])))
        elif k == "reset":
            out.append("\tcharset")
        else:
            raise ValueError(k)
    return out


POW2 = [1 << k for k in range(0, 64)]


def spell_float(d):
    """exact dyadic expression: decimal literals that are exactly representable, scaled by powers of two"""
    s, m, e = d["s"], d["m"], d["e"]
    txt = "%d.0" % m
    while e > 0:
        k = min(e, 30)
        txt += "*%d.0" % POW2[k]
        e -= k
    while e < 0:
        k = min(-e, 30)
        txt += "/%d.0" % POW2[k]
        e += k
    return ("-" if s else "") + txt


def spell_arg(a, tgt):
    k = a["k"]
    if k == "int":
        txt = ("-" if a["neg"] else "") + tgt.lit.spell_int(a["digits"], a["base"])
    elif k == "flt":
        txt = spell_float(a)
    elif k == "str":
        txt = er.spell_string(a["cs"], "'" if a["sq"] else '"')
    elif k == "res":
        txt = "?"
    elif k == "dup":
        txt = "%d dup (%s)" % (a["n"], ",".join(spell_arg(x, tgt) for x in a["args"]))
    else:
        raise ValueError(k)
    if "rep" in a:
        txt = "[%d]%s" % (a["rep"], txt)
    return txt


def make_item(idx, case, tgt):
    it = base.Item()
    it.idx = idx
    it.case = case
    it.stmt = MNEMO[case["stmt"]]
    it.expr = ",".join(spell_arg(a, tgt) for a in case["args"])
    case["cs"] = ["%s %s" % (it.stmt, it.expr)]
    case["op"] = case["stmt"]
    case["src"] = "md=%s" % case["md"]
    case["depth"] = 2
    return it


def expected_image(it, tgt, o):
    """list of (byte address, value) layout o lays down + the marker; None = nothing decided"""
    if o["k"] == "data":
        start = it.slot + o["pad"]
        cells = [(start + i, b) for i, b in enumerate(o["b"])]
        end = start + len(o["b"])
    elif o["k"] == "reserve":
        start = it.slot + o["pad"]
        cells = []
        end = start + o["n"]
    else:
        return None
    mark = [(end, MARK)] + ([(end + 1, MARK)] if tgt.gran == 2 else [])
    return cells, mark, (start, end)


def judge_data_batch(rep, bld, tgt, items, depth=0):
    if not items:
        return
    src = tgt.render(items)
    res = aslrun.assemble(bld, {"a.asm": src}, opts=["-q"], timeout=30)
    if er.crashed(res):
        if len(items) == 1:
            base.report(rep, "assembler crashed (rc=%s sig=%s timeout=%s) on" % (res.rc, res.sig, res.timeout),
                        items[0], tgt, src, "crash")
            return
        mid = len(items) // 2
        judge_data_batch(rep, bld, tgt, items[:mid], depth + 1)
        judge_data_batch(rep, bld, tgt, items[mid:], depth + 1)
        return
    errs = er.error_lines(res)
    bad = [it for it in items if any(l in errs for l in range(it.first, it.line + 3))]
    if bad:
        import re
        txt = res.out + res.err
        for it in bad:
            m = re.search(r"a\.asm\(%d\)[^\n]*" % it.line, txt)
            base.report(rep, "bytes are documented but an error is reported for", it, tgt, src, "error",
                        extra="-> %s" % (m.group(0) if m else "?"))
        if depth < 4:
            judge_data_batch(rep, bld, tgt, [it for it in items if it not in bad], depth + 1)
        return
    if res.rc != 0 or res.p is None:
        if len(items) == 1:
            base.report(rep, "no code and no error message (rc=%s) for" % res.rc, items[0], tgt, src, "silent")
            return
        mid = len(items) // 2
        judge_data_batch(rep, bld, tgt, items[:mid], depth + 1)
        judge_data_batch(rep, bld, tgt, items[mid:], depth + 1)
        return
    flat = flat_image(res)
    for n, it in enumerate(items):
        bad = compare_slot(it, tgt, flat, n, it.case["o"])
        if bad:
            data_wrong, start, end, got = bad
            base.report(rep, "wrong layout" if data_wrong else "wrong address advance", it, tgt, src,
                        "value" if data_wrong else "advance",
                        extra="expected %s at %#x..%#x + marker at %#x; code file has %s"
                              % (it.case["o"], start, end, end, sorted(got.items())))


def flat_image(res):
    flat = {}
    for (seg, a), vals in res.parsed().image().items():
        flat.setdefault(a, vals[0])
    return flat


def compare_slot(it, tgt, flat, n, o):
    """None if slot n of the code file shows layout o (+ the marker), else (data_wrong, start, end, bytes found)"""
    cells, mark, (start, end) = expected_image(it, tgt, o)
    lo, hi = tgt.slot_of(n, it) - 1, tgt.slot_of(n, it) - 1 + STRIDE
    got = {a: v for a, v in flat.items() if lo <= a < hi}
    want = dict(cells + mark)
    # pad bytes in front of the data may or may not be written; everything else must match exactly
    extra = {a: v for a, v in got.items() if a not in want and not (it.slot <= a < start)}
    wrong = {a: (want[a], got.get(a)) for a in want if got.get(a) != want[a]}
    if not (wrong or extra):
        return None
    return (any(a < end for a in wrong) or any(a < end for a in extra), start, end, got)


def judge_alternatives(rep, bld, tgt, it):
    """a statement for which the manual allows several layouts (TLC printed all of them, each `data` or `error`): assembled
    alone; it conforms iff what asl did is one of them"""
    alts = it.case["o"]["alts"]
    src = tgt.render([it])
    res = aslrun.assemble(bld, {"a.asm": src}, opts=["-q"], timeout=20)
    if er.crashed(res):
        base.report(rep, "assembler crashed (rc=%s sig=%s timeout=%s) on" % (res.rc, res.sig, res.timeout), it, tgt, src, "crash")
        return
    errs = er.error_lines(res)
    if any(l in errs for l in range(it.first, it.line + 1)):
        if not any(a["k"] == "error" for a in alts):
            base.report(rep, "bytes are documented but an error is reported for", it, tgt, src, "error")
        return
    if res.rc != 0 or res.p is None:
        base.report(rep, "no code and no error message (rc=%s) for" % res.rc, it, tgt, src, "silent")
        return
    flat = flat_image(res)
    data = [a for a in alts if a["k"] in ("data", "reserve")]
    bads = [compare_slot(it, tgt, flat, 0, a) for a in data]
    if not data or all(bads):
        got = sorted((bads[0][3] if bads else {a: v for a, v in flat.items() if a >= it.slot - 1}).items())
        base.report(rep, "wrong layout: none of the documented readings", it, tgt, src, "value",
                    extra="expected one of %s at %#x (+ marker); code file has %s" % (alts, it.slot, got))


def replay_cases(rep, bld, cases, tier):
    groups = {}
    r = rng("c09")
    for c in cases:
        key = target_for(c, r)
        groups.setdefault((key, c["md"]["padding"], c["md"]["big"]), []).append(c)
    work = []
    n = 0
    for gk, cs in sorted(groups.items(), key=lambda kv: str(kv[0])):
        tgt = make_target(gk[0], cs[0]["md"])
        by = {"data": [], "error": [], "unspec": [], "alt": []}
        for c in cs:
            n += 1
            it = make_item(n, c, tgt)
            k = c["o"]["k"]
            by["data" if k in ("data", "reserve") else k].append(it)
        for kind, items in by.items():
            for ch in base.chunks(items, 1 if kind == "alt" else 100):
                work.append((kind, tgt, ch))

    def do(w):
        kind, tgt, ch = w
        if kind == "data":
            judge_data_batch(rep, bld, tgt, ch)
        elif kind == "error":
            base.judge_error_batch(rep, bld, tgt, ch)
        elif kind == "alt":
            judge_alternatives(rep, bld, tgt, ch[0])
        else:
            base.judge_survival(rep, bld, tgt, ch, "statement without documented layout")
        return len(ch)
    with Phase("replay %d statements (%d files)" % (n, len(work))):
        total = sum(pmap(do, work))
    rep.evaluated(total)
    rep.traces(total)
    for kind, tgt, ch in work:
        for it in ch:
            rep.distinct((tgt.cpu, str(it.case["md"]), it.stmt, it.expr), True)
    rep.part("replay", cases=n, files=len(work), targets=sorted({w[1].cpu for w in work}))
    shown = set()
    for kind, tgt, ch in work:
        if (kind, tgt.cpu) not in shown and len(shown) < 6:
            shown.add((kind, tgt.cpu))
            it = ch[len(ch) // 2]
            rep.sample({"target": tgt.cpu, "header": tgt.header(), "statement": "%s %s" % (it.stmt, it.expr),
                        "modes": it.case["md"], "expected": it.case["o"]})


def main(tier):
    rep = Report(PID, tier)
    bld = build.get("hook")
    rep.assumptions += [
        "expected bytes are those TLC computes from spec/DataDef.tla + spec/IEEE.tla; the renderer (argument spelling) "
        "and the code file reader are trusted",
        "float arguments are exact dyadic expressions m.0*2^k / m.0/2^k whose evaluation in IEEE double arithmetic is exact",
        "statements without a documented layout (strings in float statements, values between the largest finite number "
        "and the next power of two, ...) carry no verdict except 'no crash'"]
    quick = tier == "quick"

    def job(j):
        if j == "ieee":
            return tlc.run("IEEE_MC", "IEEE_MC.cfg", workers=4, timeout=1700, mem="6g", collect=False)
        if j == "dev":
            return tlc.run("IEEE_MC", "IEEE_Dev.cfg", workers=2, timeout=600, mem="2g", collect=False)
        return tlc.run("DataDef_MC", "DataDef_MC.cfg" if quick else "DataDef_MC_full.cfg", workers=4, timeout=1700, mem="8g")
    with Phase("TLC: IEEE_MC, DataDef_MC (model check + case generation)"):
        ieee, dev, dd = pmap(job, ["ieee", "dev", "dd"], workers=3)
    tlc.must(ieee, "IEEE_MC")
    if ieee.violation:
        raise CheckError("IEEE_MC: the encoders violate the declarative characterisation: %s" % ieee.violation[:600])
    rep.model("IEEE_MC(IEEE_MC.cfg)", ieee)
    tlc.must(dd, "DataDef_MC")
    if dd.violation:
        raise CheckError("DataDef_MC: the specification violates its own laws: %s" % dd.violation[:600])
    rep.model("DataDef_MC", dd)
    rep.part("IEEE_Dev (transcription of the pinned Double_2_ieee2 = IEEE?)",
             witness_found=bool(dev.violation), note="a violation here is TLC's witness of the half precision subnormal defect")
    cases = [o for (tag, o) in dd.printed if tag == "OUT"]
    if not cases:
        raise CheckError("DataDef_MC printed no cases")
    replay_cases(rep, bld, cases, tier)
    from checks import ext_charmap          # phase "charmap": the character translation state machine over histories
    ext_charmap.run(rep, bld, tier)
    return rep.finish(
        rule="cases = statement kind x argument list (boundary integers of the field, float sweeps around every rounding "
             "boundary, strings, DUP/[n]/? forms) x modes (endianness, PADDING, odd start, CHARSET) enumerated by TLC; "
             "distinct = distinct (target, modes, statement text)", exhaustive=False)


def replay(path):
    import json
    v = json.load(open(os.path.join(path, "violation.json")))
    bld = build.get("hook")
    src = open(os.path.join(path, "a.asm")).read()
    res = aslrun.assemble(bld, {"a.asm": src}, opts=["-q"])
    log("replay rc=%s sig=%s\n%s%s" % (res.rc, res.sig, res.out, res.err))
    if res.p:
        log("code: %s" % [(rec.start, list(rec.data)) for rec in res.parsed().data_records()])
    log("recorded: %s" % v["what"])
    log("expected: %s" % (v.get("case") or {}).get("expected"))
    return 0
