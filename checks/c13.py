"""C13 - Symbol scoping, mutability and naming rules are honoured.

Specification: spec/Symbols.tla
  * the machine: section list/handles, SectionStack with FORWARD/PUBLIC/GLOBAL lists, symbol tree keyed (name, section),
    macro-local tree keyed (name, local handle), ChkTmp1/2/3 (nameless - + /, `$$name`, `.name`), SymbolAdder,
    EnterSymbol, FindLocNode/FindNode/LookupSymbol, PUSHV/POPV stacks, macro expansion handles, the pass loop
    (symbols survive a pass undefined-but-present) - transcribed from asmpars.c / asmallg.c / as.c;
  * the declarative meaning (operator Expect): the manual's rules as position arithmetic on the program text.
(M) Symbols_MC: for every program text up to the stated length over the alphabet of a focus area (scope, scope2,
    case, temp, stack, macro) TLC checks machine = manual (errors and every data word the manual is definite about,
    also after a forced further pass), convergence in two passes, stack = text nesting, "an EQU constant never
    changes", "redefinition is an error".  Run for the repaired machine (devs = {}) and for the machine of the pinned
    tree (devs = PINNED, texts with a known deviation pattern excluded); thorough: Symbols_MCD_popv must FAIL (the
    model of the pinned tree exhibits the POPV defect).
(G) Symbols_Gen: all small programs per focus area (BFS, every prefix) + TLC-simulated long programs (section trees
    up to depth 4, same-named symbols on several levels, qualifiers PARENT0..4 / names / [], exports to every ancestor,
    temporary symbols up to the sight of 3 and one beyond, macro-local labels, PUSHV/POPV, with and without -U) are
    rendered in two dialects (z80 little endian `dw`, 68000 big endian `dc.w`) and assembled by the real asl.
    Argument lists (Symbols_Gen modes pplistq / pplistt, added after a seeded change to CodePPSyms() went unnoticed:
    the default destination "global" was set once before the argument loop instead of per argument, so that in
    `PUBLIC alpha:PARENT, beta` beta inherited alpha's destination - every generated FORWARD/PUBLIC/GLOBAL statement
    had named ONE symbol): a statement with several arguments is a run of elements, all but the first with
    cont |-> TRUE; each argument has its own destination (Symbols.tla, header and DoPP).  Generated: every kind x
    every list of 1..2 (thorough 1..3) arguments x every combination of per-argument destinations (none, PARENTn,
    section name; thorough also PARENT0/PARENT3/second name) x the second argument being another symbol or the first
    one again in another spelling, inside a nest of 3 (thorough 3 and 4, the innermost repeating the outermost name)
    sections, without / with same-named symbols further out, followed by the definitions and by probe references
    from every level (plain names, for GLOBAL the composed names): one text with all probes the manual resolves and
    one text per name with the innermost probe the manual calls undefined ("not visible further out").  The
    simulated texts extend a FORWARD/PUBLIC/GLOBAL statement by further arguments as well (category PPC), the
    renderer joins the elements into one source line, Symbols_Trace steps through the elements of a line, and
    Symbols_MC (focus scope2) has the list that names its symbol again.  The seeded change now yields ~45 VIOLATIONs
    in the quick tier (unexpected "symbol undefined"; thorough also missing double-definition errors).
    Expected values and expected errors are TLC's (Expect); Python renders, reads the code file and compares.
    Verdict-bearing: error-or-not, every word the manual is definite about.  Not verdict-bearing (SPEC-DRIFT only):
    words the manual calls pass-dependent (compared with the machine's prediction), result of a forced extra pass.
(V) Symbols_Trace: the sym_def / sym_ref hook events of every pass of the generated programs (name, section or local
    handle, value, outcome incl. forward/unknown) are validated statement by statement against the machine; for the
    golden programs that use SECTION every recorded resolution is checked against FindNode with the section stack
    reconstructed from the SECTION / ENDSECTION / PUBLIC / GLOBAL / FORWARD lines.

NOT covered: register symbols (REG), structure elements, symbols of other types than integer, definitions with an
explicit [section] on the defined name, SHARED, -D command line symbols, macros' own scoping (PUBLIC/GLOBAL options of
MACRO), REPT/IRP/WHILE local handles, `{expr}` name synthesis, texts the manual leaves undefined (GLOBAL to the own
section, nameless temporaries across section borders when the target is not on the path, PUSHV/POPV whose symbol
choice depends on the pass: Expect.silent / not definite).  In the corpus part, lines inside macro expansions are only
recorded, not judged (the hooks do not tell the macro-local tree from the global one).

Findings on the pinned tree d9f49b6 (known_findings/C13.json, proposed_fixes/C13-*.diff/.md); all three are repaired in
/repo by now ("fix:" commits), the entries are "fixed" and suppress nothing - on a tree without a repair the check
reports the VIOLATION again (witness texts of Symbols_Gen, mode "witness", make that deterministic):
  popv_const          POPV overwrote an EQU constant / a label (PopSymbol ignored Changeable; 65536 passes on a label)
  dd_same_name        $$name survived a definition of a non-temporary symbol with the same name as the previous one
  empty_macro_nested  a macro without body lines called inside a macro dropped the caller's local-symbol handle
The machine keeps the three deviations switchable (field devs), so the model of the pinned tree stays checkable.

Binding shown by mutation (patches: selftest/C13-m*.diff): each mutant below was applied to a scratch copy of /repo, built, run through the
repository's 201 ctest tests (result in brackets) and through `VERIF_REPO=<copy> ./check C13 --tier quick`.
All but the last were reported as VIOLATION (exit 1; the CodePPSyms one only since the argument lists exist):
  asmpars.c FindNode: innermost section not searched            [128 tests fail]  unexpected "symbol undefined"
  asmpars.c FindNode: parent level skipped from depth 2 on       [3 fail]    unexpected "symbol undefined"
  asmpars.c FindNode: no upper-casing of the looked-up name      [116 fail]  unexpected "symbol undefined"
  asmpars.c FindNode: FORWARD list ignored                       [201 pass]  word = global instead of later local
  asmpars.c FindNode: name[sect] falls back to the global table  [201 pass]  missing "undefined" error
  asmpars.c IdentifySection: PARENTn one level too far           [1 fail]    unexpected "unknown section"
  asmpars.c GetSectionHandle: section names not upper-cased      [201 pass]  unexpected "unknown section"
  asmpars.c SymbolAdder: double definition accepted              [201 pass]  pass loop does not end / missing error
  asmpars.c SymbolAdder: EQU/SET mixing accepted                 [201 pass]  missing error
  asmpars.c EnterSymbol: PUBLIC target ignored                   [3 fail]    unexpected double definition
  asmpars.c EnterSymbol: PUBLIC entry not used up                [5 fail]    unexpected "unresolved forward"
  asmpars.c EnterSymbol: GLOBAL copy without the section path    [201 pass]  unexpected double definition
  asmpars.c ChkTmp2: back reference index off by one             [1 fail]    unexpected syntax error
  asmpars.c ChkTmp2: "/" not entered into the back log           [1 fail]    unexpected syntax error
  asmpars.c ChkTmp3: LastGlobSymbol frozen at the first symbol   [2 fail]    unexpected double definition
  asmpars.c LOCSYMSIGHT 2                                        [201 pass]  unexpected syntax error on "+++"
  asmpars.c LookupSymbol: FindLocNode not consulted              [6 fail]    word = global instead of macro-local label
  asmpars.c PopSymbol: second element instead of the top         [201 pass]  LIFO witness: word 4112 instead of 4128
  asmallg.c CodePUSHV: stack name not upper-cased                [201 pass]  unexpected "stack is empty"
  asmallg.c CodeENDSECTION: outermost section never left         [7 fail]    unexpected "symbol undefined"
  asmallg.c CodePPSyms: default destination hoisted out of loop  [201 pass]  unexpected "symbol undefined" (lists)
  asmpars.c FindLocNode: enclosing expansions not searched       [201 pass]  NOT reported as violation: the manual does
      not say that a nested expansion sees the labels of the expansion around it, so such references are "not
      definite" (compared with the machine as SPEC-DRIFT only).
The three proposed fixes together (scratch copy, 201/201 ctest): exit 0, no KNOWN-FINDING, no VIOLATION; the recorded
traces of texts with a deviation pattern are then accepted by the repaired machine (devs without that deviation).
Corrupting one recorded field (section handle of a sym_ref observation + 1) makes Symbols_Trace reject the trace at
exactly that event.
"""
import hashlib
import os

from vlib import aslrun, build, symrender, tlc, tracecheck
from vlib.common import CheckError, Phase, log, pmap, rng
from vlib.report import Report

PID = "C13"

MC_QUICK = ["Symbols_MCq_scope", "Symbols_MCq_case", "Symbols_MCq_temp", "Symbols_MCq_stack", "Symbols_MCq_macro"]
MC_THOROUGH = ["Symbols_MCt_scope", "Symbols_MCt_scope2", "Symbols_MCt_case", "Symbols_MCt_temp", "Symbols_MCt_stack",
               "Symbols_MCt_macro"]
GEN_QUICK = ["Symbols_Genq_pplist", "Symbols_Gen_witness", "Symbols_Genq_scope", "Symbols_Genq_temp", "Symbols_Genq_stack",
             "Symbols_Genq_macro"]
GEN_THOROUGH = ["Symbols_Gen_witness", "Symbols_Gent_pplist", "Symbols_Gent_scope", "Symbols_Gent_temp", "Symbols_Gent_stack",
                "Symbols_Gent_macro"]
ALWAYS = ("Symbols_Gen_witness", "Symbols_Genq_pplist")      # never thinned out by the quick tier's sampling
DIALECTS = ("z80", "68000")
TREE_DEVS = set()        # deviations of the pinned tree that the replay has seen the tree under test exhibit
PASS_CAP = "12"          # ASL_VERIF_MAX_PASSES: a program that needs more passes exits with status 97


# ----------------------------------------------------------------------------------------------------------
# (M)
# ----------------------------------------------------------------------------------------------------------
def model_check(rep, tier):
    cfgs = MC_QUICK if tier == "quick" else MC_THOROUGH
    jobs = int(os.environ.get("VERIF_JOBS", "0") or 0) or (os.cpu_count() or 4)
    par = 5 if tier == "quick" else 3
    w = max(1, min(4, jobs // par))

    def one(c):
        return c, tlc.run("Symbols_MC", c + ".cfg", workers=w, timeout=1700, mem="3g", collect=False)
    with Phase("model checking %d configurations" % len(cfgs)):
        res = pmap(one, cfgs, workers=par)
    for c, r in res:
        tlc.must(r, c)
        if r.violation:
            raise CheckError("the Symbols design violates its own invariants (%s): %s" % (c, r.violation[:700]))
        rep.model("Symbols_MC(%s)" % c, r)
    if tier == "thorough":
        r = tlc.run("Symbols_MC", "Symbols_MCD_popv.cfg", workers=w, timeout=600, mem="3g", collect=False)
        if r.error:
            raise CheckError("Symbols_MCD_popv: %s" % r.error)
        rep.part("Symbols_MC(Symbols_MCD_popv)", expected="violation of ConstNeverChanges by the pinned machine",
                 violated=bool(r.violation), distinct_states=r.distinct)
        if not r.violation:
            raise CheckError("the model of the pinned tree no longer exhibits the POPV-into-constant deviation")


# ----------------------------------------------------------------------------------------------------------
# (G) generation
# ----------------------------------------------------------------------------------------------------------
def _key(beh):
    return hashlib.sha1(repr((beh["cs"], beh["prog"])).encode()).hexdigest()


def generate(rep, tier):
    """yields (source name, list of behaviours): one batch per TLC run, so that the thorough tier never holds more
    than one batch of small programs in memory"""
    seen = set()

    def fresh(printed, src):
        out = []
        for tag, b in printed:
            if tag == "BEH":
                k = _key(b)
                if k not in seen:
                    seen.add(k)
                    b["src"] = src
                    out.append(b)
        return out
    cfgs = GEN_QUICK if tier == "quick" else GEN_THOROUGH

    def bfs(c):
        return c, tlc.run("Symbols_Gen", c + ".cfg", workers=2 if tier == "quick" else 4, timeout=1700, mem="4g")

    def checked(c, r):
        tlc.must(r, c)
        if r.violation:
            raise CheckError("Symbols_Gen %s: %s" % (c, r.violation[:500]))
        rep.model("Symbols_Gen(%s)" % c, r)
    if tier == "quick":
        with Phase("TLC: all small programs (%d configurations)" % len(cfgs)):
            res = pmap(bfs, cfgs, workers=3)
        small = []
        for c, r in res:
            checked(c, r)
            got = fresh(r.printed, c)
            rep.part("Symbols_Gen(%s)" % c, programs=len(got))
            small += got
        if len([b for b in small if b["src"] not in ALWAYS]) > 12000:
            # quick: a seed-chosen sample of the exhaustive small programs is replayed (all of them in thorough)
            r0 = rng("c13/bfs-sample")
            rep.part("generation", small_programs_generated=len(small),
                     small_programs_replayed=12000 + len([b for b in small if b["src"] in ALWAYS]))
            small = [b for b in small if b["src"] in ALWAYS] + \
                r0.sample([b for b in small if b["src"] not in ALWAYS], 12000)
        yield "small", small
    else:
        for c in cfgs:
            with Phase("TLC: all small programs of %s" % c):
                c, r = bfs(c)
            checked(c, r)
            got = fresh(r.printed, c)
            r.printed = []
            rep.part("Symbols_Gen(%s)" % c, programs=len(got))
            yield c, got
    nsim = 800 if tier == "quick" else 3000
    # Symbols_SimTemp: long programs over temporary symbols only (nameless -, +, / at every depth of sight with data in
    # between, named and composed ones) - the small exhaustive "temp" programs have no room for data between two
    # definitions, so a reference bound to the wrong neighbour reads the same address there
    for cfg, share in (("Symbols_Sim.cfg", 0.45), ("Symbols_SimScope.cfg", 0.35), ("Symbols_SimStack.cfg", 0.2),
                       ("Symbols_SimTemp.cfg", 0.3)):
        with Phase("TLC: simulate long programs (%s)" % cfg):
            r = tlc.must(tlc.run("Symbols_Gen", cfg, workers=4, simulate=max(1, int(nsim * share) // 4), depth=45,
                                 deadlock=True, timeout=1700, mem="4g"), cfg)
        if r.violation:
            raise CheckError("Symbols_Gen simulation: %s" % r.violation[:500])
        got = fresh(r.printed, cfg)
        rep.cov["transitions"] += r.generated
        rep.part("Symbols_Gen(%s)" % cfg, states_generated=r.generated, programs=len(got), wall_s=r.wall)
        yield cfg, got


# ----------------------------------------------------------------------------------------------------------
# (G) replay
# ----------------------------------------------------------------------------------------------------------
def judge(rep, beh, dia, src, opts, res):
    X, M = beh["exp"], beh["mach"]
    case = {"cs": beh["cs"], "prog": beh["prog"], "dialect": dia, "opts": opts, "expected": X, "machine": M}
    files = {"a.asm": src, "stdout.txt": (res.out or "") + (res.err or "")}
    devs = "+".join(sorted(X["devs"]))
    cause = sorted(beh.get("cause", []))

    def viol(kind, what, got=None):
        # attribution: the program contains a known deviation pattern, exactly one repair of the model makes it
        # conform, and the assembler did precisely what the model of the pinned tree does
        as_model = (res.rc in (0, 2)) and ((M["errs"] > 0) == (res.rc == 2)) and (res.rc == 2 or got == M["words"])
        key = {"kind": kind, "cause": cause[0] if (len(cause) == 1 and as_model) else "", "devs": devs}
        if key["cause"]:
            TREE_DEVS.add(key["cause"])
        case["observed"] = {"rc": res.rc, "words": got}
        rep.violation(what, case=case, files=files, key=key)

    if res.rc == 97 and not res.timeout:
        case["observed"] = {"rc": 97}
        key = {"kind": "passes", "cause": cause[0] if (len(cause) == 1 and M["repass"]) else "", "devs": devs}
        if key["cause"]:
            TREE_DEVS.add(key["cause"])
        rep.violation("the pass loop does not end (more than %s passes)" % PASS_CAP, case=case, files=files, key=key)
        return
    if res.timeout or res.sig is not None or res.rc not in (0, 2):
        viol("crash", "assembler did not end normally (rc=%s signal=%s timeout=%s)" % (res.rc, res.sig, res.timeout))
        return
    got = symrender.words_of(res, dia)
    if X["err"]:
        if res.rc != 2:
            viol("missing_error", "an error is due (%s) but the program was accepted; words %s"
                 % (",".join(X["kinds"]), got), got)
        return
    if res.rc == 2:
        if not X["mayErr"]:
            viol("unexpected_error", "a program the manual accepts was rejected: %s" % files["stdout.txt"][-300:])
        return
    exp = X["words"]
    if got is None or len(got) != len(exp):
        viol("length", "expected %d data words, code file has %s" % (len(exp), got), got)
        return
    bad = [k for k, w in enumerate(exp) if w["definite"] and w["v"] != got[k]]
    if bad:
        k = bad[0]
        viol("resolution", "statement %d (%s): the manual's rule gives %d, the code file has %d (all: expected %s got %s)"
             % (exp[k]["pos"], beh["prog"][exp[k]["pos"] - 1], exp[k]["v"], got[k], [w["v"] for w in exp], got), got)
        return
    if got != M["words"] and not X["devs"]:
        rep.drift("pass-dependent words differ from the machine's prediction: %s vs %s in %r"
                  % (got, M["words"], src[:400]))


def replay_all(rep, bld, behs, tier):
    jobs, meta = [], []
    nsilent = 0
    for bi, beh in enumerate(behs):
        if beh["exp"]["silent"]:
            nsilent += 1
            continue
        dias = DIALECTS if (tier == "thorough" or beh["src"].startswith("Symbols_Sim")) \
            else (DIALECTS[int(_key(beh)[:2], 16) % 2],)
        for dia in dias:
            r = rng("c13/%s/%s" % (_key(beh), dia))
            src, opts, _ = symrender.render(beh, dia, r)
            jobs.append({"sources": {"a.asm": src}, "opts": opts, "env": {"ASL_VERIF_MAX_PASSES": PASS_CAP}})
            meta.append((beh, dia, src, opts))
    with Phase("replay %d programs" % len(jobs)):
        results = aslrun.assemble_many(bld, jobs)
    nerr = nok = 0
    for (beh, dia, src, opts), res in zip(meta, results):
        rep.evaluated()
        nontrivial = any(st["k"] in ("REF", "TREF", "PUSHV", "POPV") for st in beh["prog"])
        rep.distinct(src, nontrivial)
        if beh["exp"]["err"]:
            nerr += 1
        else:
            nok += 1
        judge(rep, beh, dia, src, opts, res)
    rep.traces(len(jobs))
    p = rep.cov["parts"].setdefault("replay", {"programs": 0, "silent_skipped": 0, "runs": 0, "expected_error": 0,
                                               "expected_clean": 0})
    p["programs"] += len(behs)
    p["silent_skipped"] += nsilent
    p["runs"] += len(jobs)
    p["expected_error"] += nerr
    p["expected_clean"] += nok
    clean = [m for m in meta if not m[0]["exp"]["err"] and len(m[0]["exp"]["words"]) > 2]
    for (beh, dia, src, opts) in clean[:1] + clean[-1:]:
        rep.sample({"program": beh["prog"], "cs": beh["cs"], "dialect": dia, "rendered": src,
                    "expected": {"err": beh["exp"]["err"], "words": [w["v"] for w in beh["exp"]["words"]]}}, limit=8)
    return meta


def extra_pass(rep, bld, behs):
    """forced further pass (ASL_VERIF_EXTRA_PASSES=1): every lookup now sees the complete table.  Definite words must
    not move (verdict); the others are compared with the machine's prediction for that pass (drift)."""
    if not bld.hooks:
        return
    jobs, meta = [], []
    for beh in behs:
        X = beh["exp"]
        if X["silent"] or X["err"] or X["mayErr"] or beh["mach"]["errs"] or X["devs"]:
            continue
        r = rng("c13/%s/z80" % _key(beh))
        src, opts, _ = symrender.render(beh, "z80", r)
        jobs.append({"sources": {"a.asm": src}, "opts": opts,
                     "env": {"ASL_VERIF_EXTRA_PASSES": "1", "ASL_VERIF_MAX_PASSES": PASS_CAP}})
        meta.append((beh, src, opts))
    with Phase("forced extra pass on %d programs" % len(jobs)):
        results = aslrun.assemble_many(bld, jobs)
    for (beh, src, opts), res in zip(meta, results):
        rep.evaluated()
        got = symrender.words_of(res, "z80")
        exp = beh["exp"]["words"]
        if res.rc != 0 or got is None or len(got) != len(exp):
            rep.violation("a forced further pass breaks a clean program (rc=%s, words %s)" % (res.rc, got),
                          case={"prog": beh["prog"], "cs": beh["cs"]}, files={"a.asm": src},
                          key={"kind": "extra_pass", "cause": "", "devs": ""})
            continue
        bad = [k for k, w in enumerate(exp) if w["definite"] and w["v"] != got[k]]
        if bad:
            rep.violation("a forced further pass changes a resolution the manual is definite about: word %d %d -> %d"
                          % (bad[0], exp[bad[0]]["v"], got[bad[0]]), case={"prog": beh["prog"], "cs": beh["cs"]},
                          files={"a.asm": src}, key={"kind": "extra_pass", "cause": "", "devs": ""})
        elif got != beh["mach"]["extra"]:
            rep.drift("extra pass: words %s, machine predicts %s for %r" % (got, beh["mach"]["extra"], src[:300]))
    rep.traces(len(jobs))
    rep.part("extra_pass", runs=len(jobs))


# ----------------------------------------------------------------------------------------------------------
# (V)
# ----------------------------------------------------------------------------------------------------------
def validate_generated(rep, bld, behs, tier):
    if not bld.hooks:
        return
    limit = 500 if tier == "quick" else 6000
    r0 = rng("c13/tracesel")
    pool = [b for b in behs if not b["exp"]["silent"]]
    if len(pool) > limit:
        long_ones = [b for b in pool if b["src"].startswith("Symbols_Sim")]
        rest = [b for b in pool if not b["src"].startswith("Symbols_Sim")]
        r0.shuffle(rest)
        pool = (long_ones + rest)[:limit]
    jobs = []
    for beh in pool:
        r = rng("c13/%s/z80" % _key(beh))
        src, opts, _ = symrender.render(beh, "z80", r)
        jobs.append({"sources": {"a.asm": src}, "opts": opts, "events": "file,stmt,sym,ref",
                     "env": {"ASL_VERIF_MAX_PASSES": PASS_CAP}})
    with Phase("record %d traces" % len(jobs)):
        results = aslrun.assemble_many(bld, jobs)
    execs, owner, unaligned = [], [], 0
    for beh, job, res in zip(pool, jobs, results):
        ev = symrender.trace_events(beh, res.trace or [])
        if ev is None:
            unaligned += 1
            continue
        # the machine that the assembler is expected to be on this text: the pinned one, unless the replay showed
        # that the tree conforms to the manual on a text with a deviation pattern (a repaired tree)
        execs.append(ev)
        owner.append((beh, job["sources"]["a.asm"], res))
    if unaligned:
        rep.drift("%d of %d recorded traces could not be aligned line by line with their program" % (unaligned, len(pool)))

    pinned = ["popv_const", "dd_same_name", "empty_macro_nested"]

    def run(items, devs):
        xs = [[dict(ev[0], devs=devs)] + ev[1:] for ev in items]
        return tracecheck.validate("Symbols_Trace", xs, reset={"a": "RESET", "cs": False, "devs": []},
                                   timeout=1700, mem="6g")
    with Phase("validate %d executions" % len(execs)):
        # all recordings against the machine with those deviations of the pinned tree that the replay of the witness
        # texts has just seen the tree exhibit (none on a repaired tree).  A text with a deviation pattern that is
        # still rejected is taken out and tried with the other machines.
        pinned_all = pinned
        pinned = [d for d in pinned_all if d in TREE_DEVS]
        todo = list(range(len(execs)))
        tot = [0, 0, 0]
        fail = None
        nval = 0
        for _round in range(14):
            v = run([execs[i] for i in todo], pinned)
            tot = [tot[0] + v.events, tot[1] + v.states, tot[2] + v.generated]
            if v.accepted:
                nval += len(todo)
                break
            i = todo[v.fail_exec]
            devs = owner[i][0]["exp"]["devs"]
            ok = False
            for cd in ([pinned_all, [d for d in pinned_all if d not in devs]]
                       + [[d for d in pinned_all if d != x] for x in devs]) if devs else []:
                w = run([execs[i]], cd)
                tot = [tot[0] + w.events, tot[1] + w.states, tot[2] + w.generated]
                if w.accepted:
                    ok = True
                    break
            if not ok:
                v.fail_exec = i
                fail = v
                break
            nval += 1
            todo.remove(i)
        else:
            rep.drift("trace validation stopped after 14 rounds of peeling recordings of repaired behaviour; %d not "
                      "validated" % len(todo))
        if fail is None:
            v.accepted = True
        v.events, v.states, v.generated = tot
        v.executions = nval
    rep.part("Symbols_Trace(generated)", machine_devs=pinned, events=v.events, executions=v.executions, accepted=v.accepted,
             distinct_states=v.states, wall_s=v.wall)
    rep.cov["states"] += v.states
    rep.cov["transitions"] += v.generated
    rep.traces(v.executions)
    if not v.accepted:
        beh, src, res = owner[v.fail_exec]
        ev = execs[v.fail_exec]
        fe = v.fail_event
        what = "the recorded symbol events of event %d are not a step of the Symbols machine: %r" % (v.fail_index, fe)
        # a resolution / definition the machine does not allow is a property-level mismatch when it concerns a found
        # symbol; differences in bookkeeping of erroneous statements are drift
        prop = fe.get("a") == "STMT" and not fe.get("err") and any(o["out"] in ("defined", "forward", "new") for o in fe.get("obs", []))
        if prop:
            rep.violation(what, case={"prog": beh["prog"], "cs": beh["cs"], "event": fe, "index": v.fail_index},
                          files={"a.asm": src, "events.json": __import__("json").dumps(ev, indent=0)},
                          key={"kind": "trace", "cause": "", "devs": "+".join(sorted(beh["exp"]["devs"]))})
        else:
            rep.drift(what + " in " + repr(src[:300]))


SECT_OPS = {"SECTION", "ENDSECTION", "FORWARD", "PUBLIC", "GLOBAL"}


def corpus_events(t, res, cs):
    """hook records of one golden program -> Symbols_Trace events (corpus form)"""
    import re
    fold = (lambda x: x) if cs else (lambda x: x.upper())
    out = [{"a": "RESET", "cs": cs, "devs": ["popv_const", "dd_same_name", "empty_macro_nested"]}]
    npass = 0
    pend, split = [], None
    uses = False
    between = False
    frames = []          # input tags above the main file: "inc" (INCLUDE) or "exp" (macro call, REPT, IRP, WHILE body)
    for ev in res.trace:
        e = ev["e"]
        if e == "pass_begin":
            npass += 1
            if npass > 1:
                out.append({"a": "PASS"})
            pend, split, frames = [], None, []
            between = False
        elif e == "pass_end":
            pend = []
            between = True
        elif e == "split":
            split = ev
        elif e == "sym_def" and (npass == 0 or between):
            # symbols the assembler predefines before / between the passes (MOMCPU, flags, ...)
            if ev.get("typ") == 1:
                out.append({"a": "LINE", "obs": [symrender._obs(ev, False)], "forms": [], "lenient": False})
        elif e in ("sym_def", "sym_ref") and npass:
            if ev.get("typ") == 1:
                pend.append(ev)
        elif e == "stmt":
            op = ev["op"].upper()
            args = [a["a"] for a in (split or {}).get("args", [])]
            was_in_expansion = "exp" in frames
            while len(frames) > max(0, ev["tagd"] - 1):
                frames.pop()
            while len(frames) < ev["tagd"] - 1:
                frames.append("inc" if op == "INCLUDE" else "exp")
            if ev["rec"]:
                pend = []
                continue
            live = ev["ifasm"] or ev["wasif"]
            if not live and not pend:
                continue
            if not live:
                op = ""
            if op == "SECTION" and len(args) == 1 and "{" not in args[0]:
                uses = True
                out.append({"a": "SECT", "n": fold(args[0]), "sed": ev["sed"], "errs": ev["errs"]})
            elif op == "ENDSECTION" and len(args) <= 1:
                out.append({"a": "ENDSECT", "n": fold(args[0]) if args else "", "sed": ev["sed"]})
            elif op in ("FORWARD", "PUBLIC", "GLOBAL") and ev["sed"] > 0:
                for a in args:
                    n, _, q = a.partition(":")
                    q = q.strip()
                    m = re.fullmatch(r"(?i)parent(\d?)", q)
                    qq = ({"t": "glob"} if q == "" else {"t": "parent", "d": int(m.group(1) or 1)} if m
                          else {"t": "name", "n": fold(q)})
                    out.append({"a": "PP", "k": op, "n": fold(n.strip()), "q": qq})
            elif pend:
                raw = (split or {}).get("raw", "")
                forms = []
                for m in re.finditer(r"\[([^\]\[]*)\]", raw):
                    q = m.group(1).strip()
                    mm = re.fullmatch(r"(?i)parent(\d?)", q)
                    forms.append({"t": "glob"} if q == "" else {"t": "parent", "d": int(mm.group(1) or 1)} if mm
                                 else {"t": "name", "n": fold(q)})
                # inside a macro expansion / REPT body the hooks cannot tell the macro-local tree from the global one
                lenient = was_in_expansion
                out.append({"a": "LINE", "obs": [symrender._obs(o, False) for o in pend], "forms": forms,
                            "lenient": bool(lenient)})
            pend = []
    return out if uses else None


def validate_corpus(rep, bld):
    if not bld.hooks:
        return
    tests = [t for t in aslrun.corpus() if _uses_section(t)]

    def one(t):
        import shutil
        res = aslrun.assemble_corpus(bld, t, events="file,stmt,sym,ref,line,split")
        shutil.rmtree(res.dir, ignore_errors=True)
        return t, res
    with Phase("corpus traces (%d programs with SECTION)" % len(tests)):
        got = pmap(one, tests)
    execs, names = [], []
    judged = lenient = 0
    for t, res in got:
        if not res.trace:
            continue
        cs = "-U" in t[3] or "-u" in t[3]
        ev = corpus_events(t, res, cs)
        if ev:
            execs.append(ev)
            names.append(t[0])
            for e in ev:
                if e["a"] == "LINE":
                    if e["lenient"]:
                        lenient += len(e["obs"])
                    else:
                        judged += len(e["obs"])
    if not execs:
        rep.drift("no golden program with SECTION produced a trace")
        return
    v = tracecheck.validate("Symbols_Trace", execs, reset={"a": "RESET", "cs": False, "devs": []}, timeout=1700,
                            mem="6g")
    rep.part("Symbols_Trace(corpus)", programs=names, events=v.events, accepted=v.accepted, judged_observations=judged,
             recorded_only_in_expansions=lenient, distinct_states=v.states, wall_s=v.wall)
    rep.cov["states"] += v.states
    rep.cov["transitions"] += v.generated
    rep.traces(v.executions)
    if not v.accepted:
        rep.drift("corpus program %s: %s" % (names[v.fail_exec], v.detail[:600]))


def _uses_section(t):
    import glob
    import re
    pat = re.compile(rb"(?im)^\S*\s+section\s+\S")
    for f in glob.glob(os.path.join(t[1], "*")):
        if f.lower().endswith((".asm", ".inc")):
            try:
                with open(f, "rb") as fh:
                    if pat.search(fh.read()):
                        return True
            except OSError:
                pass
    return False


# ----------------------------------------------------------------------------------------------------------
def main(tier):
    rep = Report(PID, tier)
    bld = build.get("hook")
    rep.assumptions += ["TLC explores the Symbols design only up to the stated bounds",
                        "renderer, code-file reader and the line-by-line grouping of hook records (Python) are trusted; "
                        "expected values, expected errors and the acceptance of traces are TLC's",
                        "hooks: %s" % ("sym_def/sym_ref/stmt events" if bld.hooks else "unavailable (replay only)")]
    model_check(rep, tier)
    keep = []
    r0 = rng("c13/keep")
    for name, behs in generate(rep, tier):
        replay_all(rep, bld, behs, tier)
        for b in behs:
            b["exp"].pop("kinds", None)
        if name.startswith("Symbols_Sim") or tier == "quick":
            keep += behs
        else:
            keep += r0.sample(behs, min(len(behs), 1500))
    extra_pass(rep, bld, [b for b in keep if b["src"].startswith("Symbols_Sim")] if tier == "quick" else keep)
    validate_generated(rep, bld, keep, tier)
    validate_corpus(rep, bld)
    return rep.finish(
        rule="programs = every text up to 3 (thorough 4) statements over the alphabet of each focus area (TLC BFS, "
             "every prefix) + every FORWARD/PUBLIC/GLOBAL argument list up to 2 (thorough 3) arguments with every "
             "combination of per-argument destinations in a nest of 3-4 sections, probed from every level + "
             "TLC-simulated texts of 20-40 statements (section depth <= 4, two spellings per name, "
             "with and without -U), each rendered for z80 and 68000; distinct = distinct rendered source; "
             "non-trivial = contains a reference, a temporary reference or PUSHV/POPV", exhaustive=False)


def replay(path):
    import json
    v = json.load(open(os.path.join(path, "violation.json")))
    bld = build.get("hook")
    src = open(os.path.join(path, "a.asm")).read()
    case = v.get("case") or {}
    opts = case.get("opts") or (["-q", "-cpu", "z80"] + (["-U"] if case.get("cs") else []))
    dia = case.get("dialect", "z80")
    res = aslrun.assemble(bld, {"a.asm": src}, opts=opts)
    log("replay: asl %s -> rc=%s sig=%s\n%s%s" % (" ".join(opts), res.rc, res.sig, res.out, res.err))
    log("data words: %s" % symrender.words_of(res, dia))
    if case.get("expected"):
        log("expected (TLC, spec/Symbols.tla Expect): err=%s words=%s" % (case["expected"]["err"],
                                                                         [w["v"] for w in case["expected"]["words"]]))
    log("recorded: %s" % v["what"])
    return 0
