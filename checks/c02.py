"""C02 - Exit status, code file and reported errors always agree.

Specification: spec/Diag.tla (counter protocol of asmerr.c: WrErrorString, WrXErrorPos, EXPECT, user
WARNING/ERROR/FATAL) + spec/Driver.tla (run driver of as.c: pass loop, unlink on errors, GlobErrFlag, exit
status, fatal stop), step machine spec/Driver_MC.tla.

(M) TLC, exhaustively for every sequence of <= 3 (thorough 4) line classes out of 20 (ok, internal/user warning,
    error, fatal, forward reference (second pass), undefined symbol (error only in the second pass), EXPECT/ENDEXPECT, REPT bursts of 2/255/256/65535/65536/65537
    faulty lines) x 16 combinations of -Werror / -maxerrors {0..3} / -w, and for two-file runs of <= 2 classes:
    status = 0 <=> nothing of class error/fatal was written; status 0 keeps every code file; a file with written
    errors keeps none; fatal <=> status 3; summary counts = lines written in the last pass; warnings are harmless
    without -Werror; the machine equals the fold Outcome() that is exported for replay and the declarative
    reading of the text (DeclFile).  Diag_MC: the closed form used for bursts equals the n-fold recursion.
    Driver_MC_Wrap.cfg models the counters as coded (16 bit `Word`): TLC must find the status-0-after-65536-errors
    counterexample there (reported as information; it is the known defect of the pinned tree).
    Driver_MC_Jump.cfg: the JUMP-ERROR DISCARD protocol (asmerr.c JmpErrors, asmpars.c SymbolAdder, option -Y): line
    classes tjmp (TransientJumpErr: a short branch that is out of range only in pass 2, while its body shrinks) and
    pjmp (out of range for good), with JmpErrors, Repass and -Y as explicit Diag/Driver state (WrJumpError,
    LabelMoved, JumpStep; the pass loop runs as long as the model says, up to 6 passes) x -Y x -maxerrors x -Werror:
    the clauses above with "reported" = written and not discounted, and NoDiscardWithoutY (without -Y every written
    jump error stays counted).
(G) Driver_Gen: transition cover of the option x counter x open-EXPECT state graph; for every "append line class"
    transition TLC prints the run (1-2 files) together with Outcome(opts, files): exit status, kept code files,
    summary counts, number of error / warning / fatal lines on the error channel.  Rendered in two dialects
    (Z80, 8051) under seed-chosen report options (-q, -x, -x -x, -n, -gnuerrors, -L, -E !1 | -E file | -E | default)
    and run through the real asl.  Verdict-bearing: wait status, existence of <name>.p, channel line counts,
    `N error(s)` / `N warning(s)` summary (when not -q) - all compared with what TLC printed.
(V) Driver_Trace: the hook records (file_begin/pass_begin/diag/stmt/pass_end/file_end) of the replayed runs and of
    all 201 golden programs plus the observed exit status / code files are validated by TLC against the same
    operators with unbounded counters (classification, counters before each message, loop and unlink decisions,
    exit status).

    Driver_Gen_Jump.cfg: cover of the jump family (1-2 files, <= 3 line classes, with / without -Y), rendered for 6502
    and 68HC11 (targets that choose zero-page / direct addressing themselves), same report options, same comparison
    (the channel counts include the error lines of intermediate passes, the summary and status follow the model).
    quick: every one-file run + a seeded sample of the two-file runs (3000), thorough: all 24 k.

    EXPECT BLOCKS AROUND JUMP ERRORS (Driver_MC_JumpX.cfg / Driver_Gen_JumpX.cfg; added after a seeded change went
    unnoticed: JmpErrors++ moved in front of FindAndTakeExpectError, so that under -Y an EXPECTed - never written, never
    counted - jump error was still discounted from ErrorCount when a label moved later in the pass: "4294967295
    errors", status 2, no code file, not one diagnostic).  The covers above had EXPECT blocks (number 1200 only) and
    jump errors under -Y, but never an EXPECT block around a jump error: a forward branch never raises its error in
    pass 1, so its block fails there, and an unannounced error of pass 1 ends the file.  New dimension = what the
    announcement of a block is for x the jump family x -Y x pending repass x a label that moves later in the pass:
    line classes bjmp (backward branch out of range: error 1370 in EVERY pass, remembered in JmpErrors iff no repass
    is pending), bpage (constant target on another page: error 1910, the second number of the family; 65C19 `jsb`),
    shrink (a label that moves in pass 2 without any diagnostic of its own: forward reference to a zero-page cell),
    and a wrapper on every jump class: bare | EXPECT <its number> .. ENDEXPECT | EXPECT <the other jump number> ..
    ENDEXPECT; `undef` supplies a genuine error that first shows in pass 2 (a discount of too much would cancel it).
    Driver.tla also learnt where labels stand (Discover: a statement that emits no code in pass 2 - undef - moves the
    NEXT label, e.g. the target in front of a bjmp); Diag.tla WrJumpErrorN states the order of the filters
    (ExpectedJumpNotRemembered).  (M) every sequence of <= 3 (thorough 4) of the 13 classes x -Y x -maxerrors {0,2},
    same invariants as Driver_MC_Jump.cfg.  (G) the cover by TEXT (view = the lines themselves, since here the place of
    every label matters), rendered for 6502 / 68HC11 / 65C19 (vlib/drvjumpx.py): quick a seeded sample of 2500 of the
    7.4 k runs with a new class (about 3 % of them expose the seeded change), thorough all of them plus a sample of
    25000 of the 93 k four-line runs.  Hook traces of the runs without -Y go through Driver_Trace like the others.

    WHAT A BLOCK ANNOUNCES x THE FILTERS BEHIND THE EXPECT TEST (Driver_MC_ExpN.cfg / Driver_Gen_ExpN.cfg; the same
    dimension seen from the other filters of WrXErrorPos - the seeded change was a reordering of that chain): `expect`
    with f = "warn" announces the internal warning 290 of class warn; <= 4 classes out of {ok, warn, err, fwd, expect
    1200, expect 290, endexpect} x -Werror x -w x -maxerrors {0,2}: an announced warning is consumed before -w and
    -Werror are looked at (Diag.tla ExpectedFirst), a block for 290 does not swallow 1200 and vice versa.  Transition
    cover, Z80 / 8051; quick: seeded sample of 1000 of the 1.5 k runs that contain `expect 290`, thorough all.
    Mutation tried: the -w test moved in front of FindAndTakeExpectError - reported (3 % of the runs).

    WHERE DIAGNOSTICS ARE WRITTEN (extension "diagdest": checks/ext_diagdest.py, spec/DiagDest.tla, DiagDest_MC.tla, cfgs
    DiagDest_MC / _All / _2f / _dev (quick) and DiagDest_MC4 / _All3 / _2f3 (thorough); last phase of main(), its TLC runs
    are started at the beginning and work in the background; added after a seeded change went unnoticed: the `!ListOn`
    term dropped from the test in WrErrorString that sends a message to the error channel - with -l a diagnostic raised
    inside LISTING OFF was counted, summarised, decided status 2 and was written nowhere).  The covers above had -L as a
    seed-chosen report option only, no listing-control statement, and looked at the error channel alone.  New dimension
    = listing destination {none, -l console, -L file, -L -olist name} x the listing-control state of the source at the
    moment of the message (LISTING OFF / ON / NOSKIPPED / PURECODE, SAVE / RESTORE of it, reset per pass and file) x class
    of the message x -Werror x -maxerrors x -w x one / two passes; "reported" and "the totals equal the diagnostics
    emitted" are judged on every channel the option set selects (error channel of -E and the listing; a message in the
    listing file and on the error channel is one message).  (M) every run of <= 3 (thorough 4) line classes: the C02
    clauses over the emitted messages, NothingLost, the manual's -E without -l, DeclDest (declarative reading of the
    text); DiagDest_MC_dev.cfg (the test without `!ListOn`) must be refuted.  (G) every run printed with LOutcome, quick
    6 000 replayed (Z80 / 8051, seed-chosen -q -x -n -gnuerrors -E).  Details, bounds, mutations: docstring of
    ext_diagdest.py.

Bounds / not covered: a block holds exactly one statement of the jump family (a mover INSIDE a block is not generated);
EXPECT lists of several numbers and EXPECT of other error numbers are not generated; EXPECT of a FATAL number is not
generated either (probing showed that `expect 10001` / `include "missing.inc"` / `endexpect` makes asl loop forever:
the swallowed fatal error lets INCLUDE go on with a file that was never opened - a C03 matter, reported there); line classes are fixed representative lines (unknown mnemonic, `ds 0`, include of a missing
file, ERROR/WARNING/FATAL); +G, -t / PAGE / MACEXP (shape of the listing), I/O errors (unwritable output, disk full) and message languages other than C are not
exercised; at most 2 files and 2 passes in the model.  Renderer, tokeniser and comparison in Python are trusted.

Finding on the tree as originally pinned: `Word ErrorCount, WarnCount` wrap at 65536 (REPT 65536 of a faulty line:
status 0, code file kept, summary "0 errors") -> known_findings/C02.json, proposed_fixes/C02-wide-counters.diff
(applied to /repo by the coordinator; on a tree without it the check prints KNOWN-FINDING/VIOLATION again).

Mutations of the real code (selftest/b218_mutants.py, scratch copies, all compile; `./check C02 --selftest`), every one
reported as VIOLATION by the quick tier: -Werror reclassification disabled; `return GlobErrFlag ? 2 : 0` -> 0;
`unlink(OutName)` after errors removed; `exit(3)` -> `exit(2)`; -maxerrors test `>=` -> `>`; -w also swallowing
errors; user WARNING counted as error; summary printing errors+warnings; GlobErrFlag set only for one-pass files
(needs the `undef` class: error in pass 2); an EXPECTed error still counted; the -Y guard of the jump-error discount
turned into `ThrowErrors || ...` (discount without -Y), into "never" (no discount with -Y), JmpErrors never counted;
JmpErrors++ moved in front of the EXPECT filter (needs the JumpX cover: 60-80 VIOLATION lines in the quick tier).  Trace corruptions (counter, class,
kept flag, exit status, IfAsm/stale pointers at file_begin, CPU at pass_begin, a removed pass_begin) are rejected
by Driver_Trace.
"""
import json
import os
import shutil

from vlib import aslrun, build, drvjumpx, drvrender, drvrun, drvtrace, tlc
from vlib.common import CheckError, Phase, log, pmap, rng
from vlib.report import Report

PID = "C02"
COLLECT = (".p", ".log", ".txt", ".lst")
QUICK_JUMP = 3000    # quick tier: every one-file run of the jump cover, a seeded sample of the two-file runs
QUICK_JUMPX = 2500   # quick tier: seeded sample of the runs of the JumpX cover (EXPECT blocks around jump errors)
THOROUGH_JUMPX4 = 25000   # thorough tier: seeded sample of its four-line runs (all runs of <= 3 lines are replayed)
QUICK_EXPN = 1000    # quick tier: seeded sample of the runs of the ExpN cover that contain `expect 290`
QUICK_SMALL = 9000   # quick tier: seeded sample of the cover if it is larger than this
BIG = 255            # a REPT burst of at least this many lines is "big" (sampled in the quick tier)


def report_vector(r):
    return {"q": r.random() < 0.5, "x": r.choice([0, 0, 1, 2]), "n": r.random() < 0.3, "gnu": r.random() < 0.3,
            "E": r.choice(["stderr", "stderr", "stdout", "file", "log"]), "L": r.random() < 0.25}


def is_big(tr):
    return any(ln["n"] >= BIG for f in tr["files"] for ln in f)


def make_job(tr, rv, dialect, events=None):
    o = dict(tr["o"])
    o.update(rv)
    names = ["f%d.asm" % (i + 1) for i in range(len(tr["files"]))]
    files = {n: drvjumpx.render_file(ls, dialect, i + 1) for i, (n, ls) in enumerate(zip(names, tr["files"]))}
    big = is_big(tr)
    return {"files": files, "argv": drvrender.render_argv(o, names), "collect": COLLECT,
            "events": events, "timeout": 180 if big else 30, "_o": o, "_names": names}


def observe(job, res):
    return drvrender.observe(job["_o"], job["_names"], res)


def expected(tr, o):
    return drvrender.expected(tr, o)


def jmpleak(tr):
    """the class of runs in which a stale JmpErrors counter can matter: -Y, and a jump error in an earlier file"""
    fs = tr["files"]
    return bool(tr["o"].get("throw")) and len(fs) > 1 and any(
        ln["k"] in ("tjmp", "pjmp") for f in fs[:-1] for ln in f)


def wrap16(tr):
    return any(f["emE"] >= 65536 or f["emW"] >= 65536 for f in tr["exp"]["files"])


def judge(rep, tr, job, res, dialect):
    if res.timeout or res.sig is not None:
        rep.violation("asl did not end normally (signal=%s timeout=%s)" % (res.sig, res.timeout), case=tr,
                      files=dict(job["files"], argv=" ".join(job["argv"])), key={"kind": "crash"})
        return False
    exp = expected(tr, job["_o"])
    obs = observe(job, res)
    if obs == exp:
        return True
    kinds = [k for k in ("rc", "kept", "summary", "chan") if obs[k] != exp[k]]
    what = ("run %s of %d file(s) [%s]: expected (TLC, Driver.tla) %s, observed %s"
            % (" ".join(job["argv"]), len(job["_names"]), dialect, json.dumps(exp), json.dumps(obs)))
    files = dict(job["files"])
    files["argv"] = " ".join(job["argv"])
    files["dialect"] = dialect
    files["stdout.txt"] = res.out[-4000:]
    files["stderr.txt"] = res.err[-4000:]
    rep.violation(what, case=tr, files=files, key={"kind": "+".join(kinds), "wrap16": wrap16(tr), "jmpleak": jmpleak(tr)})
    return False


def kept_flags(job, res, trace):
    n = drvtrace.count_files(trace)
    return [(name[:-4] + ".p") in res.files for name in job["_names"][:n]]


def model_checks(rep, tier):
    runs = [("Driver_MC", "Driver_MC.cfg" if tier == "quick" else "Driver_MC4.cfg"),
            ("Driver_MC", "Driver_MC_2f.cfg"), ("Driver_MC", "Driver_MC_Jump.cfg"), ("Diag_MC", "Diag_MC.cfg"),
            ("Driver_MC", "Driver_MC_JumpX.cfg" if tier == "quick" else "Driver_MC_JumpX4.cfg"),
            ("Driver_MC", "Driver_MC_ExpN.cfg")]
    if tier != "quick":
        runs.append(("Diag_MC", "Diag_MC_Wrap8.cfg"))      # closed forms also describe wrapping counters
    def one(mc):
        mod, cfg = mc
        return tlc.must(tlc.run(mod, cfg, workers=2, timeout=1500, mem="6g", collect=False), "%s(%s)" % (mod, cfg))
    with Phase("TLC model checks"):
        rs = pmap(one, runs, workers=4)
    for (mod, cfg), r in zip(runs, rs):
        if r.violation:
            raise CheckError("the design %s(%s) violates its own invariants: %s" % (mod, cfg, r.violation[:800]))
        rep.model("%s(%s)" % (mod, cfg), r)
    # the counters as coded: the model must reproduce the defect (otherwise the model does not describe the code)
    r = tlc.must(tlc.run("Driver_MC", "Driver_MC_Wrap.cfg", workers=1, timeout=600, mem="4g", collect=False),
                 "Driver_MC(Wrap)")
    rep.part("Driver_MC(Driver_MC_Wrap.cfg)", expected_counterexample=bool(r.violation), distinct_states=r.distinct,
             note="16-bit counters as coded on the pinned tree: StatusZeroIffNoError must fail (65536 errors)")
    if not r.violation or "StatusZeroIffNoError" not in r.violation:
        raise CheckError("the 16-bit counter model does not reproduce the wrap-around: %r" % (r.violation or "")[:300])


def main(tier):
    rep = Report(PID, tier)
    bld = build.get("hook")
    rep.assumptions += ["TLC explores the Driver/Diag design only up to the stated bounds",
                        "renderer, tokeniser of the error channel / summary and the equality test (Python) are trusted",
                        "hooks: %s" % ("file/diag/stmt events" if bld.hooks else "unavailable (black-box replay only)")]
    from checks import ext_diagdest          # extension "diagdest": WHERE diagnostics are written (-l / -L / -olist x LISTING)
    dd = ext_diagdest.start(tier)            # its TLC runs work in the background and are joined in the last phase
    model_checks(rep, tier)

    # (G) ---------------------------------------------------------------------------------------
    with Phase("TLC Driver_Gen cover + jump covers"):
        cov, covj, covx, covn = pmap(
            lambda c: tlc.must(tlc.run("Driver_Gen", c, workers=1, timeout=1500, mem="8g"), "Driver_Gen(%s)" % c),
            ["Driver_Gen.cfg" if tier == "quick" else "Driver_Gen4.cfg", "Driver_Gen_Jump.cfg",
             "Driver_Gen_JumpX.cfg" if tier == "quick" else "Driver_Gen_JumpX4.cfg", "Driver_Gen_ExpN.cfg"], workers=4)
    rep.model("Driver_Gen(cover)", cov)
    trs = [b for (tag, b) in cov.printed if tag == "TR"]
    if not trs:
        raise CheckError("Driver_Gen printed no behaviours")
    small = [t for t in trs if not is_big(t)]
    if tier == "quick" and len(small) > QUICK_SMALL:
        # every one-file run, a seeded sample of the two-file runs
        one = [t for t in small if len(t["files"]) == 1]
        two = [t for t in small if len(t["files"]) != 1]
        rng("c02/small").shuffle(two)
        small = one + two[:max(0, QUICK_SMALL - len(one))]
    bigs = [t for t in trs if is_big(t)]
    r = rng("c02")
    nbig = 72 if tier == "quick" else 1500
    # every boundary class x every option class at least once, the rest seed-chosen
    r.shuffle(bigs)
    seen, pick = set(), []
    for t in bigs:
        k = (tuple(sorted((ln["k"], ln["n"]) for f in t["files"] for ln in f if ln["n"] >= BIG)),
             t["o"]["werror"], t["o"]["maxerr"] > 0, t["o"]["suppw"])
        if k not in seen:
            seen.add(k)
            pick.append(t)
    pick += [t for t in bigs if t not in pick][:max(0, nbig - len(pick))]
    bigs = pick[:max(nbig, len(seen))] if tier == "quick" else pick
    rep.part("generation", behaviours=len(trs), small=len(small), big_available=len(pick), big_run=len(bigs))
    jobs = []
    nvec = 1 if tier == "quick" else 2
    for i, t in enumerate(small):
        for v in range(nvec):
            rr = rng("c02/%d/%d" % (i, v))
            dialect = "z80" if (i + v) % 2 == 0 else "8051"
            jobs.append((t, make_job(t, report_vector(rr), dialect, events="file,diag,stmt"), dialect))
    for i, t in enumerate(bigs):
        rr = rng("c02/big/%d" % i)
        dialect = "z80" if i % 2 == 0 else "8051"
        rv = report_vector(rr)
        rv["x"] = 0                      # keep 65 k-line outputs small
        rv["L"] = False
        jobs.append((t, make_job(t, rv, dialect, events="file,diag,stmt" if i < 6 else None), dialect))
    # the jump-error discard protocol (JmpErrors / -Y / Repass): its own cover, targets that size operands themselves
    rep.model("Driver_Gen(jump cover)", covj)
    jtrs = [b for (tag, b) in covj.printed if tag == "TR" and any(ln["k"] in ("tjmp", "pjmp") for f in b["files"] for ln in f)]
    if not jtrs:
        raise CheckError("Driver_Gen_Jump printed no behaviours")
    navail = len(jtrs)
    if tier == "quick" and len(jtrs) > QUICK_JUMP:
        one = [t for t in jtrs if len(t["files"]) == 1]
        two = [t for t in jtrs if len(t["files"]) != 1]
        rng("c02/jump").shuffle(two)
        jtrs = one + two[:max(0, QUICK_JUMP - len(one))]
    rep.part("generation_jump", behaviours=navail, run=len(jtrs))
    for i, t in enumerate(jtrs):
        rr = rng("c02/jump/%d" % i)
        dialect = drvrender.JUMP_DIALECTS[i % len(drvrender.JUMP_DIALECTS)]
        # hook traces only without -Y: Driver_Trace replays the counters without the discount
        ev = "file,diag,stmt" if (not t["o"]["throw"] and i % 3 == 0) else None
        jobs.append((t, make_job(t, report_vector(rr), dialect, events=ev), dialect))
    # EXPECT blocks around jump errors (bjmp / bpage / shrink, wrappers): the cover by text; only its runs with a class
    # the jump cover above does not have
    rep.model("Driver_Gen(jumpx cover)", covx)
    xtrs = [b for (tag, b) in covx.printed if tag == "TR" and any(drvjumpx.has_new(f) for f in b["files"])]
    if not xtrs:
        raise CheckError("Driver_Gen_JumpX printed no behaviours")
    navail = len(xtrs)
    if tier == "quick":
        if len(xtrs) > QUICK_JUMPX:
            rng("c02/jumpx").shuffle(xtrs)
            xtrs = xtrs[:QUICK_JUMPX]
    else:
        short = [t for t in xtrs if len(t["files"][-1]) <= 3]
        four = [t for t in xtrs if len(t["files"][-1]) > 3]
        rng("c02/jumpx").shuffle(four)
        xtrs = short + four[:THOROUGH_JUMPX4]
    rep.part("generation_jumpx", behaviours=navail, run=len(xtrs))
    for i, t in enumerate(xtrs):
        rr = rng("c02/jumpx/%d" % i)
        ds = drvjumpx.dialects_for(t["files"])
        dialect = ds[i % len(ds)]
        ev = "file,diag,stmt" if (not t["o"]["throw"] and i % 3 == 0) else None
        jobs.append((t, make_job(t, report_vector(rr), dialect, events=ev), dialect))
    # what a block announces (expect 1200 | expect 290) x -w x -Werror x -maxerrors: only the runs with `expect 290`
    rep.model("Driver_Gen(expn cover)", covn)
    ntrs = [b for (tag, b) in covn.printed if tag == "TR" and any(drvjumpx.has_new(f) for f in b["files"])]
    if not ntrs:
        raise CheckError("Driver_Gen_ExpN printed no behaviours")
    navail = len(ntrs)
    if tier == "quick" and len(ntrs) > QUICK_EXPN:
        rng("c02/expn").shuffle(ntrs)
        ntrs = ntrs[:QUICK_EXPN]
    rep.part("generation_expn", behaviours=navail, run=len(ntrs))
    for i, t in enumerate(ntrs):
        rr = rng("c02/expn/%d" % i)
        dialect = "z80" if i % 2 == 0 else "8051"
        jobs.append((t, make_job(t, report_vector(rr), dialect, events="file,diag,stmt" if i % 3 == 0 else None), dialect))
    with Phase("replay %d runs" % len(jobs)):
        results = drvrun.run_many(bld, [j for (_, j, _) in jobs])
    execs, owners, late, late_owners = [], [], [], []
    for (t, job, dialect), res in zip(jobs, results):
        rep.evaluated()
        rep.distinct(json.dumps([job["files"], job["argv"]], sort_keys=True),
                     any(ln["k"] != "ok" for f in t["files"] for ln in f))
        ok = judge(rep, t, job, res, dialect)
        if res.trace is not None and (ok or wrap16(t)):
            (late if wrap16(t) else execs).append(drvtrace.to_events(res.trace, job["_o"], res.rc,
                                                                      kept_flags(job, res, res.trace)))
            (late_owners if wrap16(t) else owners).append(("generated", t, job))
    for (t, job, dialect) in jobs[:2] + jobs[-2:]:
        rep.sample({"options": job["argv"], "files": job["files"] if not is_big(t) else "(REPT burst) " +
                    json.dumps(t["files"]), "expected": expected(t, job["_o"])})
    rep.traces(len(jobs))

    # (V) ---------------------------------------------------------------------------------------
    if bld.hooks:
        tests = aslrun.corpus()

        def one(t):
            res = aslrun.assemble_corpus(bld, t, events="file,diag,stmt")
            shutil.rmtree(res.dir, ignore_errors=True)
            o = {"werror": "-Werror" in t[3], "suppw": "-w" in t[3]}
            return drvtrace.to_events(res.trace, o, res.rc, [res.p is not None] * drvtrace.count_files(res.trace))
        with Phase("corpus traces"):
            for t, ev in zip(tests, pmap(one, tests)):
                execs.append(ev)
                owners.append(("corpus", t[0], None))
        execs += late            # runs with >= 65536 diagnostics last: a rejection there hides nothing else
        owners += late_owners
        with Phase("validate %d executions" % len(execs)):
            rej, st = drvtrace.validate_all("Driver_Trace", "Driver_Trace.cfg", execs)
        rep.part("Driver_Trace", events=st["events"], executions=st["executions"], rejected=len(rej),
                 distinct_states=st["states"], wall_s=round(st["wall"], 2))
        rep.cov["states"] += st["states"]
        rep.cov["transitions"] += st["generated"]
        rep.traces(st["executions"])
        for (xi, ev, detail) in rej:
            kind, what, job = owners[xi]
            if ev.get("a") in ("DIAG", "USER", "PASSEND", "FILEEND", "EXIT"):
                w16 = kind == "generated" and wrap16(what)
                rep.violation("hook trace of a %s run rejected by Driver_Trace at %r (counter protocol / loop / "
                              "unlink / exit status differ from Diag+Driver)" % (kind, ev),
                              case=what if kind == "generated" else {"corpus": what},
                              files=(dict(job["files"], argv=" ".join(job["argv"])) if job and not is_big(what)
                                     else {"argv": " ".join(job["argv"]) if job else str(what)}),
                              key={"kind": "trace-" + ev.get("a", "?"), "wrap16": w16})
            else:
                rep.drift("%s run %s: %s" % (kind, what if kind == "corpus" else "", detail))
    ext_diagdest.run(rep, bld, tier, dd)
    return rep.finish(
        rule="runs = every 'append a line class' transition of the Driver_Gen state graph (options x counters x "
             "pending EXPECT x earlier-file-failed; 1-2 files of <= 3 (thorough 4) line classes), each printed by TLC "
             "with Outcome(opts, files); REPT bursts >= 255 lines: every (boundary class, option class) once plus a "
             "seeded sample in the quick tier, all in the thorough tier; rendered in Z80/8051 with seed-chosen report "
             "options; the jump covers (Driver_Gen_Jump: 1-2 files, Driver_Gen_JumpX: EXPECT blocks around jump errors, "
             "cover by text) in 6502 / 68HC11 / 65C19, Driver_Gen_ExpN (what a block announces x -w x -Werror), "
             "quick tier: seeded samples; extension diagdest (DiagDest_MC: every run of <= 3 line classes incl. LISTING / "
             "SAVE / RESTORE x listing destination none / -l / -L / -olist, printed with LOutcome; seeded sample per "
             "destination, Z80 / 8051); "
             "distinct = distinct (sources, argv); non-trivial = contains a line class other than ok",
        exhaustive=False)


def replay(path):
    v = json.load(open(os.path.join(path, "violation.json")))
    bld = build.get("hook")
    tr = v["case"]
    if os.path.exists(os.path.join(path, "phase")) and open(os.path.join(path, "phase")).read().strip() == "diagdest":
        from checks import ext_diagdest
        return ext_diagdest.replay(path, tr)
    argv = open(os.path.join(path, "argv")).read().split()
    dialect = open(os.path.join(path, "dialect")).read().strip() if os.path.exists(os.path.join(path, "dialect")) else "z80"
    names = [a for a in argv if a.endswith(".asm")]
    files = {n: drvjumpx.render_file(ls, dialect, i + 1) for i, (n, ls) in enumerate(zip(names, tr["files"]))}
    res = drvrun.run_job(bld, {"files": files, "argv": argv, "collect": COLLECT, "timeout": 180})
    log("replay: asl %s -> rc=%s\nstdout tail:\n%s\nstderr tail:\n%s" % (" ".join(argv), res.rc, res.out[-1500:], res.err[-1500:]))
    log("code files present: %s" % sorted(k for k in res.files if k.endswith(".p")))
    log("expected by the specification: %s" % json.dumps(tr["exp"])[:1500])
    log("recorded: %s" % v["what"][:1500])
    return 0


def selftest(tier):
    """binding demonstration: (a) corrupted hook traces are rejected by Driver_Trace, (b) stored mutations of the
    anchored code (selftest/b218_mutants.py, applied to scratch copies of the repository) make this check report
    VIOLATION.  quick: 3 mutants, thorough: all of this property."""
    import sys
    bld = build.get("hook")
    ok = drvtrace.selftest_corruptions(bld, log)
    sys.path.insert(0, os.path.join(os.path.dirname(os.path.dirname(os.path.abspath(__file__))), "selftest"))
    import b218_mutants
    mine = [n for n in b218_mutants.MUTANTS if n.startswith("c02_")]
    if tier == "quick":
        mine = mine[:3]
    for n in mine:
        name, check, verdict = b218_mutants.run(n)
        caught = "exit=1" in verdict
        log("selftest: mutant %-28s %s  %s" % (name, "CAUGHT" if caught else "MISSED", verdict))
        ok = ok and caught
    log("selftest %s: %s" % (PID, "passed" if ok else "FAILED"))
    return 0 if ok else 1
