"""C06 - P2HEX output decodes, with valid checksums, to the code file's contents.

Specification: spec/P2Hex.tla
  * public definitions of Motorola S (S0/S1/S2/S3/S5/S7/S8/S9), Intel HEX 8/16/32 (types 00-05, segment/linear
    extension, EOF variants -i 0..2), MOS Technology (per-line 16-bit sum, ;00 + record count), Tektronix (both
    hex-digit checksums), Atmel generic, C array as TLA+ predicates and decoders: LineValid, Structure, Decode;
  * Selected(case): what must come out (-f, -segment, -r incl. "$" ends, -a, -R, -m byte lanes, SEVERAL SOURCE
    FILES per call, each with or without its own "name(offset)" suffix: DeclOfs / RStart);
  * Verdict(case, lines): every line valid, terminator / count / entry fields right, Decode(lines) = Selected;
  * operational model of p2hex.c (GroupOf/Prologue/LineStep/Epilogue/Finish, Emit) with NAMED deviations of the
    pinned code (PinnedDevs); Emit(c, {}) is the behaviour after the proposed repairs.

(M) P2Hex_MC / P2Hex_Gen: the emitter machine run action by action (one action per data line) for every case of a
    bounded case space: records below/across 64 KiB, 1 MiB, 16 MiB, 1-2 records, granularity 1/2, formats x
    -l {2,5} x -M 1..3 x +5 x -i 0..2 x -m 0..3 x -a x -R {0,$10000(,-1)} x -r {auto, inner(, half-auto)} x -e
    x -avrlen x -cformat (thorough adds -s, DEFAULT format, DSK, more starts/lengths).  Invariants (repaired
    model): every line valid at every step, final Verdict.ok (Decode(Emit(x)) = Selected(x)), no line longer than
    -l, no Intel-16/32 line leaving its 64K segment/bank, machine = functional Emit.  Pinned model: every failure
    of the public verdict is attributable to a named deviation (InvPinnedExplained); P2Hex_MCpinnedFail is
    EXPECTED to violate InvVerdict (the model predicts the defects).
    Per-group state (FirstBank, IntOffset, HSeg, ChkSum, MotRecType, RecCnt, GrpLineLen) is explicit emitter
    state that survives a record group (st.loc) and is re-initialised by named steps of the prologue
    (InvGroupReset); the case space contains 2- and 3-record files whose first record ends exactly on (thorough:
    also one before / after) a 64 KiB, 1 MiB, 16 MiB boundary - in units and in bytes - followed by records in
    the same, the next and a lower bank.  P2Hex_MCcarryFirstBank / P2Hex_MCcarryRecCnt take one
    re-initialisation out and are EXPECTED to violate InvVerdict (the case space can see this defect class).
    SOURCE ARGUMENTS (added after a seeded change went unreported: RemoveOffset() in toolutils.c without its
    `*Offset = 0`, so that a file named WITHOUT "(offset)" was converted with the offset of the argument handled
    before it - every record and checksum valid, only the decoded addresses wrong; the case space had exactly one
    source file per call, so no state could travel from one file argument to the next).  A case now names a LIST
    of source files (c.files: records per file, suffix present?, offset, notation, entry record).  Declarative side:
    the offset in parentheses belongs to that name only, a name without one is not moved (manual: "This offset is
    simply appended to a file's name").  Operational side: ProcessGroup()/RemoveOffset() set the static CurrOffset
    per argument; the list is walked once (-r start-stop) or twice (a "$" end: MeasureFile walk, then ProcessFile
    walk; CurrOffset survives from the first walk into the second); ProcessFile()'s locals restart per file
    (AtFile), main()'s statics (S0 written, MaxMoto/MaxIntel, MOS record count, C block number, first entry
    address) run on.  Case space (FileCases): 2 files (thorough: also 3 files and files of 2 records) in every
    order x each argument as `name` / `name($0)` / `name(4096)` (thorough: / `name(0x10000)`) x window automatic /
    one "$" end / explicit x -a.  InvArgOffsets: in both walks every argument is handled with the offset behind ITS
    name.  P2Hex_MCcarryOffset takes the reset out (deviation "CarryOffset") and is EXPECTED to violate InvVerdict.
(G) every case of that case space is exported by TLC (P2Hex_Gen), rendered to a code file with the independent
    writer vlib.codefile.write (one code file per source argument, vlib/p2hexfiles.py), converted by the REAL
    p2hex; plus seeded larger cases (1-4 records up to 600 bytes, all option dimensions incl. -f, -segment, file
    offset, DEFAULT format over 20 CPU families, odd -l, one 65535-byte record for the Intel-16 segment wrap),
    seeded several-file cases (the records of such a case dealt to 2-3 files, arguments without / with "(0)" /
    with a moving offset in $hex, 0xhex or decimal notation, windows over the moved records with one or two walks)
    and the golden corpus' real .p files.
(V) the hex text is only tokenised (vlib/p2hexio.py: hex digit pairs -> integers; C text additionally parsed by
    `gcc -fsyntax-only` as an independent syntax oracle) and handed to TLC (P2Hex_Trace), which evaluates
    Verdict, the failure expectation and the attribution to named deviations.  Python reports what TLC decided.

Verdict-bearing: validity of every line by the public definition, structure (S5 count, S7/8/9 + entry, Intel
EOF/03/05, MOS record count, C len), Decode = Selected whenever the format can carry the addresses.
Diagnostics only (SPEC-DRIFT): exact line splitting vs. the operational model, -l odd rounded UP (manual: down),
C `_end` define for granularity > 1, missing Tektronix termination block.
NOT covered: TI-DSK and Mico8 are modelled structurally only (no public checksum definition offline; they are not in
the property's format list); addresses >= 2^30 (TLC integers); more than 3 source files per call, wildcards in a
source name (one argument, several files, directory order), an "(offset)" behind the TARGET name, several files with
DIFFERENT entry records and no -e (manual silent: not definite); -d, -k; big-endian hosts; stderr warnings; empty
(zero-length) records; mixed granularity / mixed default formats in one call;
-m >= 2 with Intel-16/32 and -m with non-Intel formats (manual: -m is for the Intel formats of the PICs).

Findings on the pinned tree d9f49b6 (known_findings/C06.json, proposed_fixes/C06-*.diff + .md), each reproduced with
the real binary and predicted by the pinned operational model (Emit(c, PinnedDevs)): MOS running checksum; MOS
terminator count constant 4; Tektronix byte sums instead of hex-digit sums; Intel-32 bank logic wrong for
granularity > 1; line length not rounded to whole address units for granularity 4/8 (wrong addresses, SIGSEGV with
-m 1); S-record count byte overflow for -l > 250..252; S-record type chosen before -R/-a; Intel-16 offset wrap for a
record > 64 KiB - 16; -r ignored for -segment != code.  The repairs have been applied to /repo (entries are
"fixed"): the check now passes without any finding and the real output equals Emit(c, {}) in every representable
case; taking a repair out again is reported as VIOLATION naming the deviation (selftest mutants r_*).  The pinned
model stays in the specification: it is what attributes a failure to a known cause instead of "unexplained".

Binding shown (./check C06 --selftest; selftest/c06_mutants.py):
 (a) corrupted recorded fields (checksum byte, removed line, address changed with a consistent checksum) of real
     Moto/Intel/Intel16/Intel32/Atmel/C outputs: all 18 rejected by TLC, the 6 unmodified ones accepted;
 (c) `FirstBank = False` removed from the Intel-32 group header (a record ending exactly on a 64 KiB boundary
     followed by another record gets a spurious :02000004): missed by the first version of this check (no
     exact-boundary multi-record cases), reported now (mutant m18_firstbank_carry).
 (b) source mutations of p2hex.c/headids.c on scratch copies (first run on the pinned tree, numbers below; the stored
     set selftest/c06_mutants.py applies to the repaired tree and adds r_* = each repair reverted) (all compile; ctest 201/201 as p2hex is not run by any
     test): S-record checksum `^ 0xff` -> `^ 0xfe` (2274 violations), S5 count +1 (694), Intel checksum without the +1
     (4432), Intel-32 `FirstBank = True` dropped (301), `ErgStart += Relocate` removed (2565), -a subtraction removed
     (3409), Atmel address bytes `>> z` dropped (337), default format of 65xx -> Intel (12), MOS address +1 (681;
     told apart from the known MOS findings), window end -1 (7475), Tek count +1 (649), `FilterOK(InpHeader)` as in
     p2bin (57 of 1200 seeded cases; needs -f, which the TLC case space does not contain), Intel EOF entry address
     dropped (687), C `_len` +1 (1135), S9 entry address dropped (1109), file offset not added (60): all VIOLATION.
     toolutils.c RemoveOffset() without `*Offset = 0` (m20_offset_carry; passes ctest 201/201, the tests never use
     file offsets): NOT reported before the source-argument dimension existed, 362 violations now (`x1.p(4096)
     x2.p` with any window, `x1.p x2.p(4096)` with an automatic window end).
     Intel-16 segment rounded to 256 instead of 16 bytes: output stays valid and decodes right, correctly NOT a
     violation (1 report only where it meets the known granularity-4 defect).
"""
import copy
import json
import os
import re
import shutil

from vlib import aslrun, build, codefile, p2hexfiles, p2hexio, tlc
from vlib.common import CheckError, NCPU, Phase, log, pmap, rng, scratch, VERIF
from vlib.report import Report

PID = "C06"
DEV_TEXT = {
    "MosRunningSum": "MOS line checksum runs over all previous lines",
    "MosTerm4": "MOS terminator record count is the constant 4",
    "TekByteSums": "Tektronix checksums are byte sums instead of hex-digit sums",
    "Intel32UnitBank": "Intel-32 bank switching computed in address units (wrong for granularity > 1)",
    "MotoTypeUnrelocated": "S-record type chosen from the address before -R/-a",
    "Intel16NoRebase": "Intel-16 offset wraps beyond $FFFF inside one record",
    "RangeOnlyCode": "-r is ignored for -segment other than code",
    "LineSplitsUnits": "line length not rounded to whole address units (granularity 4/8)",
    "MotoLineOverflow": "S-record count byte overflows for -l > 250..252",
}


# ---------------------------------------------------------------------------------------------------
# case construction
# ---------------------------------------------------------------------------------------------------
def mk_case(recs, o, fentry=-1, origin="gen", pbytes=None, files=None):
    """a case of spec/P2Hex.tla: flat record list + source arguments (files) + option vector; "p" = the code files.
    Without `files` it is one source file; the generators' o["ofs"] then is that file's "(offset)" suffix."""
    oo = copy.deepcopy(p2hexfiles.BASE_O)
    oo.update(o)
    ofs = oo.pop("ofs", 0)
    if files is None:
        files = [p2hexfiles.file_descr(len(recs), sfx=ofs != 0, ofs=ofs, nota="$", fentry=fentry)]
        ps = [pbytes] if pbytes is not None else p2hexfiles.write_files(recs, files)
    else:
        assert not ofs and pbytes is None
        ps = p2hexfiles.write_files(recs, files)
    return {"recs": recs, "files": files, "o": oo, "origin": origin, "p": ps}


FAMILIES = [  # (cpu, gran, default format) - a spread over the family table
    (0x01, 1, "MOTO"), (0x61, 1, "MOTO"), (0x63, 1, "MOTO"), (0x52, 1, "MOTO"), (0x09, 4, "MOTO"), (0x6c, 1, "MOTO"),
    (0x11, 1, "MOS"), (0x19, 1, "MOS"), (0x51, 1, "INTEL"), (0x41, 1, "INTEL"), (0x31, 1, "INTEL"),
    (0x70, 2, "INTEL"), (0x71, 2, "INTEL"), (0x4a, 1, "INTEL"), (0x42, 1, "INTEL16"), (0x4c, 1, "INTEL16"),
    (0x13, 1, "INTEL32"), (0x2a, 1, "INTEL32"), (0x76, 4, "INTEL32"), (0x3b, 2, "ATMEL"), (0x21, 1, "INTEL"),
]
EXPL_FORMATS = ["MOTO", "INTEL", "INTEL16", "INTEL32", "MOS", "TEK", "ATMEL", "C"]
BOUNDS = [0x0, 0x100, 0x7ff0, 0xfff0, 0xffe0, 0xffff0, 0xfffe0, 0xfffff0, 0xffffe0, 0x1000010, 0x20000, 0x123450]


def random_case(r, idx):
    return mk_case(*random_parts(r), origin="random/%d" % idx)


OFFSETS = [0x10, 0x100, 0x1000, 0x1000, 0x10000, 0x20000]


def files_case(r, idx):
    """SEVERAL source files in one call: the records of a random case dealt to 2-3 files in command-line order, every
    file named without "(offset)", with "(0)" or with a moving offset (any notation); window / -a / -R as drawn"""
    recs, o, fentry = random_parts(r)
    o.pop("ofs", None)
    if len(recs) == 1:
        x = recs[0]
        n = r.choice([1, 3, 8, 33])
        recs.append({"cpu": x["cpu"], "seg": x["seg"], "gran": x["gran"],
                     "start": x["start"] + len(x["data"]) // x["gran"] + r.choice([0, 1, 0x40, 0x400]),
                     "data": [r.randrange(256) for _ in range(n * x["gran"])]})
        if r.random() < 0.5:
            recs.reverse()
    nf = min(len(recs), r.choice([2, 2, 2, 3]))
    cuts = [0] + sorted(r.sample(range(1, len(recs)), nf - 1)) + [len(recs)]
    files = []
    for i in range(nf):
        kind = r.choice(["none", "none", "zero", "ofs", "ofs"])
        ofs = 0 if kind != "ofs" else r.choice(OFFSETS + [r.randrange(1, 0x3000)])
        fe = fentry if i == 0 else (-1 if r.random() < 0.85 else r.choice([fentry, r.randrange(0, 0x10000)]))
        files.append(p2hexfiles.file_descr(cuts[i + 1] - cuts[i], sfx=kind != "none", ofs=ofs,
                                           nota=r.choice(p2hexfiles.NOTATIONS), fentry=fe))
    if all(f["sfx"] for f in files) or not any(f["ofs"] for f in files):
        # the interesting mixtures: at least one name without and one name with a moving offset
        i, j = r.sample(range(nf), 2)
        files[i] = p2hexfiles.file_descr(files[i]["n"], fentry=files[i]["fentry"])
        files[j] = p2hexfiles.file_descr(files[j]["n"], sfx=True, ofs=r.choice(OFFSETS), nota=r.choice(p2hexfiles.NOTATIONS),
                                         fentry=files[j]["fentry"])
    if r.random() < 0.75:
        # a window over the MOVED records (the drawn one was placed over the unmoved ones)
        k, ext = 0, []
        for f in files:
            ext += [(x["start"] + f["ofs"], x["start"] + f["ofs"] + len(x["data"]) // x["gran"] - 1) for x in recs[k:k + f["n"]]]
            k += f["n"]
        lo, hi = min(a for a, _ in ext), max(b for _, b in ext)
        o.pop("rstart", None), o.pop("rstop", None)
        w = r.choice(["auto", "all", "all", "inner", "inner", "lo$", "$hi"])     # one walk / two walks of the file list
        if w in ("all", "inner", "lo$"):
            o["rstart"] = lo if w == "all" else r.randrange(lo, hi + 1)
        if w in ("all", "inner", "$hi"):
            o["rstop"] = hi if w == "all" else r.randrange(o.get("rstart", lo), hi + 1)
    return mk_case(recs, o, origin="files/%d" % idx, files=files)


def random_parts(r):
    cpu, gran, dfl = r.choice(FAMILIES)
    nrec = r.choice([1, 1, 2, 2, 3, 4])
    recs = []
    a = r.choice(BOUNDS) + r.randrange(0, 24)
    if r.random() < 0.15:
        a = r.randrange(0, 1 << r.choice([12, 16, 20, 24, 28]))
    mixed = r.random() < 0.12
    for _ in range(nrec):
        units = r.choice([1, 2, 3, 7, 16, 17, 33, 64, 100, r.randrange(1, 600 // gran)])
        c2, g2 = cpu, gran
        seg = 1
        if mixed and r.random() < 0.5:
            c2, g2, _ = r.choice([f for f in FAMILIES if f[1] == gran])
        if r.random() < 0.12:
            seg = r.choice([2, 4])
        data = [r.randrange(256) for _ in range(units * g2)]
        recs.append({"cpu": c2, "seg": seg, "gran": g2, "start": a, "data": data})
        a += units + r.choice([0, 1, 5, 0x100, 0x10000])
    if r.random() < 0.2:
        r.shuffle(recs)
    o = {}
    o["fmt"] = r.choice(["DEFAULT"] * 3 + EXPL_FORMATS * 2)
    fmt = dfl if o["fmt"] == "DEFAULT" else o["fmt"]
    o["l"] = r.choice([2, 3, 5, 8, 16, 16, 32, 33, 254, 253, r.randrange(1, 255)])
    if fmt == "MOTO":
        o["M"] = r.choice([1, 1, 2, 3])
        o["rec5"] = r.random() < 0.6
        o["sep"] = r.random() < 0.1
    if fmt.startswith("INTEL"):
        o["i"] = r.choice([0, 0, 1, 2])
        if gran in (2, 4) and r.random() < 0.5:
            o["m"] = r.choice([0, 1, 2, 3]) if fmt == "INTEL" else r.choice([0, 1])
    if fmt == "ATMEL":
        o["avrlen"] = r.choice([2, 3, 3])
    if fmt == "C":
        o["cfmt"] = r.choice([["d", "S", "E", "l"], ["D", "s", "L"], ["s", "d"], ["S", "l", "e", "D"]])
    o["rel"] = r.random() < 0.3
    lo = min(x["start"] for x in recs)
    hi = max(x["start"] + len(x["data"]) // x["gran"] - 1 for x in recs)
    o["reloc"] = r.choice([0, 0, 0, 0x100, 0x10000, 0x1000000, 0x8000, -r.randrange(0, lo + 1)])
    w = r.random()
    if w < 0.25:
        o["rstart"] = r.randrange(lo, hi + 1)
        o["rstop"] = r.randrange(o["rstart"], hi + 1 + r.choice([0, 5]))
    elif w < 0.35:
        o["rstart"] = r.randrange(lo, hi + 1)
    elif w < 0.45:
        o["rstop"] = r.randrange(lo, hi + 1)
    elif w < 0.5:
        o["rstart"] = max(0, lo - r.choice([1, 16]))
        o["rstop"] = hi + 3
    if r.random() < 0.3:
        o["e"] = r.randrange(0, 0x10000)
    fentry = r.choice([-1, -1, r.randrange(0, 0x10000), lo])
    if any(x["seg"] != 1 for x in recs) and r.random() < 0.7:
        o["seg"] = r.choice([x["seg"] for x in recs])
    if mixed and r.random() < 0.7:
        o["filt"] = sorted(set(r.sample([x["cpu"] for x in recs], 1) + ([0x7e] if r.random() < 0.3 else [])))
    if r.random() < 0.1:
        o["ofs"] = r.choice([0x10, 0x1000, 0x20000])
    return recs, o, fentry


BOUNDARIES = [0x10000, 0x20000, 0x100000, 0x1000000, 0x8000, 0x80000, 0x30000]


def boundary_case(r, idx):
    """record i ends exactly on / one before / one after a 64 KiB, 1 MiB or 16 MiB boundary (in units or in bytes)
    and record i+1 lies in the same bank, the next bank or a lower bank: per-group state must not leak"""
    cpu, gran, dfl = r.choice(FAMILIES)
    B = r.choice(BOUNDARIES)
    d = r.choice([0, 0, 0, -1, 1])
    n = r.choice([1, 2, 5, 16, 17, 40, 300 // gran])
    end = B + d
    recs = [{"cpu": cpu, "seg": 1, "gran": gran, "start": end - n, "data": [r.randrange(256) for _ in range(n * gran)]}]
    used = [(end - n, end - 1)]
    for _ in range(r.choice([1, 1, 2, 3])):
        where = r.choice(["same", "next", "lower", "adjacent", "far"])
        m = r.choice([1, 3, 8, 33])
        st = {"same": end - n - m - r.choice([1, 4, 200]), "next": B + r.choice([0, 1, 16, 0x800]),
              "lower": max(0, B - 0x10000 + r.choice([0, 7, 0x100])) if B >= 0x10000 else r.choice([0, 9]),
              "adjacent": end, "far": B + 0x10000 * r.choice([1, 2, 16]) + r.choice([0, 5])}[where]
        if st < 0 or any(not (st + m - 1 < a or st > b) for a, b in used):
            continue
        used.append((st, st + m - 1))
        recs.append({"cpu": cpu, "seg": 1, "gran": gran, "start": st, "data": [r.randrange(256) for _ in range(m * gran)]})
    if r.random() < 0.15:
        recs.append(recs.pop(0))           # the boundary record last: must be unaffected
    o = {"fmt": r.choice(["DEFAULT"] + EXPL_FORMATS * 2)}
    fmt = dfl if o["fmt"] == "DEFAULT" else o["fmt"]
    o["l"] = r.choice([2, 8, 16, 16, 32, 254, r.randrange(1, 255)])
    if fmt == "MOTO":
        o["M"] = r.choice([1, 1, 2, 3])
        o["rec5"] = r.random() < 0.7
    if fmt.startswith("INTEL"):
        o["i"] = r.choice([0, 0, 1, 2])
        if gran in (2, 4) and r.random() < 0.3:
            o["m"] = r.choice([0, 1])
    if fmt == "ATMEL":
        o["avrlen"] = r.choice([2, 3, 3])
    if r.random() < 0.15:
        o["rel"] = True
    if r.random() < 0.15:
        o["reloc"] = r.choice([0x10000, 0x100, -1 if min(a for a, _ in used) > 0 else 0])
    return mk_case(recs, o, -1, origin="boundary/%d" % idx)


def special_cases():
    """hand-placed inputs the bounded model cannot reach: one record longer than an Intel-16 segment"""
    big = [(i * 7 + 3) % 251 for i in range(65535)]
    out = [mk_case([{"cpu": 0x42, "seg": 1, "gran": 1, "start": 0x1000f, "data": big}],
                   {"fmt": "INTEL16", "l": 254}, origin="special/intel16-wrap"),
           mk_case([{"cpu": 0x42, "seg": 1, "gran": 1, "start": 0x10000, "data": big[:65520]}],
                   {"fmt": "INTEL16", "l": 254}, origin="special/intel16-fit"),
           mk_case([{"cpu": 0x13, "seg": 1, "gran": 1, "start": 0xff80, "data": big[:40000]}],
                   {"fmt": "INTEL32", "l": 254}, origin="special/intel32-banks"),
           mk_case([{"cpu": 0x01, "seg": 1, "gran": 1, "start": 0xfffff0, "data": big[:600]}],
                   {"fmt": "MOTO", "l": 32}, origin="special/moto-16M"),
           mk_case([{"cpu": 0x31, "seg": 1, "gran": 1, "start": 0x100, "data": big[:8]},
                    {"cpu": 0x31, "seg": 4, "gran": 1, "start": 0x9000, "data": big[8:16]}],
                   {"fmt": "INTEL", "seg": 4, "rstart": 0x9002, "rstop": 0x9004}, origin="special/segment-range")]
    return out


def corpus_cases(bld, r, tier):
    tests = aslrun.corpus()

    def one(t):
        res = aslrun.assemble_corpus(bld, t)
        shutil.rmtree(res.dir, ignore_errors=True)
        return t[0], res.p if res.rc == 0 else None

    out = []
    limit = 3000 if tier == "quick" else 12000
    for name, pb in pmap(one, tests):
        if not pb:
            continue
        pr, recs, fentry = p2hexio.records_of(pb)
        code = [x for x in recs if x["seg"] == 1 and x["data"]]
        if not pr.well_formed or not code:
            continue
        rr = rng("c06/corpus/" + name)
        total = sum(len(x["data"]) for x in recs)
        fmts = ["DEFAULT"] + rr.sample(EXPL_FORMATS, 1 if tier == "quick" else 3)
        for f in fmts:
            o = {"fmt": f, "l": rr.choice([16, 16, 32, 8, 254, 21])}
            if total > limit:
                # window into a big file so that TLC's evaluation stays small
                x = rr.choice(code)
                units = len(x["data"]) // x["gran"]
                s = x["start"] + rr.randrange(0, max(1, units - 1))
                o["rstart"], o["rstop"] = s, s + min(units, limit // max(1, x["gran"])) - 1
            elif rr.random() < 0.3:
                x = rr.choice(code)
                o["rstart"] = x["start"]
            o["rel"] = rr.random() < 0.2
            if f == "INTEL":
                o["i"] = rr.choice([0, 0, 1, 2])
            if f == "MOTO":
                o["M"] = rr.choice([1, 1, 2, 3])
            out.append(mk_case(recs, o, fentry, origin="corpus/" + name, pbytes=pb))
    return out


# ---------------------------------------------------------------------------------------------------
# TLC judgement
# ---------------------------------------------------------------------------------------------------
def judge_with_tlc(cases, results, shards):
    """cases[i] + results[i] -> verdict dict printed by P2Hex_Trace (by id)"""
    docs = []
    for i, (c, res) in enumerate(zip(cases, results)):
        docs.append({"id": i, "recs": c["recs"], "files": c["files"], "o": c["o"], "rc": res["rc"],
                     "lines": res["lines"]})
    # balance shards by size
    docs_sorted = sorted(docs, key=lambda d: -sum(len(x["data"]) for x in d["recs"]))
    buckets = [[] for _ in range(max(1, shards))]
    for j, d in enumerate(docs_sorted):
        buckets[j % len(buckets)].append(d)
    buckets = [b for b in buckets if b]

    shard_errors = {}

    def run_shard(b):
        """one JVM per shard; a case TLC cannot evaluate (evaluation error of the specification on an unforeseen
        token shape) is set aside as {"tlc_error": ...} and the rest of the shard is evaluated in a further run"""
        got, runs, todo, errors = {}, [], list(b), 0
        tlc_errors = shard_errors
        while todo:
            path = os.path.join(scratch(), "c06-cases-%d-%d.ndjson" % (id(b), len(runs)))
            tlc.write_ndjson(todo, path)
            r = tlc.run("P2Hex_Trace", "P2Hex_Trace.cfg", workers=1, env={"CASES": path}, timeout=2400, mem="6g",
                        tags=("OUT",), keep_out=True)
            os.unlink(path)
            runs.append(r)
            for _, v in r.printed:
                got[v["id"]] = v
            rest = [d for d in todo if d["id"] not in got]
            if not rest:
                break
            if r.rc is None or errors >= 8 or "Error:" not in r.out:
                raise CheckError("P2Hex_Trace did not evaluate all cases (%d of %d): %s"
                                 % (len(got), len(b), (r.error or r.violation or r.out[-600:])))
            errors += 1
            i = r.out.find("Error:")
            got[rest[0]["id"]] = tlc_errors[rest[0]["id"]] = {"id": rest[0]["id"], "tlc_error": r.out[i:i + 400]}
            todo = rest[1:]
        return runs

    verdicts = {}
    stats = {"states": 0, "generated": 0, "wall": 0.0}
    for runs in pmap(run_shard, buckets, workers=len(buckets)):
        stats["wall"] = max(stats["wall"], sum(r.wall for r in runs))
        for r in runs:
            stats["states"] += r.distinct
            stats["generated"] += r.generated
            for tag, v in r.printed:
                verdicts[v["id"]] = v
    verdicts.update(shard_errors)
    return verdicts, stats


def case_files(c, res):
    out = {"cmdline.json": json.dumps(res["cmd"]), "o.hex": res["text"] or "",
           "stderr.txt": res["err"], "case.json": json.dumps({k: c[k] for k in ("o", "files", "origin")})}
    out.update(zip(p2hexfiles.src_names(c["files"]), c["p"]))
    return out


def report_case(rep, bld, c, res, v, state):
    """turn TLC's verdict on one case into the check's protocol"""
    fmt = (v.get("v") or {}).get("fmt", c["o"]["fmt"])
    if not v["ran"]:
        if v["expect_fail"]:
            state["expected_failures"] += 1
            return
        if v["definite"]:
            dev = None
            if res["rc"] == 1 and v["autofail_pinned"] and not v["autofail_repaired"]:
                dev = "RangeOnlyCode"        # "automatic range setting failed" only because -r missed the segment
            elif res["rc"] in (-11, -6, -7) and v["crash_pinned"]:
                dev = "LineSplitsUnits"      # DSwap() overrun on a line that ends inside an address unit
            if dev:
                state["attributed"] += 1
                rep.violation("p2hex ended with rc=%s on a convertible input (%s) [%s]"
                              % (res["rc"], " ".join(res["cmd"]), DEV_TEXT[dev]),
                              case={"o": c["o"], "origin": c["origin"], "tlc": v}, files=case_files(c, res),
                              key={"deviation": dev})
                return
            rep.violation("p2hex ended with rc=%s on a convertible input (%s): %s"
                          % (res["rc"], " ".join(res["cmd"]), (res["err"] or res["out"])[-300:]),
                          case={"o": c["o"], "origin": c["origin"]}, files=case_files(c, res),
                          key={"deviation": "none", "kind": "exit", "fmt": fmt})
        else:
            state["indefinite"] += 1
        return
    if not v["definite"]:
        state["indefinite"] += 1
        return
    vv = v["v"]
    state["judged"] += 1
    if not vv["representable"]:
        state["unrepresentable"] += 1
    if vv["ok"] and v["csyn"]:
        if v["model"] == "none" and vv["representable"] and state["drift_model"] < 5:
            state["drift_model"] += 1
            rep.drift("output valid and decodes right but differs from the operational model's line splitting: %s %s"
                      % (c["origin"], " ".join(res["cmd"])))
        if not vv["tek_term"] and not state["drift_tek"]:
            state["drift_tek"] = True
            rep.drift("Tektronix output has no termination block /AAAA00CC (observation; not required by the check)")
        if not vv["c_end"] and not state["drift_cend"]:
            state["drift_cend"] = True
            rep.drift("C output: <name>_end is start + length in BYTES - 1, not the last ADDRESS, for granularity > 1 "
                      "(%s)" % " ".join(res["cmd"]))
        if vv["maxline"] > v["manual_linelen"] and not state["drift_l"]:
            state["drift_l"] = True
            rep.drift("-l %d: lines carry %d data bytes; the manual says odd values are rounded down, "
                      "CMD_LineLen rounds up" % (c["o"]["l"], vv["maxline"]))
        return
    # failed verdict: attribute
    aspects = [a for a, bad in (("line-validity", not vv["valid"]), ("structure", not vv["structure"]),
                                ("decode", not vv["decode"]), ("c-syntax", not v["csyn"])) if bad]
    what = ("%s output violates the public definition (%s): %d invalid line(s) first=%s, structure=%s, decode=%s "
            "first differing <<key, decoded, selected>>=%s keys covered/selected=%s/%s; cmd: p2hex %s"
            % (fmt, ",".join(aspects), vv["nbad"], vv["badlines"], vv["structure"], vv["decode"], vv["firstdiff"],
               vv["ncovered"], vv["nsel"], " ".join(res["cmd"])))
    expl = sorted((sorted(d) for d in v["explained"] if d), key=len)
    if v["model"] == "pinned" and expl:
        for d in expl[0]:
            rep.violation("%s [%s]" % (what, DEV_TEXT.get(d, d)), case={"o": c["o"], "origin": c["origin"], "tlc": v},
                          files=case_files(c, res), key={"deviation": d})
        state["attributed"] += 1
        return
    # not explained by any named deviation: confirm by a second run, then report
    again = p2hexfiles.run_p2hex(bld.tool("p2hex"), bld.env(), c["p"], c["files"], c["o"])
    if again["text"] != res["text"]:
        raise CheckError("p2hex output not reproducible for %s" % " ".join(res["cmd"]))
    rep.violation(what, case={"o": c["o"], "origin": c["origin"], "tlc": v}, files=case_files(c, res),
                  key={"deviation": "none", "kind": ",".join(aspects), "fmt": fmt})


# ---------------------------------------------------------------------------------------------------
def main(tier):
    rep = Report(PID, tier)
    bld = build.get("hook")
    quick = tier == "quick"
    rep.assumptions += [
        "tokenisers (hex digit pairs -> integers), the code-file writer and gcc -fsyntax-only are trusted; every sum, "
        "count, address computation and comparison is made by TLC on spec/P2Hex.tla",
        "TI-DSK and Mico8: structural modelling only (not in the property's format list)",
        "addresses < 2^30; 1-3 source files per call, no wildcards; little-endian host",
        "Tektronix definition (hex-digit sums) as in Data I/O format 86 / srecord; MOS terminator = record count (KIM-1)",
    ]
    workers = min(NCPU, 6)

    # (M) + (G): model check the repaired model and export its case space -------------------------------
    skip_pinned = bool(os.environ.get("VERIF_C06_SKIP_PINNED_MC"))      # development aid for mutation runs
    with Phase("P2Hex_Gen model check + case export"):
        base_cfg = open(os.path.join(VERIF, "spec", "P2Hex_Gen.cfg" if quick else "P2Hex_GenFull.cfg")).read()
        fmts = re.search(r"Fmts = \{([^}]*)\}", base_cfg).group(1).replace(" ", "").split(",")
        # TLC computes initial states with one thread: one TLC run per group of formats, run side by side
        big = [f for f in fmts if f in ('"MOTO"', '"INTEL"')]
        groups = ([[f] for f in big] + [[f for f in fmts if f not in big]]) if quick else [[f] for f in fmts]

        def gen(group):
            cfg = os.path.join(scratch(), "P2Hex_Gen_%s.cfg" % "_".join(x.strip('"') for x in group))
            with open(cfg, "w") as f:
                f.write(re.sub(r"Fmts = \{[^}]*\}", "Fmts = {%s}" % ", ".join(group), base_cfg))
            return tlc.must(tlc.run("P2Hex_Gen", cfg, workers=2, timeout=3000, mem="6g",
                                    tags=("TR",)), "P2Hex_Gen %s" % group)
        gens = pmap(gen, groups, workers=4)
    g = tlc.TLCResult()
    for x in gens:
        if x.violation:
            raise CheckError("the repaired P2Hex model violates its invariants: %s" % x.violation[:800])
        g.generated += x.generated
        g.distinct += x.distinct
        g.wall = max(g.wall, x.wall)
        g.printed += x.printed
    rep.model("P2Hex_Gen(repaired model: LinesValid, Verdict, DecodeEquiv, Emit, LineLen, Bank, WholeUnits, GroupReset, ArgOffsets)", g)
    with Phase("P2Hex_MC pinned model"):
      if not skip_pinned:
        pm = tlc.must(tlc.run("P2Hex_MC", "P2Hex_MCpinned.cfg", workers=workers, timeout=3000, mem="8g",
                              collect=False), "P2Hex_MC pinned")
        if pm.violation:
            raise CheckError("pinned P2Hex model: a failure is not attributable to a named deviation: %s"
                             % pm.violation[:800])
        rep.model("P2Hex_MC(pinned model: failures attributable)", pm)
        pf = tlc.run("P2Hex_MC", "P2Hex_MCpinnedFail.cfg", workers=2, timeout=900, collect=False)
        if pf.error:
            raise CheckError("P2Hex_MCpinnedFail: %s" % pf.error)
        rep.part("P2Hex_MC(pinned model, InvVerdict expected to fail)", predicted_defect=bool(pf.violation),
                 distinct_states=pf.distinct)
    # sensitivity of the case space to per-group state that leaks from one record group into the next
    with Phase("P2Hex_MC carry-over sensitivity"):
        cfgs = ("P2Hex_MCcarryFirstBank.cfg", "P2Hex_MCcarryRecCnt.cfg", "P2Hex_MCcarryOffset.cfg")
        runs = pmap(lambda cfg: tlc.run("P2Hex_MC", cfg, workers=2, timeout=900, collect=False), cfgs, workers=len(cfgs))
        for cfg, sr in zip(cfgs, runs):           # small models: side by side
            if sr.error:
                raise CheckError("%s: %s" % (cfg, sr.error))
            if not sr.violation:
                raise CheckError("%s: the case space does not expose a group prologue / an argument handler that forgets "
                                 "to re-initialise this variable (the model check found no violation)" % cfg)
            rep.part("P2Hex_MC(%s, InvVerdict expected to fail)" % cfg, exposed=True, distinct_states=sr.distinct)

    seen = set()
    cases = []
    for tag, cj in g.printed:
        k = json.dumps(cj, sort_keys=True)
        if k in seen:
            continue
        seen.add(k)
        cases.append(mk_case(cj["recs"], cj["o"], origin="tlc", files=cj["files"]))
    ngen = len(cases)
    r = rng("c06")
    nrand = 1200 if quick else 20000
    cases += [random_case(rng("c06/r%d" % i), i) for i in range(nrand)]
    nbound = 800 if quick else 12000
    cases += [boundary_case(rng("c06/b%d" % i), i) for i in range(nbound)]
    nfiles = 500 if quick else 5000
    cases += [files_case(rng("c06/f%d" % i), i) for i in range(nfiles)]
    cases += special_cases()
    with Phase("corpus code files"):
        cc = corpus_cases(bld, r, tier)
    cases += cc
    rep.part("cases", tlc_generated=ngen, seeded_random=nrand, seeded_boundary=nbound, seeded_files=nfiles,
             several_files=sum(1 for c in cases if len(c["files"]) > 1), corpus=len(cc), special=len(special_cases()))

    with Phase("run p2hex on %d cases" % len(cases)):
        results = p2hexfiles.run_many(bld, [(c["p"], c["files"], c["o"]) for c in cases], workers=min(NCPU, 12))
    with Phase("TLC judgement (P2Hex_Trace)"):
        verdicts, st = judge_with_tlc(cases, results, shards=min(NCPU, 6 if quick else 10))
    rep.cov["states"] += st["states"]
    rep.cov["transitions"] += st["generated"]
    rep.part("P2Hex_Trace", cases=len(cases), distinct_states=st["states"], wall_s=st["wall"])

    state = {"expected_failures": 0, "indefinite": 0, "judged": 0, "unrepresentable": 0, "attributed": 0,
             "drift_model": 0, "drift_l": False, "drift_tek": False, "drift_cend": False}
    per_fmt = {}
    tlc_errors = []
    for i, (c, res) in enumerate(zip(cases, results)):
        v = verdicts.get(i)
        if v is None:
            raise CheckError("no TLC verdict for case %d" % i)
        rep.evaluated()
        if "tlc_error" in v:
            tlc_errors.append("%s p2hex %s: %s" % (c["origin"], " ".join(res["cmd"]), v["tlc_error"][:300]))
            continue
        if res["timeout"]:
            rep.violation("p2hex timed out: %s" % " ".join(res["cmd"]), case={"o": c["o"]}, files=case_files(c, res),
                          key={"deviation": "none", "kind": "timeout"})
            continue
        report_case(rep, bld, c, res, v, state)
        if v.get("definite") and v.get("ran"):
            fmt = v["v"]["fmt"]
            per_fmt[fmt] = per_fmt.get(fmt, 0) + 1
            rep.distinct((fmt, json.dumps(c["o"], sort_keys=True),
                          tuple((x["start"], len(x["data"]), x["gran"]) for x in c["recs"]),
                          tuple((f["n"], f["sfx"], f["ofs"]) for f in c["files"])),
                         nontrivial=v["v"]["nlines"] > 2)
    for t in tlc_errors[:10]:
        log("CHECK-ERROR property=%s TLC could not evaluate a case: %s" % (PID, t))
    rep.traces(state["judged"])
    rep.part("judgement", per_format=per_fmt, **{k: v for k, v in state.items()})
    for i in (0, ngen // 2, ngen + 1, len(cases) - 1):
        c, res, v = cases[i], results[i], verdicts[i]
        rep.sample({"origin": c["origin"], "cmd": res["cmd"], "records": [(x["cpu"], x["seg"], x["gran"], x["start"],
                    len(x["data"])) for x in c["recs"]][:4], "hex_head": (res["text"] or "").split("\n")[:4],
                    "tlc_verdict": {k: v.get("v", {}).get(k) for k in ("fmt", "ok", "valid", "structure", "decode",
                                                                           "nsel", "nlines")}, "model": v.get("model")})
    rc = rep.finish(
        rule="cases = every case of the TLC case space of P2Hex_Gen (records at/around 0, 64 KiB, 1 MiB, 16 MiB x "
             "formats x option vectors; 2 source files x name / name(0) / name(offset) x window walks) + seeded random "
             "multi-record and several-file cases + golden-corpus .p files x formats + "
             "hand-placed long-record cases; each converted by the real p2hex and judged by TLC (P2Hex_Trace); "
             "distinct = (format, option vector, record layout, source arguments); non-trivial = more than 2 "
             "output lines",
        exhaustive=False)
    return rc if rc or not tlc_errors else 2


def replay(path):
    v = json.load(open(os.path.join(path, "violation.json")))
    bld = build.get("hook")
    cj = json.load(open(os.path.join(path, "case.json")))
    o = dict(cj["o"])
    ofs = o.pop("ofs", 0)                      # replays recorded before the source arguments became a list
    files = cj.get("files") or [p2hexfiles.file_descr(0, sfx=ofs != 0, ofs=ofs)]
    ps = [open(os.path.join(path, n), "rb").read() for n in p2hexfiles.src_names(files)]
    recs = []
    for f, pb in zip(files, ps):               # the stored code files are the input: counts and entries from them
        pr, rs, fentry = p2hexio.records_of(pb)
        f["n"], f["fentry"] = len(rs), fentry
        recs += rs
    res = p2hexfiles.run_p2hex(bld.tool("p2hex"), bld.env(), ps, files, o)
    log("p2hex %s -> rc=%s" % (" ".join(res["cmd"]), res["rc"]))
    log((res["text"] or "")[:2000])
    c = {"recs": recs, "files": files, "o": o, "origin": "replay", "p": ps}
    verdicts, _ = judge_with_tlc([c], [res], 1)
    log("TLC verdict: %s" % json.dumps(verdicts[0], sort_keys=True))
    log("recorded: %s" % v["what"])
    vv = verdicts[0]
    return 0 if (vv.get("ran") and (not vv.get("definite") or (vv["v"]["ok"] and vv["csyn"]))) else 1


def selftest(tier):
    """(a) corrupt single fields of recorded real outputs: TLC must reject every corruption;
       (b) thorough: run the stored source mutations (selftest/c06_mutants.py) in scratch copies."""
    import subprocess
    bld = build.get("hook")
    big = [(i * 37 + 11) % 256 for i in range(100)]
    base = []
    for fmt, cpu, gran in (("MOTO", 0x01, 1), ("INTEL", 0x51, 1), ("INTEL32", 0x13, 1), ("ATMEL", 0x3b, 2), ("C", 0x51, 1),
                           ("INTEL16", 0x42, 1)):
        start = 0x7f00 if fmt == "INTEL" else 0xfff0        # Intel-8 cannot carry addresses above $FFFF
        base.append(mk_case([{"cpu": cpu, "seg": 1, "gran": gran, "start": start, "data": big}], {"fmt": fmt},
                            fentry=0x1234, origin="selftest/" + fmt))
    results = p2hexfiles.run_many(bld, [(c["p"], c["files"], c["o"]) for c in base], workers=4)
    cases, res2, names = [], [], []
    for c, r in zip(base, results):
        cases.append(c); res2.append(r); names.append(c["origin"] + " unmodified")
        toks = r["lines"]
        muts = []
        data_idx = [i for i, t in enumerate(toks) if t["k"] in ("S", "I", "A", "CA") and len(t.get("b", [])) > 6
                    or t["k"] == "A"]
        i = data_idx[len(data_idx) // 2]
        t = copy.deepcopy(toks)
        t[i]["b"][-1] = (t[i]["b"][-1] + 1) % 256
        muts.append(("last byte of line %d +1" % i, t))
        t = copy.deepcopy(toks)
        del t[i]
        muts.append(("line %d removed" % i, t))
        t = copy.deepcopy(toks)
        if "a" in t[i]:
            t[i]["a"][-1] ^= 2
        elif t[i]["k"] == "S":
            t[i]["b"][2] ^= 1
            t[i]["b"][-1] ^= 1        # keep the checksum right: only the address is wrong
        elif t[i]["k"] == "I":
            t[i]["b"][2] ^= 1
            t[i]["b"][-1] = (t[i]["b"][-1] - (1 if t[i]["b"][2] & 1 else -1)) % 256
        elif t[i]["k"] == "CA":
            t[i]["b"][3] ^= 0x40
        muts.append(("address/data of line %d changed with a consistent checksum" % i, t))
        for what, tk in muts:
            rr = dict(r)
            rr["lines"] = tk
            cases.append(c); res2.append(rr); names.append(c["origin"] + " " + what)
    verdicts, _ = judge_with_tlc(cases, res2, 2)
    bad = 0
    for i, n in enumerate(names):
        v = verdicts[i]
        ok = v["v"]["ok"] and v["csyn"]
        expect_ok = n.endswith("unmodified")
        log("selftest %-70s TLC verdict ok=%s %s" % (n, ok, "" if ok == expect_ok else "<-- UNEXPECTED"))
        bad += ok != expect_ok
    if tier == "thorough":
        r = subprocess.run(["python3", os.path.join(VERIF, "selftest", "c06_mutants.py")], stdout=subprocess.PIPE,
                           stderr=subprocess.STDOUT)
        out = r.stdout.decode()
        log(out)
        bad += sum(1 for ln in out.splitlines() if ln.startswith("m") and "violations=0" in ln)
    log("selftest: %s" % ("OK" if not bad else "%d unexpected results" % bad))
    return 0 if not bad else 1
