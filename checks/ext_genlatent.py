"""C18 extension: latent state INSIDE the code generators - where the predecessor stops x where the successor starts.

Specification: spec/GenLatent.tla.  A code generator keeps state of its own between two statements: one-shot trackers
(C16x N_CPChanged/N_SPChanged/N_DPPChanged "the previous machine instruction wrote CP/SP/DPPn", 65xx CLI_SEI_Flag /
ADC_SBC_Flag, TMS320C3x NextPar/PrevOp/PrevARs, SH7000 delay slot / literal pool, MIPS load delay ...: they live for
exactly ONE machine instruction) and sticky modes (ASSUMEd bank/page/direct-page registers, M/X width flags, ExtCounter
...: they live until changed).  The procedure the generator registers with AddInitPassProc() must bring all of it back
to the start value at the beginning of every pass of every file (GenLatent!InitPassG); a component it forgets
(deviation Leak) is handed from the LAST machine instruction of one file to the FIRST machine instruction of the next
file assembled by that generator - code bytes, exit contribution or DIAGNOSTICS (a spurious "possible pipelining
effects" warning) of the successor then depend on the predecessor, which C18 forbids.  The whole golden sources never
end in a state-setting instruction the next file's first instruction depends on, so the corpus pairs/chains of c18.py
cannot see this; the dimension added here is  (last machine instruction of the predecessor) x (first machine
instruction of the successor) x order x family, for EVERY code generator.  It is differential: no per-target oracle,
the reference is the same successor text assembled alone with the same options.

(M) GenLatent_MC.cfg: every history of 2 files of <= 2 statements (GenLatent_MC3.cfg: 3 files of 1 statement, thorough)
    of two generator families over the statement classes {n, set h, dep h (warning / error), mode v, use, pseudo, fwd}:
    Independent (every file's code, exit contribution and diagnostics = the file assembled alone).  Deviations that
    TLC must refute: GenLatent_MC_nxt.cfg (Leak = {nxt}: the seeded C16x change), GenLatent_MC_mode.cfg (Leak = {mode});
    GenLatent_MC_nxtwhy.cfg: with Leak = {nxt} a file differs ONLY IF the last machine instruction of the previous file
    of its family is a `set h` and its own first machine instruction is a `dep h` (OnlyTailHead) - the reason why
    nothing short of the tail x head product finds it, and why files of other families in between do not matter.
(G) GenLatent_Gen*.cfg: TLC enumerates the histories to replay as sequences of WINDOWS of golden sources
       [f |-> family slot, from |-> start slot j (0 = top of the source), to |-> cut slot k (0 = end of the source),
        tr |-> how the cut is closed: nothing / END / a symbol definition + END / left inside an open construct]
    in the shapes  cut-start pair <<Pred(a,k,tr), Succ(a|b,j)>>,  through another family <<Pred(a,k), Whole(b),
    Succ(a,j)>>,  reverse order <<Succ(a,j), Pred(a,k)>>  and  single instructions <<One(a,i), One(a,i')>>, and computes
    for every shape `expect` = "for EVERY interpretation of the cut / start statements as statement classes every file
    is independent" (TRUE for Leak = {}; the Leak = {nxt} variant must give FALSE for all same-family shapes, i.e. every
    shape is sensitive).  Python instantiates the slots: per golden source (= family; 201 of them, every code generator
    that has a test) the hook trace of the solo run (line + stmt events) tells which source lines lay down code
    themselves; a KIND is a mnemonic with its operand shape (digits collapsed), slots are seed-chosen kinds.
    Window(j,k) = the lines in front of j that do not lay down code (CPU, symbol / macro / structure definitions, ASSUME,
    ORG, conditionals; labels of dropped lines kept) + lines j..k unchanged + the closing trailer.
      all families      quick: NCUT x NSTART slots per family (3 x 3), windows of at most WIN source lines;
                        thorough 8 x 8, whole prefixes / suffixes
      tracked families  (generators that register an AddInitPassProc + the pipeline / delay-slot / parallel-instruction
                        trackers of TRACKED_EXTRA, found by reading the generators): ALL kinds x ALL kinds as single-
                        instruction files One(i), One(i') (quick: at most FULL_KINDS kinds per family, seed-chosen)
    The histories are packed into chains (one asl invocation assembles up to CHAIN files: every adjacent pair of the
    chain is one TLC-enumerated pair, an Euler tour of the pair graph for the single-instruction files), every member
    is compared with its solo run: code file, <name>.log (all diagnostics, warnings included), exit status composed
    from the solo statuses.  A member that differs is localised to the shortest chain suffix in front of it that
    reproduces the difference; that history is what the VIOLATION names.
Not covered: state that needs two or more particular machine instructions at the end of the predecessor is met only by
the longer windows (sampled); statements reached only through macro expansion / include files are never cut or start
points; sources whose emitters all sit inside a construct (section / IF) give start points only.
"""
import collections
import hashlib
import os
import re

from vlib import aslrun, drvrun, tlc
from vlib.aslrun import INCLUDE
from vlib.common import NCPU, REPO, CheckError, Phase, log, rng

CHAIN = 120                 # files per invocation
WIN = 25                    # quick: source lines of a window
NAME = re.compile(r"\bg[0-9a-f]{4,}\.(asm|ASM)\b")
# generators whose trackers are NOT reset through AddInitPassProc but which follow the previous instruction (read in
# the code: NextPar/ThisPar/PrevOp (3203x), parallel || packets (3206x), delay slots / literals (7000), CB/IX prefix
# state (z80), bank / page tracking (PIC), load delay (mips)); by name of the golden source directory
TRACKED_EXTRA = ("t_3203x", "t_3204x", "t_3206x", "t_7000", "t_16c5x", "t_16c84", "t_17c42", "t_z80syntax", "t_r2000",
                 "t_56000", "t_7720", "t_7725", "t_77230", "t_96", "t_960")


# ---------------------------------------------------------------------------------------------------------
# analysis of a golden source through the hook trace of its solo run
# ---------------------------------------------------------------------------------------------------------
_LINE = re.compile(rb'^\{"e":"line","pass":(\d+),"depth":(\d+)')
_STMT = re.compile(rb'^\{"e":"stmt","pass":(\d+),"line":(\d+),"op":"((?:[^"\\]|\\.)*)",.*?"lab":(\d),"ifasm":(\d),'
                   rb'"wasif":\d,"wasmac":(\d),"rec":(\d),.*?"phd":(\d+),"svd":(\d+),"std":(\d+),"sed":(\d+),'
                   rb'"tagd":\d+,"len":(-?\d+),.*?"errs":(\d+),"ifs":\[(.*)\]\}')
_BLOCK = ("REPT", "IRP", "IRPC", "WHILE")
_KEEP = ("CPU", "INCLUDE", "RELAXED", "SUPMODE", "FPU", "PMMU", "FULLPMMU", "PADDING", "MAXMODE", "SRCMODE", "BIGENDIAN",
         "EXTMODE", "LWORDMODE", "INTSYNTAX", "Z80SYNTAX", "PACKING", "DOTTEDSTRUCTS", "COMPMODE", "CUSTOM", "DSP")


def _analyse_job(args):
    """worker: assemble one golden test with line+stmt events, return the compact per-line classification"""
    (bdir, hooks, flavour, t) = args
    import shutil
    import subprocess
    import tempfile
    from vlib.build import Build
    from vlib.common import scratch
    b = Build(bdir, flavour, hooks)
    d = tempfile.mkdtemp(prefix="ga-", dir=scratch())
    try:
        shutil.copytree(t[1], os.path.join(d, t[0]))
        e = dict(os.environ)
        e.update(b.env({"LANG": "C", "LC_ALL": "C"}))
        tr = os.path.join(d, "trace.ndjson")
        e["ASL_VERIF_TRACE"] = tr
        e["ASL_VERIF_EVENTS"] = "line,stmt"
        try:
            p = subprocess.run([b.tool("asl")] + list(t[3]) + ["-q", "-i", INCLUDE, "%s/%s.asm" % (t[0], t[0])], cwd=d, env=e,
                               timeout=120, stdin=subprocess.DEVNULL, stdout=subprocess.DEVNULL, stderr=subprocess.DEVNULL)
            rc = p.returncode
        except subprocess.TimeoutExpired:
            return None
        if not os.path.exists(tr):
            return None
        main = {}               # pass -> {line: [op, lab, ifasm, wasmac, rec, open, len, nested_len]}
        order = {}
        depth, cur = 1, None
        with open(tr, "rb") as f:
            for raw in f:
                m = _LINE.match(raw)
                if m:
                    depth = int(m.group(2))
                    continue
                m = _STMT.match(raw)
                if not m:
                    continue
                ps = int(m.group(1))
                rows = main.setdefault(ps, {})
                if depth == 1:
                    ln = int(m.group(2))
                    opened = int(m.group(8)) + int(m.group(9)) + int(m.group(10)) + int(m.group(11)) + (1 if m.group(14) else 0)
                    cur = rows[ln] = [m.group(3).decode("latin-1"), int(m.group(4)), int(m.group(5)), int(m.group(6)),
                                      int(m.group(7)), opened, int(m.group(12)), 0]
                    order.setdefault(ps, []).append(ln)
                elif cur is not None and ps in main and int(m.group(12)) > 0 and int(m.group(5)) and not int(m.group(7)):
                    cur[7] += int(m.group(12))
        if not main:
            return None
        last = max(main)
        return {"rc": rc, "rows": main[last], "order": order[last], "passes": last}
    finally:
        shutil.rmtree(d, ignore_errors=True)


class Src:
    """a golden source with the classification of its lines"""

    def __init__(self, t, a):
        self.t, self.name, self.flags = t, t[0], tuple(t[3])
        with open(t[2], "rb") as f:
            self.lines = f.read().decode("latin-1").split("\n")
        self.rows, self.passes = a["rows"], a["passes"]
        rows = self.rows
        n = len(self.lines)
        self.drop = set()           # lines that lay down code (directly, or through a macro call / REPT block)
        self.emit = []              # direct emitters, in order
        block = None
        for ln in a["order"]:
            r = rows[ln]
            if ln > n:
                continue
            op = r[0].upper()
            if block is None and r[4] and op in _BLOCK:
                block = ln
            if r[4] == 0 and block is not None and op == "ENDM":
                if r[7] > 0:
                    self.drop.update(range(block, ln + 1))
                block = None
                continue
            if r[4] or not r[2]:
                continue
            if r[6] > 0:
                self.emit.append(ln)
                self.drop.add(ln)
            elif r[7] > 0 and op not in ("INCLUDE", "BINCLUDE", "ENDM"):
                self.drop.add(ln)
        self.clean = [ln for ln in self.emit if rows[ln][5] == 0]
        self.opened = [ln for ln in self.emit if rows[ln][5] > 0]
        self.kind = {ln: self._kind(ln) for ln in self.emit}

    def _kind(self, ln):
        txt = self.lines[ln - 1].split(";")[0]
        op = self.rows[ln][0]
        m = re.search(re.escape(op), txt, re.I)
        ops = re.sub(r"\s+", "", txt[m.end():] if m else "").lower()
        ops = re.sub(r"\$[0-9a-f]+|\b[0-9][0-9a-f]*h\b|0x[0-9a-f]+|%[01]+|\d+", "N", ops)
        return op.upper() + " " + ops

    def _label_only(self, ln):
        txt = self.lines[ln - 1]
        if not self.rows.get(ln, [0, 0])[1] or not txt.strip():
            return None
        tok = txt.split()[0]
        if txt[0] in " \t" and not tok.endswith(":"):
            return None
        return tok

    def window(self, j, k, tr, minimal=False):
        """header (the lines in front of j that lay down no code; minimal: only the CPU / INCLUDE / core mode statements
        among them, so that no statement decoded by the generator stands in front of line j) + lines j..k + trailer.
        j = 0: from the top; k = 0: to the end of the source"""
        out = []
        if j > 1:
            for ln in range(1, j):
                if minimal and not (ln in self.rows and self.rows[ln][4] == 0 and self.rows[ln][2]
                                    and self.rows[ln][0].upper() in (_KEEP if minimal == 1 else _KEEP[:1])
                                    and self.rows[ln][5] == 0):
                    continue
                if ln in self.drop:
                    lab = self._label_only(ln)
                    if lab and ln in self.rows and self.rows[ln][4] == 0 and ln in self.kind:
                        out.append(lab)
                    continue
                out.append(self.lines[ln - 1])
        out += self.lines[max(j, 1) - 1:(k if k else len(self.lines))]
        if k:
            if tr in ("sym",):
                out.append("gltrailsym\tequ\t1")
            if tr in ("end", "sym"):
                out.append("\tend")
        return "\n".join(out) + "\n"


def analyse(bld, tests):
    import concurrent.futures as cf
    args = [(bld.dir, bld.hooks, bld.flavour, t) for t in tests]
    with cf.ProcessPoolExecutor(max_workers=NCPU) as ex:
        res = list(ex.map(_analyse_job, args))
    return {t[0]: Src(t, a) for t, a in zip(tests, res) if a is not None and a["rc"] == 0}


# ---------------------------------------------------------------------------------------------------------
# running windows: solo and in chains
# ---------------------------------------------------------------------------------------------------------
class Win:
    """one rendered window of a golden source"""
    __slots__ = ("src", "j", "k", "tr", "text", "key", "alt", "alt2")

    def __init__(self, src, j, k, tr, minimal=0):
        self.src, self.j, self.k, self.tr = src, j, k, tr
        self.text = src.window(j, k, tr, minimal)
        self.key = (src.name, self.text)
        # the same window with the minimal header: preferred if it assembles alone without errors
        self.alt = Win(src, j, k, tr, 1) if (j > 1 and not minimal) else None
        self.alt2 = Win(src, j, k, tr, 2) if (j > 1 and not minimal) else None      # CPU statements only

    def desc(self):
        s = self.src
        return {"source": s.name, "from_line": self.j, "to_line": self.k, "trailer": self.tr,
                "first": s.lines[self.j - 1].strip() if self.j else "(top of the source)",
                "last": s.lines[self.k - 1].strip() if self.k else "(end of the source)"}


def _job(wins, names):
    """one invocation assembling the windows under the given file names (same asflags)"""
    copies, seen, files, argv = [], set(), {}, []
    for w, n in zip(wins, names):
        if w.src.name not in seen:
            seen.add(w.src.name)
            copies.append((w.src.t[1], w.src.name))
        rel = "%s/%s" % (w.src.name, n)
        files[rel] = w.text
        argv.append(rel)
    return {"copy": copies, "files": files, "argv": list(wins[0].src.flags) + ["-q", "-i", INCLUDE] + argv + ["-E"],
            "collect": (".p", ".log"), "timeout": 120}


def _norm(b):
    return NAME.sub("g.asm", b.decode("latin-1")) if b is not None else None


def _member(res, w, name):
    base = "%s/%s" % (w.src.name, name[:-4])
    return (res.files.get(base + ".p"), _norm(res.files.get(base + ".log")))


def chain_names(n):
    return ["g%04x.asm" % (i + 1) for i in range(n)]


def run_solos(bld, wins):
    """-> {key: (rc, p, log)} of the distinct windows; windows that end the run alone (fatal, signal, timeout) are left out"""
    uniq = {}
    for w in wins:
        uniq.setdefault(w.key, w)
    keys = list(uniq)
    res = drvrun.run_many(bld, [_job([uniq[k]], ["g0000.asm"]) for k in keys])
    solo, odd = {}, []
    for k, r in zip(keys, res):
        if r.timeout or r.sig is not None or r.rc not in (0, 2):
            odd.append((uniq[k], r))
            continue
        solo[k] = (r.rc,) + _member(r, uniq[k], "g0000.asm") + (NAME.sub("g.asm", r.out + r.err),)
    return solo, odd


def chain_diffs(chain, res, solo):
    """members of a chain whose outputs differ from their solo run -> [(position, text)]; + whole-run differences"""
    names = chain_names(len(chain))
    bad = []
    if res.timeout or res.sig is not None or res.rc not in (0, 2):
        return [(len(chain) - 1, "the joint run ended abnormally (rc=%s signal=%s timeout=%s)" % (res.rc, res.sig, res.timeout))]
    for i, (w, n) in enumerate(zip(chain, names)):
        rc, p, lg, _ = solo[w.key]
        gp, gl = _member(res, w, n)
        d = []
        if gp != p:
            d.append("code file differs (alone %s, here %s)" % (_sh(p), _sh(gp)))
        if gl != lg:
            d.append("diagnostics differ (alone %r, here %r)" % (_tail(lg), _tail(gl)))
        if d:
            bad.append((i, "; ".join(d)))
    if not bad:
        exp = 2 if any(solo[w.key][0] == 2 for w in chain) else 0
        if res.rc != exp:
            bad.append((len(chain) - 1, "exit status %s, composed from the solo runs: %s" % (res.rc, exp)))
        elif NAME.sub("g.asm", res.out + res.err) != "".join(solo[w.key][3] for w in chain):
            bad.append((len(chain) - 1, "console output differs from the solo runs: %r" % (res.out + res.err)[-300:]))
    return bad


def _sh(b):
    return "absent" if b is None else "%d bytes ..%s" % (len(b), bytes(b[-12:]).hex())


def _tail(s):
    return None if s is None else s[-240:]


def euler(n, pairs=None):
    """a closed walk over the complete directed graph with loops on n nodes that uses every edge once (every ordered
    pair (a, b) appears as neighbours exactly once); Hierholzer"""
    nxt = [list(range(n - 1, -1, -1)) for _ in range(n)]
    stack, out = [0], []
    while stack:
        v = stack[-1]
        if nxt[v]:
            stack.append(nxt[v].pop())
        else:
            out.append(stack.pop())
    return out[::-1]


# ---------------------------------------------------------------------------------------------------------
# the in-file probe: which (tail kind, head kind) pairs interact at all inside ONE file
# ---------------------------------------------------------------------------------------------------------
_EMIT = re.compile(rb'^\{"e":"emit","pass":(\d+),"line":(\d+),[^\n]*?"bytes":"([0-9a-f]*)"', re.M)
_DIAG = re.compile(rb'^\{"e":"diag","pass":(\d+),"line":(\d+),"num":(\d+)', re.M)


def _strip_label(src, ln):
    txt = src.lines[ln - 1]
    if src.rows[ln][1] and txt.strip():
        tok = txt.split()[0]
        if txt[0] not in " \t" or tok.endswith(":"):
            i = txt.index(tok)
            return txt[:i] + " " * len(tok) + txt[i + len(tok):]
    return txt


def probe_text(src, klines):
    """the source without the lines that lay down code, followed by the kind representatives in two orders in each of
    which every kind follows every kind exactly once -> (text, first line number of the sequence, walk)"""
    n = len(src.lines)
    head = [src.lines[ln - 1] for ln in range(1, n + 1)
            if ln not in src.drop and not (ln in src.rows and src.rows[ln][0].upper() == "END" and src.rows[ln][4] == 0)]
    w1 = euler(len(klines))
    perm = list(range(len(klines)))
    rng("c18/genlatent/probe/" + src.name).shuffle(perm)
    walk = w1 + [perm[i] for i in w1]
    stm = [_strip_label(src, ln) for ln in klines]
    return "\n".join(head + [stm[i] for i in walk]) + "\n", len(head) + 1, walk


def _probe_job(args):
    (bdir, hooks, flavour, t, text, first, walk) = args
    import shutil
    import subprocess
    import tempfile
    from vlib.build import Build
    from vlib.common import scratch
    b = Build(bdir, flavour, hooks)
    d = tempfile.mkdtemp(prefix="gp-", dir=scratch())
    try:
        shutil.copytree(t[1], os.path.join(d, t[0]))
        with open(os.path.join(d, t[0], "gprobe.asm"), "wb") as f:
            f.write(text.encode("latin-1"))
        e = dict(os.environ)
        e.update(b.env({"LANG": "C", "LC_ALL": "C"}))
        tr = os.path.join(d, "trace.ndjson")
        e["ASL_VERIF_TRACE"] = tr
        e["ASL_VERIF_EVENTS"] = "emit,diag"
        try:
            subprocess.run([b.tool("asl")] + list(t[3]) + ["-q", "-i", INCLUDE, "%s/gprobe.asm" % t[0]], cwd=d, env=e,
                           timeout=120, stdin=subprocess.DEVNULL, stdout=subprocess.DEVNULL, stderr=subprocess.DEVNULL)
        except subprocess.TimeoutExpired:
            return None
        if not os.path.exists(tr):
            return None
        code, diag = {}, {}
        with open(tr, "rb") as f:
            data = f.read()
        for (ps, ln, by) in _EMIT.findall(data):
            code.setdefault(int(ps), {}).setdefault(int(ln), []).append(by)
        for (ps, ln, num) in _DIAG.findall(data):
            diag.setdefault(int(ps), {}).setdefault(int(ln), []).append(int(num))
        last = max(list(code) + list(diag) + [1])
        code, diag = code.get(last, {}), diag.get(last, {})
        occ = collections.defaultdict(list)          # head -> [(tail, bytes, diags)]
        half = len(walk) // 2
        for p in range(1, len(walk)):
            if p == half:
                continue
            ln = first + p
            occ[walk[p]].append((walk[p - 1], b"".join(code.get(ln, [])), tuple(sorted(diag.get(ln, [])))))
        flagged = []
        for h, lst in occ.items():
            full = collections.Counter((c, dg) for (_, c, dg) in lst)
            (mc, mdg), cnt = full.most_common(1)[0]
            strong = cnt * 2 >= len(lst)
            if not strong:                            # position-dependent code: diagnostics and length only
                weak = collections.Counter((len(c), dg) for (_, c, dg) in lst)
                (ml, mdg), _ = weak.most_common(1)[0]
            seen = collections.defaultdict(list)
            for (t_, c, dg) in lst:
                if ((c, dg) != (mc, mdg)) if strong else ((len(c), dg) != (ml, mdg)):
                    seen[t_].append("%s/%d" % (",".join(map(str, dg)), len(c)))
            # the reaction follows the tail, not the position: it shows in both orders
            flagged += [(t_, h, r[0]) for t_, r in seen.items() if len(r) >= 2]
        return flagged
    finally:
        shutil.rmtree(d, ignore_errors=True)


def probe_all(bld, plan):
    """plan: [(src, klines)] -> [flagged pairs [(tail index, head index, reaction)] or None]"""
    import concurrent.futures as cf
    args = []
    for (src, klines) in plan:
        text, first, walk = probe_text(src, klines)
        args.append((bld.dir, bld.hooks, bld.flavour, src.t, text, first, walk))
    with cf.ProcessPoolExecutor(max_workers=NCPU) as ex:
        return list(ex.map(_probe_job, args))


# ---------------------------------------------------------------------------------------------------------
# slots, histories, replay
# ---------------------------------------------------------------------------------------------------------
def tracked_cpus():
    """CPU names of the generators that register a per-pass initialiser (read from the sources of the tree under test)"""
    names = set()
    try:
        for fn in sorted(os.listdir(REPO)):
            if fn.startswith("code") and fn.endswith(".c"):
                with open(os.path.join(REPO, fn), "rb") as f:
                    txt = f.read().decode("latin-1")
                if "AddInitPassProc(" in txt:
                    names.update(x.upper() for x in re.findall(r'"([A-Za-z0-9_./+-]{2,20})"\s*,\s*SwitchTo_', txt))
                    names.update(x.upper() for x in re.findall(r'AddCPU\w*\(\s*"([^"]+)"', txt))
    except OSError:
        pass
    return names


_CPU = re.compile(r"^\s*cpu\s+([^\s;]+)", re.I | re.M)
_ASSUME = re.compile(r"^[ \t]+assume[ \t][^\n]*$", re.I | re.M)


def is_tracked(src, cpus):
    if src.name in TRACKED_EXTRA:
        return True
    used = {m.upper() for m in _CPU.findall("\n".join(src.lines))}
    return bool(used & cpus)


class Family:
    """slots of one golden source"""

    def __init__(self, src, tracked, tier, nkind):
        self.src, self.tracked = src, tracked
        r = rng("c18/genlatent/slots/" + src.name)
        by_kind = collections.defaultdict(list)
        for ln in src.clean:
            by_kind[src.kind[ln]].append(ln)
        kinds = sorted(by_kind)
        if not tracked:
            r.shuffle(kinds)            # tracked: source order (deterministic, all of them up to the bound)
        cap = nkind if tracked else min(nkind, 60 if tier == "quick" else 160)
        self.klines = [r.choice(by_kind[k]) for k in kinds[:cap]]          # kind slot i -> line
        self.nkinds = len(kinds)
        cuts = list(kinds)
        r.shuffle(cuts)
        self.cut = [r.choice(by_kind[k]) for k in cuts]                    # cut slot k -> line
        hk = collections.defaultdict(list)
        for ln in src.emit:
            hk[src.kind[ln]].append(ln)
        starts = sorted(hk)
        r.shuffle(starts)
        self.start = [r.choice(hk[k]) for k in starts]                     # start slot j -> line
        self.opened = r.choice(src.opened) if src.opened else None
        self.whole_limit = WIN if tier == "quick" else None

    def win(self, w, tier):
        """the window a TLC window record stands for, or None if the family has no such slot"""
        s, lim = self.src, self.whole_limit
        if w["w"] == "one":
            if w["j"] > len(self.klines):
                return None
            ln = self.klines[w["j"] - 1]
            return Win(s, ln, ln, "end")
        if w["w"] == "pred":
            if w["tr"] == "open":
                if self.opened is None:
                    return None
                k = self.opened
            elif w["k"] > len(self.cut):
                return None
            else:
                k = self.cut[w["k"] - 1]
            j = 0 if lim is None else max(1, k - lim)
            return Win(s, j, k, "none" if w["tr"] == "open" else w["tr"])
        if w["w"] == "succ":
            if w["j"] > len(self.start):
                return None
            j = self.start[w["j"] - 1]
            k = 0
            if lim is not None and j + lim < len(s.lines):
                inside = [ln for ln in s.clean if j <= ln <= j + lim]
                k = inside[-1] if inside else j + lim
            return Win(s, j, k, "none")
        if w["w"] == "whole":
            if lim is None or not s.clean:
                return Win(s, 0, 0, "none")
            inside = [ln for ln in s.clean if ln <= lim * 2]
            return Win(s, 0, inside[-1] if inside else s.clean[0], "none")
        return None


def select_pairs(fam, flagged, tier, allowed):
    """which (tail slot, head slot) single-instruction pairs are replayed: quick = the pairs the in-file probe shows to
    interact (spread over tails and reactions) + a few others; thorough = all of them up to a bound"""
    r = rng("c18/genlatent/pairs/" + fam.src.name)
    n = len(fam.klines)
    cap = (48 if fam.tracked else 12) if tier == "quick" else (4000 if fam.tracked else 400)
    by_tail = collections.defaultdict(lambda: collections.defaultdict(list))
    for (t, h, reaction) in flagged or ():
        by_tail[t][reaction].append(h)
    queues = []
    for t in sorted(by_tail):
        q = []
        groups = [r.sample(v, len(v)) for _, v in sorted(by_tail[t].items())]
        while any(groups):
            for g in groups:
                if g:
                    q.append((t, g.pop()))
        queues.append(q)
    r.shuffle(queues)
    out = []
    while any(queues) and len(out) < cap:
        for q in queues:
            if q and len(out) < cap:
                out.append(q.pop(0))
    extra = 3 if tier == "quick" else cap
    if tier != "quick" and n * n <= cap:
        out = [(a, b) for a in range(n) for b in range(n)]
    else:
        for _ in range(extra):
            if n:
                out.append((r.randrange(n), r.randrange(n)))
    seen, res = set(), []
    for p in out:
        if p not in seen and (p[0] + 1, p[1] + 1) in allowed:
            seen.add(p)
            res.append(p)
    return res


def run(rep, bld, tier):
    if not bld.hooks:
        rep.drift("genlatent: no hooked build, the tail x head histories are not replayed")
        return
    # (M) ---------------------------------------------------------------------------------------
    good = ["GenLatent_MC.cfg"] + (["GenLatent_MC2h.cfg", "GenLatent_MC3.cfg"] if tier != "quick" else [])
    why = ["GenLatent_MC_nxtwhy.cfg", "GenLatent_MC_nxtwhy3.cfg"] + (["GenLatent_MC_nxtwhy2h.cfg"] if tier != "quick" else [])
    dev = [("GenLatent_MC_nxt.cfg", "Leak = {nxt}: the per-pass initialiser forgets the one-shot trackers"),
           ("GenLatent_MC_mode.cfg", "Leak = {mode}: the per-pass initialiser forgets a sticky mode")]
    gen_cfg = "GenLatent_Gen.cfg" if tier == "quick" else "GenLatent_Gen_full.cfg"
    from vlib.common import pmap

    def one(x):
        mod, cfg = x
        return tlc.run(mod, cfg, workers=2 if cfg == gen_cfg else 1, timeout=1500, mem="4g", tags=("GL",))
    todo = [("GenLatent_MC", c) for c in good + why] + [("GenLatent_MC", c) for (c, _) in dev] + \
           [("GenLatent_Gen", "GenLatent_Gen_nxt.cfg"), ("GenLatent_Gen", gen_cfg)]
    with Phase("TLC GenLatent: %d configurations" % len(todo)):
        rs = dict(zip([c for (_, c) in todo], pmap(one, todo, workers=4)))
    for c in good + why + ["GenLatent_Gen_nxt.cfg", gen_cfg]:
        r = tlc.must(rs[c], "GenLatent(%s)" % c)
        if r.violation:
            raise CheckError("GenLatent(%s): the specification violates its invariant: %s" % (c, r.violation[:600]))
        rep.model("GenLatent(%s)" % c, r)
    for (c, note) in dev:
        r = rs[c]
        if r.error and not r.violation:
            raise CheckError("GenLatent(%s): %s" % (c, r.error[:400]))
        rep.part("GenLatent(%s)" % c, expected_counterexample=bool(r.violation), note=note)
        if not r.violation or "Indep" not in r.violation:
            raise CheckError("the deviation %s is not refuted by TLC" % c)
    shapes = [o for (tag, o) in rs[gen_cfg].printed if tag == "GL"]
    if not shapes or not all(o["expect"] for o in shapes):
        raise CheckError("GenLatent_Gen printed no shapes / a shape that is not expected independent")
    general = [o for o in shapes if o["type"][0] != "one"]
    allowed = {(o["files"][0]["j"], o["files"][1]["j"]) for o in shapes if o["type"][0] == "one"}
    nkind = max([a for (a, _) in allowed] or [0])

    # (G) ---------------------------------------------------------------------------------------
    tests = aslrun.corpus()
    with Phase("genlatent: hook traces of %d golden sources" % len(tests)):
        srcs = analyse(bld, tests)
    cpus = tracked_cpus()
    fams = {n: Family(s, is_tracked(s, cpus), tier, nkind) for n, s in sorted(srcs.items()) if s.emit}
    plan = [(f.src, f.klines) for f in fams.values() if len(f.klines) >= 2]
    with Phase("genlatent: in-file probe of %d families (every kind behind every kind, two orders)" % len(plan)):
        flagged = dict(zip([s.name for (s, _) in plan], probe_all(bld, plan)))
    by_flags = collections.defaultdict(list)
    for f in fams.values():
        by_flags[f.src.flags].append(f)
    r = rng("c18/genlatent/partner")
    hists = []                      # (family name, shape record, [Win])
    for name, f in fams.items():
        others = [g for g in by_flags[f.src.flags] if g is not f]
        partner = r.choice(others) if others else None
        for o in general:
            ws = []
            for w in o["files"]:
                ff = f if w["f"] == "a" else partner
                ws.append(ff.win(w, tier) if ff is not None else None)
            if all(x is not None for x in ws):
                hists.append((name, o, ws))
        for (a, b) in select_pairs(f, flagged.get(name), tier, allowed):
            o = {"type": ["one", "same" if a == b else "diff", ""], "expect": True,
                 "files": [{"w": "one", "f": "a", "j": a + 1, "k": a + 1, "tr": "end"},
                           {"w": "one", "f": "a", "j": b + 1, "k": b + 1, "tr": "end"}]}
            hists.append((name, o, [f.win(o["files"][0], tier), f.win(o["files"][1], tier)]))
    with Phase("genlatent: solo runs of the distinct windows of %d histories" % len(hists)):
        alts, _ = run_solos(bld, [a for (_, _, ws) in hists for w in ws if w.alt is not None for a in (w.alt, w.alt2)])
        for (_, _, ws) in hists:
            for i, w in enumerate(ws):
                for a in ((w.alt2, w.alt) if w.alt is not None else ()):
                    if alts.get(a.key, (2, None))[0] == 0 and alts[a.key][1] is not None:
                        ws[i] = a
                        break
        solo, odd = run_solos(bld, [w for (_, _, ws) in hists for w in ws if w.key not in alts])
        solo.update(alts)
    for (w, res) in odd[:5]:
        rep.drift("genlatent: window %s of %s ends the run alone (rc=%s signal=%s timeout=%s); left out"
                  % ((w.j, w.k), w.src.name, res.rc, res.sig, res.timeout))
    hists = [h for h in hists if all(w.key in solo for w in h[2])]
    # chains: histories of the same asflags one after the other in ONE invocation
    chains, cur, curflags = [], [], None
    order = sorted(range(len(hists)), key=lambda i: (hists[i][2][0].src.flags, rng("c18/genlatent/order/%d" % i).random()))
    for i in order:
        ws = hists[i][2]
        fl = ws[0].src.flags
        if cur and (fl != curflags or len(cur) + len(ws) > CHAIN):
            chains.append(cur)
            cur = []
        curflags = fl
        cur += [(i, w) for w in ws]
    if cur:
        chains.append(cur)
    with Phase("genlatent: %d histories in %d invocations" % (len(hists), len(chains))):
        res = drvrun.run_many(bld, [_job([w for (_, w) in c], chain_names(len(c))) for c in chains])
    nbad = 0
    for c, m in zip(chains, res):
        wins = [w for (_, w) in c]
        for i in sorted({i for (i, _) in c}):
            rep.evaluated()
            rep.distinct("genlatent:" + "|".join("%s:%d-%d%s" % (w.src.name, w.j, w.k, w.tr) for w in hists[i][2]), True)
        for (pos, what) in chain_diffs(wins, m, solo)[:4]:
            nbad += 1
            if nbad > 12:
                continue
            # localise: the shortest run of files in front of the member that reproduces the difference
            culprit, L = wins[:pos + 1], 1
            while L <= pos:
                sub = wins[pos - L:pos + 1]
                m2 = drvrun.run_job(bld, _job(sub, chain_names(len(sub))))
                if any(p2 == len(sub) - 1 for (p2, _) in chain_diffs(sub, m2, solo)):
                    culprit = sub
                    break
                L *= 2
            hi, w = c[pos]
            names = chain_names(len(culprit))
            files = {"%s__%s" % (x.src.name, n): x.text for x, n in zip(culprit, names)}
            files["argv"] = " ".join(_job(culprit, names)["argv"])
            # attribution: does the difference vanish when the ASSUME statements of the predecessors are taken out?
            cul = "none"
            if any(_ASSUME.search(x.text) for x in culprit[:-1]):
                sub = []
                for x in culprit[:-1]:
                    y = Win(x.src, x.j, x.k, x.tr, 1)
                    y.text = _ASSUME.sub("", x.text)
                    sub.append(y)
                m3 = drvrun.run_job(bld, _job(sub + [w], names))
                if m3.rc in (0, 2) and _member(m3, w, names[-1]) == solo[w.key][1:3]:
                    cul = "assume"
            first = w.j if w.j else (w.src.emit[0] if w.src.emit else 0)
            head_op = w.src.rows[first][0].upper() if first in w.src.rows else ""
            rep.violation("window of %s (lines %s..%s, first statement %r) assembles differently after %s in the same "
                          "invocation than alone: %s [explained by ASSUME statements of the predecessors: %s]"
                          % (w.src.name, w.j or 1, w.k or "end", w.desc()["first"],
                             " + ".join("%s[..%r]" % (x.src.name, x.desc()["last"]) for x in culprit[:-1])[:600], what[:700],
                             "yes" if cul == "assume" else "no"),
                          case={"history": [x.desc() for x in culprit], "shape": hists[hi][1]}, files=files,
                          key={"kind": "genlatent", "family": w.src.name, "culprit": cul, "head_op": head_op,
                               "differs": "code" if "code file" in what else "diagnostics" if "diagnostics" in what else "exit",
                               "head": w.src.kind.get(w.j, ""),
                               "tail": culprit[-2].src.kind.get(culprit[-2].k, "") if len(culprit) > 1 else ""})
    ones = sum(1 for h in hists if h[1]["type"][0] == "one")
    rep.traces(len(hists))
    rep.part("GenLatent(replay)", families=len(fams), tracked=sorted(n for n, f in fams.items() if f.tracked),
             shapes_from_tlc=len(shapes), histories=len(hists), single_instruction_pairs=ones,
             probe_interacting_pairs=sum(len(v or ()) for v in flagged.values()), invocations=len(chains),
             windows_solo=len(solo), members_differing=nbad)
    if hists:
        name, o, ws = hists[-1]
        rep.sample({"family": name, "shape": o, "windows": [w.desc() for w in ws]})
