"""C18 extension: latent state INSIDE the code generators - where the predecessor stops x where the successor starts.

Specification: spec/GenLatent.tla.  A code generator keeps state of its own between two statements: one-shot trackers
(C16x N_CPChanged/N_SPChanged/N_DPPChanged "the previous machine instruction wrote CP/SP/DPPn", 65xx CLI_SEI_Flag /
ADC_SBC_Flag, TMS320C3x NextPar/PrevOp/PrevARs, SH7000 delay slot / literal pool, MIPS load delay ...: they live for
exactly ONE machine instruction) and sticky modes (ASSUMEd bank/page/direct-page registers, M/X width flags, ExtCounter
...: they live until changed).  The procedure the generator registers with AddInitPassProc() must bring all of it back
to the start value at the beginning of every pass of every file (GenLatent!InitPassG); a component it forgets
(deviation Leak) is handed from the LAST machine instruction of one file to the FIRST machine instruction of the next
file assembled by that generator - code bytes, exit contribution or DIAGNOSTICS (a spurious "possible pipelining
effects" warning) of the successor then depend on the predecessor, which C18 forbids.  The whole golden sources never
end in a state-setting instruction the next file's first instruction depends on, so the corpus pairs/chains of c18.py
cannot see this; the dimension added here is  (last machine instruction of the predecessor) x (first machine
instruction of the successor) x order x family, for EVERY code generator.  It is differential: no per-target oracle,
the reference is the same successor text assembled alone with the same options.

(M) GenLatent_MC.cfg: every history of 2 files of <= 2 statements (GenLatent_MC3.cfg: 3 files of 1 statement, thorough)
    of two generator families over the statement classes {n, set h, dep h (warning / error), mode v, use, pseudo, fwd}:
    Independent (every file's code, exit contribution and diagnostics = the file assembled alone).  Deviations that
    TLC must refute: GenLatent_MC_nxt.cfg (Leak = {nxt}: the seeded C16x change), GenLatent_MC_mode.cfg (Leak = {mode});
    GenLatent_MC_nxtwhy.cfg: with Leak = {nxt} a file differs ONLY IF the last machine instruction of the previous file
    of its family is a `set h` and its own first machine instruction is a `dep h` (OnlyTailHead) - the reason why
    nothing short of the tail x head product finds it, and why files of other families in between do not matter.
(G) GenLatent_Gen*.cfg: TLC enumerates the histories to replay as sequences of WINDOWS of golden sources
       [f |-> family slot, from |-> start slot j (0 = top of the source), to |-> cut slot k (0 = end of the source),
        tr |-> how the cut is closed: nothing / END / a symbol definition + END / left inside an open construct]
    in the shapes  cut-start pair <<Pred(a,k,tr), Succ(a|b,j)>>,  through another family <<Pred(a,k), Whole(b),
    Succ(a,j)>>,  reverse order <<Succ(a,j), Pred(a,k)>>  and  single instructions <<One(a,i), One(a,i')>>, and computes
    for every shape `expect` = "for EVERY interpretation of the cut / start statements as statement classes every file
    is independent" (TRUE for Leak = {}; the Leak = {nxt} variant must give FALSE for all same-family shapes, i.e. every
    shape is sensitive).  Python instantiates the slots: per golden source (= family; 201 of them, every code generator
    that has a test) the hook trace of the solo run (line + stmt events) tells which source lines lay down code
    themselves; a KIND is a mnemonic with its operand shape (digits collapsed), slots are seed-chosen kinds.
    Window(j,k) = the lines in front of j that do not lay down code (CPU, symbol / macro / structure definitions, ASSUME,
    ORG, conditionals; labels of dropped lines kept) + lines j..k unchanged + the closing trailer.
      all families      quick: NCUT x NSTART slots per family (3 x 3), windows of at most WIN source lines;
                        thorough 8 x 8, whole prefixes / suffixes
      tracked families  (generators that register an AddInitPassProc + the pipeline / delay-slot / parallel-instruction
                        trackers of TRACKED_EXTRA, found by reading the generators): ALL kinds x ALL kinds as single-
                        instruction files One(i), One(i') (quick: at most FULL_KINDS kinds per family, seed-chosen)
    The histories are packed into chains (one asl invocation assembles up to CHAIN files: every adjacent pair of the
    chain is one TLC-enumerated pair, an Euler tour of the pair graph for the single-instruction files), every member
    is compared with its solo run: code file, <name>.log (all diagnostics, warnings included), exit status composed
    from the solo statuses.  A member that differs is localised to the shortest chain suffix in front of it that
    reproduces the difference; that history is what the VIOLATION names.
Not covered: state that needs two or more particular machine instructions at the end of the predecessor is met only by
the longer windows (sampled); statements reached only through macro expansion / include files are never cut or start
points; sources whose emitters all sit inside a construct (section / IF) give start points only.
"""
import collections
import hashlib
import os
import re

from vlib import aslrun, drvrun, tlc
from vlib.aslrun import INCLUDE
from vlib.common import NCPU, REPO, CheckError, Phase, log, rng

CHAIN = 120                 # files per invocation
WIN = 25                    # quick: source lines of a window
NAME = re.compile(r"\bg[0-9a-f]{4,}\.(asm|ASM)\b")
# generators whose trackers are NOT reset through AddInitPassProc but which follow the previous instruction (read in
# the code: NextPar/ThisPar/PrevOp (3203x), parallel || packets (3206x), delay slots / literals (7000), CB/IX prefix
# state (z80), bank / page tracking (PIC), load delay (mips)); by name of the golden source directory
TRACKED_EXTRA = ("t_3203x", "t_3204x", "t_3206x", "t_7000", "t_16c5x", "t_16c84", "t_17c42", "t_z80syntax", "t_r2000",
                 "t_56000", "t_7720", "t_7725", "t_77230", "t_96", "t_960")


# ---------------------------------------------------------------------------------------------------------
# analysis of a golden source through the hook trace of its solo run
# ---------------------------------------------------------------------------------------------------------
_LINE = re.compile(rb'^\{"e":"line","pass":(\d+),"depth":(\d+)')
_STMT = re.compile(rb'^\{"e":"stmt","pass":(\d+),"line":(\d+),"op":"((?:[^"\\]|\\.)*)",.*?"lab":(\d),"ifasm":(\d),'
                   rb'"wasif":\d,"wasmac":(\d),"rec":(\d),.*?"phd":(\d+),"svd":(\d+),"std":(\d+),"sed":(\d+),'
                   rb'"tagd":\d+,"len":(-?\d+),.*?"errs":(\d+),"ifs":\[(.*)\]\}')
_BLOCK = ("REPT", "IRP", "IRPC", "WHILE")


def _analyse_job(args):
    """worker: assemble one golden test with line+stmt events, return the compact per-line classification"""
    (bdir, hooks, flavour, t) = args
    import shutil
    import subprocess
    import tempfile
    from vlib.build import Build
    from vlib.common import scratch
    b = Build(bdir, flavour, hooks)
    d = tempfile.mkdtemp(prefix="ga-", dir=scratch())
    try:
        shutil.copytree(t[1], os.path.join(d, t[0]))
        e = dict(os.environ)
        e.update(b.env({"LANG": "C", "LC_ALL": "C"}))
        tr = os.path.join(d, "trace.ndjson")
        e["ASL_VERIF_TRACE"] = tr
        e["ASL_VERIF_EVENTS"] = "line,stmt"
        try:
            p = subprocess.run([b.tool("asl")] + list(t[3]) + ["-q", "-i", INCLUDE, "%s/%s.asm" % (t[0], t[0])], cwd=d, env=e,
                               timeout=120, stdin=subprocess.DEVNULL, stdout=subprocess.DEVNULL, stderr=subprocess.DEVNULL)
            rc = p.returncode
        except subprocess.TimeoutExpired:
            return None
        if not os.path.exists(tr):
            return None
        main = {}               # pass -> {line: [op, lab, ifasm, wasmac, rec, open, len, nested_len]}
        order = {}
        depth, cur = 1, None
        with open(tr, "rb") as f:
            for raw in f:
                m = _LINE.match(raw)
                if m:
                    depth = int(m.group(2))
                    continue
                m = _STMT.match(raw)
                if not m:
                    continue
                ps = int(m.group(1))
                rows = main.setdefault(ps, {})
                if depth == 1:
                    ln = int(m.group(2))
                    opened = int(m.group(8)) + int(m.group(9)) + int(m.group(10)) + int(m.group(11)) + (1 if m.group(14) else 0)
                    cur = rows[ln] = [m.group(3).decode("latin-1"), int(m.group(4)), int(m.group(5)), int(m.group(6)),
                                      int(m.group(7)), opened, int(m.group(12)), 0]
                    order.setdefault(ps, []).append(ln)
                elif cur is not None and ps in main and int(m.group(12)) > 0 and int(m.group(5)) and not int(m.group(7)):
                    cur[7] += int(m.group(12))
        if not main:
            return None
        last = max(main)
        return {"rc": rc, "rows": main[last], "order": order[last], "passes": last}
    finally:
        shutil.rmtree(d, ignore_errors=True)


class Src:
    """a golden source with the classification of its lines"""

    def __init__(self, t, a):
        self.t, self.name, self.flags = t, t[0], tuple(t[3])
        with open(t[2], "rb") as f:
            self.lines = f.read().decode("latin-1").split("\n")
        self.rows, self.passes = a["rows"], a["passes"]
        rows = self.rows
        n = len(self.lines)
        self.drop = set()           # lines that lay down code (directly, or through a macro call / REPT block)
        self.emit = []              # direct emitters, in order
        block = None
        for ln in a["order"]:
            r = rows[ln]
            if ln > n:
                continue
            op = r[0].upper()
            if block is None and r[4] and op in _BLOCK:
                block = ln
            if r[4] == 0 and block is not None and op == "ENDM":
                if r[7] > 0:
                    self.drop.update(range(block, ln + 1))
                block = None
                continue
            if r[4] or not r[2]:
                continue
            if r[6] > 0:
                self.emit.append(ln)
                self.drop.add(ln)
            elif r[7] > 0 and op not in ("INCLUDE", "BINCLUDE", "ENDM"):
                self.drop.add(ln)
        self.clean = [ln for ln in self.emit if rows[ln][5] == 0]
        self.opened = [ln for ln in self.emit if rows[ln][5] > 0]
        self.kind = {ln: self._kind(ln) for ln in self.emit}

    def _kind(self, ln):
        txt = self.lines[ln - 1].split(";")[0]
        op = self.rows[ln][0]
        m = re.search(re.escape(op), txt, re.I)
        ops = re.sub(r"\s+", "", txt[m.end():] if m else "").lower()
        ops = re.sub(r"\$[0-9a-f]+|\b[0-9][0-9a-f]*h\b|0x[0-9a-f]+|%[01]+|\d+", "N", ops)
        return op.upper() + " " + ops

    def _label_only(self, ln):
        txt = self.lines[ln - 1]
        if not self.rows.get(ln, [0, 0])[1] or not txt.strip():
            return None
        tok = txt.split()[0]
        if txt[0] in " \t" and not tok.endswith(":"):
            return None
        return tok

    def window(self, j, k, tr):
        """header (the lines in front of j that lay down no code) + lines j..k + trailer.  j = 0: from the top;
        k = 0: to the end of the source"""
        out = []
        if j > 1:
            for ln in range(1, j):
                if ln in self.drop:
                    lab = self._label_only(ln)
                    if lab and ln in self.rows and self.rows[ln][4] == 0 and ln in self.kind:
                        out.append(lab)
                    continue
                out.append(self.lines[ln - 1])
        out += self.lines[max(j, 1) - 1:(k if k else len(self.lines))]
        if k:
            if tr in ("sym",):
                out.append("gltrailsym\tequ\t1")
            if tr in ("end", "sym"):
                out.append("\tend")
        return "\n".join(out) + "\n"


def analyse(bld, tests):
    import concurrent.futures as cf
    args = [(bld.dir, bld.hooks, bld.flavour, t) for t in tests]
    with cf.ProcessPoolExecutor(max_workers=NCPU) as ex:
        res = list(ex.map(_analyse_job, args))
    return {t[0]: Src(t, a) for t, a in zip(tests, res) if a is not None and a["rc"] == 0}


# ---------------------------------------------------------------------------------------------------------
# running windows: solo and in chains
# ---------------------------------------------------------------------------------------------------------
class Win:
    """one rendered window of a golden source"""
    __slots__ = ("src", "j", "k", "tr", "text", "key")

    def __init__(self, src, j, k, tr):
        self.src, self.j, self.k, self.tr = src, j, k, tr
        self.text = src.window(j, k, tr)
        self.key = (src.name, self.text)

    def desc(self):
        s = self.src
        return {"source": s.name, "from_line": self.j, "to_line": self.k, "trailer": self.tr,
                "first": s.lines[self.j - 1].strip() if self.j else "(top of the source)",
                "last": s.lines[self.k - 1].strip() if self.k else "(end of the source)"}


def _job(wins, names):
    """one invocation assembling the windows under the given file names (same asflags)"""
    copies, seen, files, argv = [], set(), {}, []
    for w, n in zip(wins, names):
        if w.src.name not in seen:
            seen.add(w.src.name)
            copies.append((w.src.t[1], w.src.name))
        rel = "%s/%s" % (w.src.name, n)
        files[rel] = w.text
        argv.append(rel)
    return {"copy": copies, "files": files, "argv": list(wins[0].src.flags) + ["-q", "-i", INCLUDE] + argv + ["-E"],
            "collect": (".p", ".log"), "timeout": 120}


def _norm(b):
    return NAME.sub("g.asm", b.decode("latin-1")) if b is not None else None


def _member(res, w, name):
    base = "%s/%s" % (w.src.name, name[:-4])
    return (res.files.get(base + ".p"), _norm(res.files.get(base + ".log")))


def chain_names(n):
    return ["g%04x.asm" % (i + 1) for i in range(n)]


def run_solos(bld, wins):
    """-> {key: (rc, p, log)} of the distinct windows; windows that end the run alone (fatal, signal, timeout) are left out"""
    uniq = {}
    for w in wins:
        uniq.setdefault(w.key, w)
    keys = list(uniq)
    res = drvrun.run_many(bld, [_job([uniq[k]], ["g0000.asm"]) for k in keys])
    solo, odd = {}, []
    for k, r in zip(keys, res):
        if r.timeout or r.sig is not None or r.rc not in (0, 2):
            odd.append((uniq[k], r))
            continue
        solo[k] = (r.rc,) + _member(r, uniq[k], "g0000.asm") + (NAME.sub("g.asm", r.out + r.err),)
    return solo, odd


def chain_diffs(chain, res, solo):
    """members of a chain whose outputs differ from their solo run -> [(position, text)]; + whole-run differences"""
    names = chain_names(len(chain))
    bad = []
    if res.timeout or res.sig is not None or res.rc not in (0, 2):
        return [(len(chain) - 1, "the joint run ended abnormally (rc=%s signal=%s timeout=%s)" % (res.rc, res.sig, res.timeout))]
    for i, (w, n) in enumerate(zip(chain, names)):
        rc, p, lg, _ = solo[w.key]
        gp, gl = _member(res, w, n)
        d = []
        if gp != p:
            d.append("code file differs (alone %s, here %s)" % (_sh(p), _sh(gp)))
        if gl != lg:
            d.append("diagnostics differ (alone %r, here %r)" % (_tail(lg), _tail(gl)))
        if d:
            bad.append((i, "; ".join(d)))
    if not bad:
        exp = 2 if any(solo[w.key][0] == 2 for w in chain) else 0
        if res.rc != exp:
            bad.append((len(chain) - 1, "exit status %s, composed from the solo runs: %s" % (res.rc, exp)))
        elif NAME.sub("g.asm", res.out + res.err) != "".join(solo[w.key][3] for w in chain):
            bad.append((len(chain) - 1, "console output differs from the solo runs: %r" % (res.out + res.err)[-300:]))
    return bad


def _sh(b):
    return "absent" if b is None else "%d bytes ..%s" % (len(b), bytes(b[-12:]).hex())


def _tail(s):
    return None if s is None else s[-240:]


def euler(n, pairs=None):
    """a closed walk over the complete directed graph with loops on n nodes that uses every edge once (every ordered
    pair (a, b) appears as neighbours exactly once); Hierholzer"""
    nxt = [list(range(n - 1, -1, -1)) for _ in range(n)]
    stack, out = [0], []
    while stack:
        v = stack[-1]
        if nxt[v]:
            stack.append(nxt[v].pop())
        else:
            out.append(stack.pop())
    return out[::-1]
