"""C10 extension (phase "structinst"): structure definition details and structure instantiation.

Specification: spec/StructInst.tla - the operators of asmallg.c CodeSTRUCT / CodeENDSTRUCT, asmstructs.c BuildStructName /
AddStructSymbol / AddStructElem / ExpandStruct(_One), asmlabel.c LabelHandle and as.c Produce_Code / WriteCode for a
structure name used as an instruction, on top of AddrBook.tla (EXTENDS: counters, PHASE, the STRUCT stack of the existing
C10 phases), next to the manual's promise written on the syntax tree of a definition (DSize: a STRUCT is as long as its
members together, a UNION as its longest member; DSyms: every member at the sum of the sizes before it, 0 in a UNION,
members of a nameless body belong to the next higher named one, nested names are composed; InstancePromise: `X S` at
execution address A defines X = A and X<c>member = A + offset, occupies exactly LEN units, changes nothing else).
(M) StructInst_MC: every program over a bounded alphabet (STRUCT / UNION named and nameless, nested 2 deep, DOTS /
    NOEXTNAMES / DOTTEDSTRUCTS, fields of 1..2 units, unlabelled reservations, ENDSTRUCT bare / with the label / with a
    name for the length, <= 2 instantiations - plain and arrays [2] - in the ordinary segment, inside a STRUCT body, inside
    a UNION, PHASE / DEPHASE / ORG / SEGMENT / data in between, and the statements that must be refused: ENDSTRUCT
    without STRUCT, wrong label on ENDSTRUCT, freestanding nameless STRUCT, unknown structure, instantiation without
    label, second element of a name, data inside a body): quick StructInst_MC.cfg (4 statements, whole alphabet),
    _def (definitions, 5), _inst (instances, narrow alphabet, 6); thorough 5 and 6 / 6 / 8 and _fixed (FixAnon = TRUE, 8).
    Invariants: Shape FieldIsOffset SubIsOffset LenIsSize TotIsStructLen DefinitionIsPromise InstanceIsPromise
    InstanceOccupiesLen InstanceInBody BodyEmitsNothing RefusedChangesNothing SymbolsSingleValued.
    Configurations TLC must refute (named deviations of the pinned code): _dev_anon (InstanceIsPromise demanded of every
    definition: AnonOffsetDropped), _dev_noext (NoExtNamesAsManual: NoExtNamesKeepsOwnPrefix).
(G) StructInst_Gen: an exhaustive family (breadth-first: EVERY definition of at most 6, thorough 7, statements over one
    field size and nested named / nameless STRUCT / UNION, followed by `X S`: 228 programs, thorough about a thousand) and TLC-simulated
    programs of 16 statements (2 definitions with options, 3 field sizes, nested named /
    nameless STRUCT / UNION, <= 3 instantiations with [2] / [2],[2], two segments, PHASE), of 12 statements with only
    nameless nested bodies (GenAnon), of 11 statements with one definition and instances between PHASE / DEPHASE / ORG /
    SEGMENT / data (GenPhase) and of 12 statements with refused statements (GenErr); every step carries the operators' prediction (symbol definitions in order, errors, reservation, segment /
    load / execution address / open definitions afterwards).  Rendered for 8051 (byte granular, XDATA as second segment;
    fields `db ?` `dw ?` `ds n` in several spellings) and 320C25 (word granular, `res n`), assembled by the hook build.
    Read back: every sym_def / reserve / emit / diag / stmt hook record of every line, and the code file (data markers and
    a table of `db`/`word` statements that store the instance symbols).
(V) StructInst_Trace: one event per statement (hook records regrouped per line); TLC classifies the statement like
    Produce_Code, runs it through the operators, keeps the syntax tree next to it and judges the observation against
    the promise on the tree.  Runs: all generated programs (strict) and every golden source that uses STRUCT / UNION
    (12: t_structs, t_nestedstructs, t_strarray, t_secdrive, t_h8_3, t_h8_5, t_pdk13..16, t_s12z, t_full09; all passes).
Verdict-bearing (rep.violation): TLC verdict "bad" - a field / nested definition is not defined as its offset (0 in a
union), the length symbol is not the total (maximum) size, a body reaches the code file or does not start at 0, the
counters after the definition are not those of before, an instance member is not label + offset (PHASE: execution
address), the instance does not reserve exactly LEN units at the load address / the counter does not advance by LEN;
for generated programs also a code file whose image is not the one the predicted addresses give.
SPEC-DRIFT: differences from the operators' finer prediction where the manual is silent or not followed on purpose
(NOEXTNAMES naming, names of array elements, which errors are reported, ENDSTRUCT argument), traces that cannot be followed.
Not judged: sections (the table is keyed by name), bit-field elements with their own expansion function (DEFBIT, H8 /
PDK / S12Z / Z8 bit symbols: extra definitions of an instance are tolerated in golden sources), labels built by {symbol}
expansion, sizes of UNION members in golden sources (CodeLen is cleared before the stmt hook: the observed length symbol is
taken), case-sensitive mode (-U: the length symbol is spelled `<name>_len`, lower case, although the manual says LEN),
ORG / ALIGN inside a body, addresses >= 2^30.

Finding (known_findings/C10-structinst.json, proposed_fixes/C10-anon-member-offset.diff/.md): a labelled member written
directly inside a NAMELESS struct/union of a structure is stored with its offset inside the nameless body only
(asmlabel.c LabelHandle): `x S` defines X_<member> = x + offset-inside-the-nameless-body although S_<member> is the offset
in S (manual, Nameless Structures: the elements "become part of the 'next higher' named structure"; Usage: "defines a
symbol for every element of the structure with its address").  With the diff applied the phase reports nothing.
Mutations of the real code tried (scratch copies /tmp/gst-m*; the plain forms - no base address at all, CodeLen - 1 for
every union member, nested Base without the offset, TotLen + 1 - fail t_structs / t_nestedstructs / t_strarray of the
repository's own suite, so the forms below were narrowed until all 201 ctest tests stay green; run as
VERIF_REPO=/tmp/gst-mN ./check C10 --tier quick):
  m1 asmstructs.c ExpandStruct_One: ExpandFnc(..., IsUnion ? 0 : Base)        instance members of a UNION without the
     base address                                                            caught: "instance X S: X_1_A = 0, the manual
                                                                             implies 1 (label + offset)", 94 violations
  m2 as.c WriteCode: BumpStructLength(named && DontPrint ? CodeLen - 1 : ..)  length of a named union one short
                                                                             caught (already by the AddrBook_Gen phase;
                                                                             here: "length symbol ... (maximum size)")
  m3 asmstructs.c ExpandStruct_One: nested Base + (IsUnion ? 0 : Offset)      offset of a nested named union not
     accumulated                                                             caught by the exhaustive family only
                                                                             ("X_N_A = 0, the manual implies 2"); the
                                                                             simulated sample alone missed it
  m4 asmstructs.c ExpandStruct: array elements at ProgCounter() + CodeLen     array instance under PHASE takes the load
                                                                             address: caught "Z_0_0_N = 16, the manual
                                                                             implies 40"
./check C10 --selftest: one recorded value changed (member value, reservation size, length symbol) -> TLC rejects.
"""
import concurrent.futures as cf
import os
import re
import tempfile

from vlib import aslrun, codefile, tlc
from vlib.common import CheckError, Phase, log, pmap, rng, scratch

PHASE_NAME = "structinst"
EVENTS = "file,stmt,emit,sym,diag,split"
LIM = 2 ** 30

DIAL = {
    "8051": dict(cpu="8051", gran=1, data="db", segs={"code": "code", "data": "xdata"}, segno={"code": 1, "data": 4}),
    "c25": dict(cpu="320c25", gran=2, data="word", segs={"code": "code", "data": "data"}, segno={"code": 1, "data": 2}),
}
STRUCTSEG = 11
TABLE_AT = 3000
ERRNUM = {"nostruct": 1550, "wrongstruct": 1552, "baddir": 1554, "redefined": 1555, "dupelem": 1557, "code": 1940,
          "unknown": 1200, "nolabel": 2040, "freestanding": 2070, "endunion": 2080, "range": 1315, "dims": 2221}
FIELDOPS = {"DB", "DW", "DD", "DQ", "DS", "RES", "RMB", "FCB", "FDB", "FQB", "BYT", "ADR", "DFS", "BSS", "DEFS", "DEFB",
            "DEFW", "BYTE", "WORD", "LONG", "DC", "DSB", "DSW", "BLKB", "BLKW", "SPACE"}
STRUCT_RE = re.compile(r"^\s*\S*\s+(struct|struc|union)\b", re.I | re.M)

MC_QUICK = ["", "_def", "_inst"]
MC_THOROUGH = ["5", "6", "_def6", "_inst8", "_fixed"]
MC_DEV = {"_dev_anon": "AnonOffsetDropped (asmlabel.c LabelHandle)", "_dev_noext": "NoExtNamesKeepsOwnPrefix (asmstructs.c AddStructSymbol)"}


# ---------------------------------------------------------------------------------------------------
# rendering of a StructInst_Gen behaviour
# ---------------------------------------------------------------------------------------------------
def _field(d, n, k):
    if d["gran"] == 2:
        return "res %d" % n
    forms = {1: ["db ?", "ds 1"], 2: ["dw ?", "db ?,?", "ds 2"], 3: ["ds 3", "db ?,?,?"], 4: ["dw ?,?", "ds 4"]}
    f = forms.get(n, ["ds %d" % n])
    return f[k % len(f)]


def _case(name, k):
    return name.lower() if k % 3 == 1 else name


def render(beh, dname, table=True):
    """-> (source, expected image [(segno, byteaddr, byte)], exported table [(name, value)])"""
    d = DIAL[dname]
    g = d["gran"]
    lines = ["\tcpu %s" % d["cpu"]]
    exp = []
    tab = []
    errors = False

    def put(seg, load, vals):
        for i, v in enumerate(vals):
            for j in range(g):
                exp.append((d["segno"][seg], (load + i) * g + j, (v >> (8 * j)) & 0xFF))

    for k, h in enumerate(beh, 1):
        s = h["s"]
        a = s["k"]
        errors = errors or bool(h["errs"])
        lab = _case(s["lab"], k)
        if a == "STRUCT":
            op = "union" if s["u"] else ("struct", "struc")[k % 2]
            lines.append("%s\t%s %s" % (lab, op, ",".join(_case(o, k) for o in s["opts"])))
        elif a == "END":
            op = "endunion" if s["u"] else ("endstruct", "ends", "endstruc")[k % 3]
            lines.append("%s\t%s %s" % (lab, op, _case(s["arg"], k)))
        elif a == "FIELD":
            lines.append("%s\t%s" % (lab, _field(d, s["n"], k)))
        elif a == "EMIT":
            v = (k * 13) % 251
            lines.append("%s\t%s %d" % (lab, d["data"], v))
            if h["chunk"]["k"] == "E":
                put(h["chunk"]["seg"], h["chunk"]["addr"], [v])
        elif a == "INST":
            lines.append("%s\t%s %s" % (lab, _case(s["nm"], k + 1), ",".join("[%d]" % x for x in s["dims"])))
            if h["chunk"]["k"] == "R" and not h["errs"]:
                for df in h["defs"]:
                    if "." not in df["n"]:
                        tab.append((df["n"], df["v"]))
        elif a == "DOTS":
            lines.append("\tdottedstructs %s" % ("on" if s["u"] else "off"))
        elif a == "ORG":
            lines.append("\torg %d" % s["n"])
        elif a == "PHASE":
            lines.append("\tphase %d" % s["n"])
        elif a == "DEPHASE":
            lines.append("\tdephase")
        elif a == "SEGMENT":
            lines.append("\tsegment %s" % d["segs"][s["nm"]])
        else:
            raise CheckError("StructInst_Gen: unknown statement kind %r" % a)
    tab = tab[:24]
    if table and not errors:
        lines += ["\tsegment code", "\tdephase", "\torg %d" % TABLE_AT]
        addr = TABLE_AT
        for name, val in tab:
            if g == 1:
                lines.append("\tdb %s & 255, (%s >> 8) & 255" % (name, name))
                put("code", addr, [val & 255, (val >> 8) & 255])
                addr += 2
            else:
                lines.append("\tword %s" % name)
                put("code", addr, [val & 0xFFFF])
                addr += 1
    return "\n".join(lines) + "\n", sorted(exp), tab


# ---------------------------------------------------------------------------------------------------
# hook records -> one event per statement
# ---------------------------------------------------------------------------------------------------
def _norm(t, cs):
    t = (t or "").strip()
    return t if cs else t.upper()


def trace_events(trace, strict, cs=False):
    """-> list of executions (one per pass), each [RESET, STMT...]; None entries for passes with values >= 2^30"""
    execs = []
    cur = None
    split = None
    defs, chunks, errs = [], [], []
    big = False
    first = True
    for e in trace:
        k = e["e"]
        if k == "pass_begin":
            if cur is not None:
                execs.append(None if big else cur)
            big = e["pc"] >= LIM
            cur = [{"a": "RESET", "newfile": first, "seg": e["seg"], "pc": e["pc"]}]
            first = False
            split = None
            defs, chunks, errs = [], [], []
        elif k == "file_begin":
            first = True
        elif cur is None:
            continue
        elif k == "split":
            split = e
            defs, chunks, errs = [], [], []
        elif k == "sym_def":
            if e.get("typ") == 1 and not e.get("chg") and e.get("out") not in ("double", "mix") and "val" in e:
                if abs(e["val"]) >= LIM:
                    big = True
                defs.append({"n": e["name"], "v": e["val"]})
        elif k in ("emit", "reserve"):
            n = e["n"] // max(e["gran"], 1) if k == "emit" else e["n"]
            if e["addr"] >= LIM:
                big = True
            if n > 0:
                chunks.append({"k": "E" if k == "emit" else "R", "seg": e["seg"], "addr": e["addr"], "n": n})
        elif k == "diag":
            if e.get("cls") in ("error", "fatal"):
                errs.append(e["num"])
        elif k == "stmt":
            sp = split if (split is not None and split.get("line") == e["line"]) else None
            skip = (not e["ifasm"]) or bool(e["rec"]) or bool(e["wasmac"]) or bool(e["wasif"]) or sp is None
            if e["pc"] >= LIM or abs(e["ph"]) >= LIM:
                big = True
            lab = _norm(sp["lab"], cs) if sp else ""
            op = _norm(sp["op"], cs) if sp else ""
            args = [_norm(a.get("a", ""), cs) for a in (sp["args"] if sp else [])]
            argn = [int(a) if re.fullmatch(r"\d{1,8}", a) else -1 for a in args]
            dims = []
            for a in args:
                m = re.fullmatch(r"\[\s*(\d{1,6})\s*\]", a)
                if m:
                    dims.append(int(m.group(1)))
                else:
                    dims = [-1]
                    break
            opaque = "{" in lab or "{" in op
            if opaque and "{" in lab and "{" not in op and e["std"] == 0 and e["seg"] != STRUCTSEG and defs:
                # a label built by {symbol} expansion in the ordinary segment: the first definition of the line is the label
                pat = re.sub(r"\\\{[^}]*\\\}", ".*", re.escape(lab))
                if re.fullmatch(pat, defs[0]["n"], 0 if cs else re.I):
                    lab = defs[0]["n"]
                    opaque = False
            cur.append({"a": "STMT", "line": e["line"], "lab": lab, "op": op, "uop": op.upper(), "args": args, "argn": argn,
                        "dims": dims, "defs": defs, "chunks": chunks, "errs": errs, "seg": e["seg"], "pc": e["pc"],
                        "ph": e["ph"], "std": e["std"], "len": e["len"], "skip": skip, "strict": strict,
                        "fieldop": op.upper().split(".")[0] in FIELDOPS, "opaque": opaque})
            split = None
            defs, chunks, errs = [], [], []
    if cur is not None:
        execs.append(None if big else cur)
    return execs if strict else [_thin(x) for x in execs]


def _thin(ex):
    """golden sources: statements that neither belong to a definition nor can name a structure only resynchronise the
    counters - of a run of them the last one is enough (and lines that were not assembled say nothing)"""
    if ex is None:
        return None
    names = set()
    for e in ex:
        if e["a"] == "STMT" and not e["skip"] and e["uop"] in ("STRUCT", "STRUC", "UNION") and e["lab"]:
            names.add(e["lab"].upper())
    out = []
    pending = None
    for e in ex:
        if e["a"] != "STMT":
            out.append(e)
            continue
        if e["skip"]:
            continue
        rel = (e["uop"] in ("STRUCT", "STRUC", "UNION", "ENDSTRUCT", "ENDSTRUC", "ENDS", "ENDUNION", "DOTTEDSTRUCTS")
               or e["std"] > 0 or e["seg"] == STRUCTSEG or re.split(r"[_.]", e["uop"])[0] in names or e["uop"] in names)
        if rel:
            if pending is not None:
                out.append(pending)
                pending = None
            out.append(e)
        else:
            pending = e
    return out


def fixanon_env():
    """which tree do the operators describe?  known_findings/C10-structinst.json: "known" = the pinned code (FixAnon =
    FALSE), "fixed" = the repair of LabelHandle is applied (FixAnon = TRUE); VERIF_STRUCTINST_FIXANON overrides"""
    import json
    v = os.environ.get("VERIF_STRUCTINST_FIXANON")
    if v is None:
        v = "0"
        try:
            with open(os.path.join(os.path.dirname(os.path.dirname(os.path.abspath(__file__))), "known_findings",
                                   "C10-structinst.json")) as f:
                for k in json.load(f).get("findings", []):
                    if k.get("id") == "C10-anon-member-offset" and k.get("status") == "fixed":
                        v = "1"
        except OSError:
            pass
    return {"STRUCTINST_FIXANON": v}


def judge(cases, timeout=900):
    """cases: list of event lists (each starting with RESET events) -> ({case index: [(event index, sev, why)]}, TLC result, OUT)"""
    flat = []
    owner = []
    for ci, ev in enumerate(cases):
        for k, e in enumerate(ev):
            flat.append(e)
            owner.append((ci, k))
    if not flat:
        raise CheckError("StructInst_Trace: nothing to judge")
    fd, path = tempfile.mkstemp(prefix="sitrace-", suffix=".ndjson", dir=scratch())
    os.close(fd)
    tlc.write_ndjson(flat, path)
    r = tlc.run("StructInst_Trace", "StructInst_Trace.cfg", workers=1, env=dict(fixanon_env(), TRACE=path), mem="6g", timeout=timeout,
                keep_out=True)
    os.unlink(path)
    if r.error or r.violation:
        raise CheckError("StructInst_Trace did not run to the end: %s" % ((r.error or r.violation or "") + r.out[-1500:])[:2500])
    outs = [v for (tag, v) in r.printed if tag == "OUT"]
    if not outs or outs[-1].get("n") != len(flat):
        raise CheckError("StructInst_Trace printed no verdict: %s" % r.out[-800:])
    res = {}
    for b in outs[-1]["bad"]:
        ci, k = owner[b["l"] - 1]
        res.setdefault(ci, []).append((k, b["sev"], b["why"]))
    return res, r, outs[-1]


# ---------------------------------------------------------------------------------------------------
# the operators' prediction (printed by TLC) against the observation, statement by statement
# ---------------------------------------------------------------------------------------------------
def prediction_diffs(beh, dname, events):
    d = DIAL[dname]
    segno = dict(d["segno"], struct=STRUCTSEG)
    by_line = {e["line"]: e for e in events if e["a"] == "STMT"}
    out = []
    for k, h in enumerate(beh, 1):
        e = by_line.get(k + 1)
        if e is None:
            out.append((k, "no stmt record for line %d" % (k + 1)))
            break
        what = []
        if e["defs"] != h["defs"]:
            what.append("definitions %s, predicted %s" % (e["defs"][:6], h["defs"][:6]))
        if sorted(set(x for x in e["errs"] if x != 1000)) != sorted(set(ERRNUM[x] for x in h["errs"])):
            what.append("errors %s, predicted %s" % (e["errs"], h["errs"]))
        ch = h["chunk"]
        want = [] if ch["k"] == "N" or ch["n"] == 0 else [{"k": ch["k"], "seg": segno[ch["seg"]], "addr": ch["addr"], "n": ch["n"]}]
        if e["chunks"] != want:
            what.append("code file chunks %s, predicted %s" % (e["chunks"], want))
        after = (segno[h["aseg"]], h["aload"], h["aexec"] - h["aload"], h["std"])
        if (e["seg"], e["pc"], e["ph"], e["std"]) != after:
            what.append("(segment, load address, PHASE offset, open definitions) afterwards %s, predicted %s"
                        % ((e["seg"], e["pc"], e["ph"], e["std"]), after))
        if what:
            out.append((k, "statement %d %s %s %s: %s" % (k, h["s"]["k"], h["s"]["lab"], h["s"]["nm"], "; ".join(what))))
    return out


# ---------------------------------------------------------------------------------------------------
def _mc(suffix):
    small = suffix in ("", "_def", "_inst", "_dev_anon", "_dev_noext")
    return suffix, tlc.run("StructInst_MC", "StructInst_MC%s.cfg" % suffix, workers=1 if small else 3, timeout=2400,
                           mem="2g" if small else "6g", collect=False)


def _gen(args):
    cfg, nsim, depth = args
    if nsim is None:        # breadth-first: an exhaustive family
        return cfg, tlc.run("StructInst_Gen", cfg, workers=1, timeout=1800, mem="4g", env=fixanon_env())
    return cfg, tlc.run("StructInst_Gen", cfg, workers=1, simulate=nsim, depth=depth, timeout=900, mem="4g", deadlock=True,
                        env=fixanon_env())


def generate(tier):
    quick = tier == "quick"
    if quick:
        jobs = [("StructInst_GenCover.cfg", None, 0), ("StructInst_Gen.cfg", 24, 17), ("StructInst_GenPhase.cfg", 60, 12),
                ("StructInst_GenErr.cfg", 10, 13)]
    else:
        jobs = [("StructInst_GenCover8.cfg", None, 0), ("StructInst_Gen.cfg", 600, 17), ("StructInst_GenAnon.cfg", 300, 13),
                ("StructInst_GenPhase.cfg", 1500, 12), ("StructInst_GenErr.cfg", 200, 13)]
    with cf.ThreadPoolExecutor(max_workers=5) as ex:
        res = list(ex.map(_gen, jobs))
    behs = []
    seen = set()
    runs = []
    for cfg, r in res:
        tlc.must(r, cfg)
        if r.violation:
            raise CheckError("%s: %s" % (cfg, r.violation[:600]))
        runs.append((cfg, r))
        mine = []
        for tag, bh in r.printed:
            if tag == "BEH":
                key = repr(bh)
                if key not in seen:
                    seen.add(key)
                    mine.append(bh)
        behs.append(mine)
    if not any(behs):
        raise CheckError("StructInst_Gen exported no program")
    return behs, runs


def golden_sources():
    out = []
    for t in aslrun.corpus():
        try:
            with open(t[2], "rb") as f:
                txt = f.read().decode("latin-1")
        except OSError:
            continue
        if STRUCT_RE.search(txt):
            out.append(t)
    return out


def _kind_of(why):
    for k in ("instance", "member", "field", "length symbol", "nested definition", "STRUCT/UNION", "ENDSTRUCT"):
        if why.startswith(k):
            return k
    return "other"


def run_phase(rep, bld, tier):
    quick = tier == "quick"
    rep.assumptions += ["structinst extension: hook records (split, sym_def, reserve / emit, diag, stmt) regrouped per line are "
                        "the witness; the code file ties the predicted load addresses and the values of the instance symbols to "
                        "the output (generated programs)",
                        "structinst extension: sections, bit-field elements, {symbol}-built labels, sizes of UNION members in "
                        "golden sources, case-sensitive mode are not judged"]
    # (M) -------------------------------------------------------------------------------------------
    cfgs = (MC_QUICK if quick else MC_THOROUGH) + list(MC_DEV)
    with Phase("TLC StructInst_MC %s" % ",".join(c or "main" for c in cfgs)):
        # quick: nine small TLC runs side by side (5 model checks, 4 generators), one worker each
        with cf.ThreadPoolExecutor(max_workers=6 if quick else 3) as ex:
            fut_gen = ex.submit(generate, tier)
            res = list(ex.map(_mc, cfgs))
            behs, gruns = fut_gen.result()
    for name, r in res:
        tlc.must(r, "StructInst_MC(%s)" % (name or "main"))
        if name in MC_DEV:
            if not r.violation:
                rep.drift("StructInst_MC%s: the deviation %s is not exhibited any more (model out of date)" % (name, MC_DEV[name]))
        elif r.violation:
            raise CheckError("StructInst_MC(%s): the structure model violates its invariants: %s" % (name or "main", r.violation[:800]))
        rep.model("StructInst_MC(%s)" % (name or "main"), r)
    for cfg, r in gruns:
        rep.model("StructInst_Gen(%s)" % cfg, r)
    # (G) -------------------------------------------------------------------------------------------
    r_ = rng("c10-structinst")
    fams = behs
    behs = list(fams[0])                  # the exhaustive family: all of it
    for fam in fams[1:]:                  # the simulated ones: a seed-chosen part
        fam = list(fam)
        r_.shuffle(fam)
        behs += fam[:40 if quick else 3000]
    jobs, meta = [], []
    for bi, bh in enumerate(behs):
        for dname in DIAL:
            src, exp, tab = render(bh, dname)
            jobs.append({"sources": {"a.asm": src}, "opts": ["-q"], "events": EVENTS})
            meta.append({"kind": "generated", "beh": bh, "dialect": dname, "name": "gen%d/%s" % (bi, dname), "src": src,
                         "exp": exp, "tab": tab})
    with Phase("assemble %d renderings of %d generated programs" % (len(jobs), len(behs))):
        gres = aslrun.assemble_many(bld, jobs)
    gold = golden_sources()

    def one(t):
        import shutil
        res = aslrun.assemble_corpus(bld, t, events=EVENTS)
        shutil.rmtree(res.dir, ignore_errors=True)
        return t, res
    with Phase("assemble %d golden sources that use STRUCT / UNION" % len(gold)):
        cres = pmap(one, gold)
    # events ------------------------------------------------------------------------------------------
    cases, infos = [], []
    for m, res in zip(meta, gres):
        rep.evaluated()
        if res.timeout or res.sig is not None:
            rep.violation("structinst: %s: assembler crashed / hung (rc=%s sig=%s)" % (m["name"], res.rc, res.sig),
                          case={"name": m["name"], "kind": "generated", "beh": m["beh"], "dialect": m["dialect"]},
                          files={"a.asm": m["src"]}, key={"phase": PHASE_NAME, "event": "RUN", "deviation": "none"})
            continue
        if res.trace is None:
            raise CheckError("structinst: no hook trace from the build")
        ex = trace_events(res.trace, True)
        if any(x is None for x in ex) or not ex:
            continue
        ev = [e for x in ex for e in x]
        m["events"] = ev
        cases.append(ev)
        infos.append((m, res))
        rep.distinct(("structinst", m["src"]), sum(1 for h in m["beh"] if h["s"]["k"] == "INST") >= 1)
    skipped_big = 0
    for t, res in cres:
        rep.evaluated()
        if res.trace is None:
            rep.drift("structinst: golden source %s: no hook trace" % t[0])
            continue
        cs = "-U" in t[3]
        ex = trace_events(res.trace, False, cs)
        good = [x for x in ex if x is not None]
        skipped_big += len(ex) - len(good)
        if not good:
            continue
        ev = [e for x in good for e in x]
        cases.append(ev)
        infos.append(({"kind": "corpus", "name": t[0]}, res))
        rep.distinct(("structinst", t[0]), True)
    with Phase("StructInst_Trace: %d runs, %d events" % (len(cases), sum(map(len, cases)))):
        verdicts, tr, out = judge(cases)
    rep.cov["states"] += tr.distinct
    rep.cov["transitions"] += tr.generated
    rep.traces(len(cases))
    # classification -------------------------------------------------------------------------------------
    nbad = ndrift = 0
    flagged = {}
    for ci in sorted(verdicts):
        m, res = infos[ci]
        shown = set()
        for (k, sev, why) in verdicts[ci]:
            e = cases[ci][k]
            flagged.setdefault(ci, set()).add(e.get("line"))
            cls = (sev, _kind_of(why), "[anon]" in why)
            if cls in shown:
                continue
            shown.add(cls)
            what = "structinst: %s line %s `%s %s %s`: %s" % (m["name"], e.get("line"), e.get("lab"), e.get("op"),
                                                                ",".join(e.get("args", [])), why)
            if sev == "drift":
                ndrift += 1
                rep.drift(what)
                continue
            nbad += 1
            _violation(rep, m, res, what, e, why)
    # the operators' prediction and the code file (generated programs) -------------------------------------
    ncmp = nimg = 0
    for ci, (m, res) in enumerate(infos):
        if m["kind"] != "generated":
            continue
        ncmp += 1
        diffs = prediction_diffs(m["beh"], m["dialect"], m["events"])
        for (k, txt) in diffs[:2]:
            if (k + 1) in flagged.get(ci, ()):
                continue                      # TLC has judged this statement already
            rep.drift("structinst: %s: %s" % (m["name"], txt))
            ndrift += 1
        errors = any(h["errs"] for h in m["beh"])
        if errors:
            if res.rc == 0:
                rep.drift("structinst: %s: a program with refused statements is accepted (rc 0)" % m["name"])
            continue
        if res.rc != 0 or res.p is None:
            if ci not in flagged and not diffs:
                rep.violation("structinst: %s: valid program rejected (rc=%s): %s" % (m["name"], res.rc, (res.out + res.err)[-300:]),
                              case={"name": m["name"], "kind": "generated", "beh": m["beh"], "dialect": m["dialect"]},
                              files={"a.asm": m["src"]}, key={"phase": PHASE_NAME, "event": "RUN", "deviation": "none"})
            continue
        nimg += 1
        parsed = codefile.parse(res.p)
        got = sorted((s, a, b) for (s, a), bs in parsed.image().items() for b in bs)
        if got != m["exp"] and ci not in flagged and not diffs:
            missing = [x for x in m["exp"] if x not in set(got)][:6]
            extra = [x for x in got if x not in set(m["exp"])][:6]
            rep.violation("structinst: %s: code file image differs from the predicted addresses / symbol values: expected-but-"
                          "absent (seg,byteaddr,byte) %s, present-but-unexpected %s; exported symbols %s"
                          % (m["name"], missing, extra, m["tab"][:8]),
                          case={"name": m["name"], "kind": "generated", "beh": m["beh"], "dialect": m["dialect"]},
                          files={"a.asm": m["src"], "a.p": res.p}, key={"phase": PHASE_NAME, "event": "IMAGE", "deviation": "none"})
    gen = [m for (m, _) in infos if m["kind"] == "generated"]
    if gen:
        rep.sample({"structinst_program": gen[0]["name"], "source": gen[0]["src"]})
    rep.part("structinst_extension", runs=len(cases), generated_programs=len(behs), renderings=len(gen),
             golden_sources=sum(1 for (m, _) in infos if m["kind"] == "corpus"), events=out["n"], judged=out["cnt"],
             rejected_items=nbad, drift_items=ndrift, predictions_compared=ncmp, images_compared=nimg,
             executions_skipped_large=skipped_big)


def _violation(rep, m, res, what, e, why):
    dev = "anon-member-offset" if "[anon]" in why else "none"
    files = {}
    case = {"name": m["name"], "kind": m["kind"], "line": e.get("line"), "why": why}
    if m["kind"] == "generated":
        files["a.asm"] = m["src"]
        case.update(beh=m["beh"], dialect=m["dialect"])
    rep.violation(what, case=case, files=files, key={"phase": PHASE_NAME, "event": _kind_of(why), "deviation": dev})


def run_guarded(rep, bld, tier):
    """called from checks/c10.py main()"""
    if not bld.hooks:
        rep.drift("structinst: no hook build, phase skipped")
        return
    run_phase(rep, bld, tier)


run = run_guarded      # the name the growth brief asks for: run(rep, bld, tier)


def replay(path, case):
    """replay of a recorded violation of this phase (called from c10.replay)"""
    from vlib import build
    bld = build.get("hook")
    if case.get("kind") != "generated":
        log("golden source %s: re-run ./check C10 to reproduce (%s)" % (case.get("name"), case.get("why")))
        return 0
    src, exp, tab = render(case["beh"], case["dialect"])
    res = aslrun.assemble(bld, {"a.asm": src}, opts=["-q"], events=EVENTS)
    ev = [e for x in trace_events(res.trace, True) if x is not None for e in x]
    v, _, _ = judge([ev])
    for (k, sev, why) in v.get(0, []):
        log("replay: TLC says %s at line %s: %s" % (sev, ev[k].get("line"), why))
    diffs = prediction_diffs(case["beh"], case["dialect"], ev)
    for (k, txt) in diffs:
        log("replay: prediction: %s" % txt)
    if not v.get(0) and not diffs:
        log("replay: on this tree TLC accepts every statement of the program and the operators' prediction is met")
    return 1 if any(sev == "bad" for (_k, sev, _w) in v.get(0, [])) else 0


SELFTEST_SRC = """\tcpu 8051
S\tstruct
a\tdb ?
N\tunion
n1\tdb ?
n2\tdw ?
N\tendunion
b\tdw ?
S\tendstruct
T\tstruct
p\tdb ?
q\tS
T\tendstruct
\torg 16
\tphase 64
x\tS
y\tT [2]
\tdb 1
"""


def selftest():
    """binding demonstration: a run that TLC accepts is rejected after one recorded value is changed"""
    import copy
    from vlib import build
    bld = build.get("hook")
    r = aslrun.assemble(bld, {"a.asm": SELFTEST_SRC}, opts=["-q"], events=EVENTS)
    ev = [e for x in trace_events(r.trace, True) for e in x]
    variants = {"unchanged": ev}

    def at(line):
        return next(i for i, e in enumerate(ev) if e["a"] == "STMT" and e["line"] == line)

    def variant(name, line, change):
        v = copy.deepcopy(ev)
        change(v[at(line)])
        variants[name] = v
    variant("instance member without the base address", 16, lambda e: e["defs"][2].update(v=e["defs"][2]["v"] - 64))
    variant("instance member one off", 17, lambda e: e["defs"][-1].update(v=e["defs"][-1]["v"] + 1))
    variant("instance reserves one unit less", 16, lambda e: e["chunks"][0].update(n=e["chunks"][0]["n"] - 1))
    variant("counter behind the instance one short", 17, lambda e: e.update(pc=e["pc"] - 1))
    variant("union length symbol one short", 7, lambda e: e["defs"][0].update(v=e["defs"][0]["v"] - 1))
    variant("union member not at the union's offset", 6, lambda e: e["defs"][0].update(v=e["defs"][0]["v"] + 1))
    variant("structure length symbol one long", 9, lambda e: e["defs"][0].update(v=e["defs"][0]["v"] + 1))
    variant("nested member offset not accumulated", 12, lambda e: e["defs"][3].update(v=e["defs"][3]["v"] - 1))
    variant("body statement reaches the code file", 3, lambda e: e["chunks"].append({"k": "R", "seg": 1, "addr": 0, "n": 1}))
    names = list(variants)
    res, _, _ = judge([variants[n] for n in names])
    ok = True
    for k, n in enumerate(names):
        rej = any(sev == "bad" for (_k, sev, _w) in res.get(k, []))
        log("selftest structinst %-44s %s" % (n, "rejected" if rej else "accepted"))
        ok = ok and (rej == (n != "unchanged"))
    log("selftest C10 structinst binding: %s" % ("OK" if ok else "FAILED"))
    return ok
