"""C16 - Spelling the manual declares irrelevant does not change the code.

Specification: spec/SourceLine.tla
  * ReadLine / QPos / Qualify / Split: transcription of strutil.c ReadLnCont, asmsub.c QuotPosCore, the two
    QualifyQuote functions and as.c SplitLine over character codes, parameterised by what SwitchTo_*() installs
    (DivideChars, AttrChars, HasAttrs, comment lead-ins, quote qualification).
  * Render(L, c): every spelling of the abstract line `[label[:]] mnemonic[.attr] [param,...] [;comment]` along the
    dimensions the manual leaves open (case, blanks/tabs and their amount, comment, CR-LF, optional colon).
  * SpellingImmaterial(L, c, P): Norm(Split(ReadLine(Render(L, c)))) = Norm(L).

(M) SourceLine_MC: for the 7 parameter sets of the code generators (default, attr ".", attr ".:", Z80 AF', single
    quote constants, Padauk "//", DSP56K blank divider), every abstract line over the token alphabet (identifiers,
    numbers, string with ; , : and blank, escaped quote, char literals, parentheses, brackets, AF', H'1F, x'1f',
    empty parameter) with <= 2 parameters (up to 5 fields), and the rendering choices: quick = groups of dimensions
    varied around the canonical spelling; thorough = rich alphabet/blank patterns + the full product of all
    dimensions.  Invariants: Immaterial, CanonSplitsExactly, CommentCut.
(G) SourceLine_Gen: TLC enumerates the rewrite vectors (22680 line vectors = the product of the model's rendering
    dimensions, 18 file vectors: wrap none/INCLUDE/parameterless macro x blank lines x LF/CR-LF/mixed).  Every golden
    source is rewritten (each physical line with a seed-chosen vector, each file with a file vector) and assembled
    like the test driver does; the p2bin image must equal the recorded tests/<t>/<t>.ori.   quick: 2 rewritten
    variants per test (402 programs), thorough: 10.
(N) SourceLine_Nest + SourceLine.tla Part 4: COMPOUND PARAMETERS - the second field split.  Some statements carry
    further white-space separated fields inside one comma-delimited parameter, which as.c SplitLine() hands over
    untouched and the code generator splits again: MSP430X `rptc #5 addx.w r4,r7` / `rptz r6 ...` (codemsp.c
    DecodeRPT), TMS320C6x `|| [b0] add.l1 a0,a1,a5` (ReiterateOpPart), uPD772x `op mov @a,b` (DecodeOP), SH-DSP
    `dct ...` (DecodeDCT_DCF; no code in this tree, model only), Rabbit `altd inc iy` (codez80.c StripPref),
    68HC11/HC12 `brclr $20 #$40 *` / `bset` / `movb` (Try2Split), uPD77230 `mov wr0,psw1 jnzrp target` (SplitArgs/
    DiscardArgs) and the preprocessor's `#define NAME text` (asmmac.c).  Part 4 transcribes these secondary
    splitters (asmsub.c FirstBlank = the EARLIER of the first blank and the first tab, KillPrefBlanks, first /
    last isspace, QuotPos of blank and tab) and states, independently, what a compound parameter is (components
    joined by gaps, a gap = any non-empty sequence of blanks and tabs; reading = maximal runs of non-space).
    TLC checks for 20 concrete statements (every splitter, 1..2 gaps) and #define, every gap vector (each gap every sequence of
    1..2 blanks/tabs, thorough 1..3: blank, tab, blank-tab, tab-blank, ...) and a set of top-level spellings:
    GapsImmaterial (the statement finally assembled = the one of the single-blank spelling), PrefixTransparent
    (= the statement the text behind the prefix is on a line of its own), CutsAtComponents (a cut never lands
    inside a component or loses one), FirstBlankIsFirst, PreprocSplit.  TLC prints (a) every statement x gap
    vector as a source line (quick 720, thorough 3920): assembled, the code must equal that of the single-blank
    spelling; (b) the gap vectors and (c) the table of statement forms (code generator, mnemonics, which
    parameters, how many gaps) for the corpus rewrite: in every golden source the gaps of such statements
    (t_msp430x t_3206x t_7720 t_7725 t_77230 t_6812 t_r2000; #define in t_870c t_f2mc16) are re-spelled with a
    seed-chosen gap vector on top of the line vector, verdict = .ori as before.  PAIR events of such lines are
    validated with NestOK: both spellings re-split into the same statement and the mnemonic / parameter count the
    code generator finally used (stmt hook) are the ones Resplit yields.  #define is not described in the manual:
    a difference there is SPEC-DRIFT only.
    Why added: the rewrites only varied the white space at the TOP-LEVEL field boundaries; a changed FirstBlank()
    that takes the later of blank/tab (`rptc #5<TAB>addx.w r4,r7` rejected, `rptz r6<TAB>addx.w r4,r7` silently
    without code) passed the golden tests and the check.  Not covered: white space inside expressions (`1 + 2`,
    `2 dup (?)`), which the manual does not call a field boundary.
(B) BodyCollect: the body collector of as.c (MacroStart: MACRO IRP IRPN IRPC REPT WHILE open, MacroEnd: ENDM ENDR
    close; the body ends at nesting -1), the precondition of the macro wrap (Wrappable: balanced for the collector
    and for IF/SWITCH, STRUCT/UNION, SECTION pairs) and the meaning of the constructs (Expand).  BodyCollect_MC:
    every statement sequence up to 4 (thorough 5) over the collector alphabet: CollectorBalanced(ops) <=> the
    collector ends the wrapper's body at the wrapper's ENDM; 118 construct trees (every kind, one and two levels
    deep, IRPN with 1..3 parameters, IF 0/1, SECTION) are rendered and assembled plain / macro-wrapped /
    include-wrapped: each must yield the byte sequence TLC computed (Expand).  Corpus: every golden source that
    contains a body-collecting or paired construct (65) gets, in the quick tier too, a macro-wrap variant whose
    regions are the maximal wrappable runs containing the constructs (t_irpn: the whole file) and an
    include-wrap variant; the wrapped runs (mnemonics as logged by the assembler) are validated by TLC
    (BodyCollect_Trace).  Not wrapped: lines with {SYM} in the mnemonic (expanded while a body is collected,
    documented in t_expandop), END / INCLUDE / EXITM / SHIFT, text using ALLARGS / ARGCOUNT / ATTRIBUTE.
(S) SymScope + BodyCollect.LocalWrappable: THE SYMBOL SIDE OF THE MACRO WRAP - labels referenced from nested expansions.
    The wraps above use `macro {GLOBALSYMBOLS}`; the property speaks of "a parameterless macro", and in a plain
    `name MACRO` the labels of the text become LOCAL to the wrapper's expansion (manual: "Labels defined in macros always
    are regarded as being local, unless GLOBALSYMBOLS was used").  The text then stays the same program only because a
    reference from a nested expansion finds the labels of every expansion around it.  SymScope.tla transcribes
    asmpars.c's local symbol spaces (MomLocHandle, the FirstLocHandle stack, Push/Pop/GetLocHandle, EnterIntSymbol's
    choice local/global, FindLocNode: own space, then the stack from its top until an entry holds -1, then FindNode;
    as.c *_Processor: a fresh space per repetition unless GLOBALSYMBOLS; table kept over the passes, handle counter
    restarted) and states the meaning independently without handles (every executed statement has a chain of
    expansion instances; a reference means the definition in the NEAREST instance of its chain, file level last).
    Scoped programs: a chain of 0..3 nested constructs (MACRO call, REPT, IRP, IRPN, IRPC, WHILE; each default /
    {GLOBALSYMBOLS} / {NOGLOBALSYMBOLS}), a label defined at level d and referenced at level r >= d (distance 0..3
    expansion levels, one more under the wrapper) by value / IFDEF / DEFINED() / SYMTYPE() / IFUSED, behind or ahead
    of the definition (second pass), before or behind the nested construct of its level (space restored by Pop),
    with or without a definition of the same name at level 0 (nearest wins), plus a probe whether the label is
    visible outside its expansion.  TLC checks ScopeAgree (transcription = meaning, under every wrapper),
    WrapImmaterial (plain = INCLUDE = macro / macro {GLOBALSYMBOLS} / macro {NOGLOBALSYMBOLS}), ProgramValid and
    prints each program with its code: quick 1206 programs / 3228 sources (all kinds and modes for one construct,
    every kind at either level of two, MACRO/REPT chains of three), thorough 43434 programs / 131298 sources (all
    kinds x modes at two levels with every reference kind, all kinds at three levels); each source must assemble to
    the code TLC computed.  WHILE with a control parameter is accepted by the code but not described: SPEC-DRIFT only.
    SymScope_MC_skipnearest.cfg: with the named deviation SkipNearest (walk starts at the second stack entry) TLC
    reports ScopeAgree / WrapImmaterial violated.
    Corpus: every golden source for which BodyCollect.LocalWrappable holds (all lines may stand in a macro body,
    balanced, and no SECTION anywhere in the run - "the locality of labels inside macros is not influenced by
    sections") is additionally assembled with the WHOLE main file in a plain `vwrap macro` (on top of the line
    rewrites), verdict = .ori: quick the sources whose run expands a body at any depth (21), thorough all (about
    125; files up to 1200 lines); the precondition of each such wrap is validated by TLC (BodyCollect_Trace,
    WRAPLOCAL events).
    Why added: all wraps used {GLOBALSYMBOLS} (labels stayed global) and the generated construct trees had no
    labels, so a FindLocNode() that skips the directly enclosing expansion (references from a REPT/IRP body or a
    macro call inside the wrapper: "symbol undefined", IFDEF silently the other branch) passed the golden tests and
    the check.  Not covered: labels in STRUCT bodies or SECTIONs under a local wrapper, FORWARD/PUBLIC/GLOBAL,
    temporary ($$, -/+) labels inside the generated programs, more than 3+1 expansion levels.
(R) SourceLine_RL: the reader (ReadLnCont: physical lines, chunked fgets, CR/LF/^Z stripping, backslash
    continuation).  TLC checks for every chain of 1..4 physical lines x {LF, CR-LF per line, none at the end} x
    {nothing, blank, tab before the backslash} x comment behind the chain x buffer states (real 1024/128/128 and
    small ones that force several chunks; thorough: long pieces too) that the logical line is the concatenation
    of the pieces, that exactly the chain is consumed and that the following line is intact (ReadsAsText,
    NextLineIntact, SameAsLF); CRSplitFromLF (CR and LF split over two chunks keeps the CR) is exhibited.  The
    same chains (incl. pieces of 1100 characters = several chunks) are rendered into small sources and assembled
    with their line ends and with LF only: same code file required (quick 240 chains, thorough 6000); the logical
    lines the assembler delivered (`line` hook) are validated as FILE events (FileLines(file) = delivered).
    In the corpus replay the CR-LF / mixed file vectors now apply to continuation lines as well.
(V) SourceLine_Trace: `split` hook events of the original runs (quick: seed-chosen sample of distinct lines across
    all tests; thorough: every distinct line, ~161 k) must satisfy Split(raw, params) = logged fields; for rewritten
    lines (PAIR events) additionally SameStatement(original, rewritten).

Verdict-bearing: image of the rewritten source = .ori (and the assembler accepting the rewritten source).
Split/PAIR rejections are reported as SPEC-DRIFT (they localise a divergence; on the unchanged tree they would
be bugs of the transcription).

Preconditions of the rewrites (where the manual does not promise immateriality, the line is left alone):
continuation lines are untouched, of `#` preprocessor lines only the two gaps of `#define NAME text` are re-spelled;
white space inside a parameter is only touched for the statement forms SourceLine_Nest names, outside quotes and
parentheses, and not in macro call arguments or while a body is recorded; a line is only re-rendered if the position-keeping
splitter of vlib/srcline.py reproduces exactly the fields the real assembler logged for it; no case change inside
quotes (as QuotPosCore tracks them), in macro/REPT/IRP bodies while they are recorded, in arguments of macro
calls, IRP/IRPC, INCLUDE/BINCLUDE/READ (text substitution, file names); colon only after identifier-like column-1
labels; the macro wrap only around runs of unconditional main-file statements outside any macro/structure/
section construct; no tab inside the DSP56K blank-divided parallel moves is NOT excluded (see findings).
Not covered: -U mode (no golden test uses it: symbol case is then left alone anyway), per-target operand parsers
other than end-to-end through .ori, line length > 250 after rewriting (left alone).

Findings on the pinned tree: (1) DSP56K DivideChars " \\009" (tab between parallel moves not a divider; fixed in
/repo meanwhile), (2) a comment behind EX A,A' (Z380) / XA' (75K0) is swallowed by the "string" the apostrophe
opens (known_findings/C16.json, proposed_fixes/C16-*.diff).

Mutations of the real code tried on a scratch copy (selftest/C16-m*.py, selftest/mutate_and_check.sh):
  m1 motpseudo.c: upper-case size attribute (.W) rejected          4 ctest failures   caught (image differs)
  m2 as.c: capitalised mnemonic ("Nop") not case-folded            ctest passes       caught (needs case mode "alt")
  m3 as.c: {GLOBALSYMBOLS} ignored on macro expansion              ctest passes       caught (macro wrap)
  m4 strutil.c: KillPostBlanks strips blanks only (tab before ,)   105 ctest failures caught
  -- as.c: "lab:op" without blank not split at the colon           3 ctest failures   caught
  -- as.c: no KillPostBlanks on arguments ("a ,b")                 7 ctest failures   caught
  m5 strutil.c: CR test indexes p_line->p_str instead of pDest     ctest passes       caught (t_longline with
     (CR kept on continuation lines / later chunks)                                   CR-LF/mixed ends + 20 chain sources)
  m6 as.c MacroStart(): IRPN no longer opens a collected block    ctest passes       caught (t_irpn macro-wrapped,
     (nested IRPN's ENDM ends the enclosing body)                                     construct trees with IRPN inside)
  -- strutil.c: CR in front of LF never stripped                   ctest passes       same class as m5 (CR hides the
     backslash of a continuation); caught since continuation lines take part in the CR-LF rewrite.
  m7 asmsub.c FirstBlank(): later of first blank / first tab      ctest passes       caught (205 violations: t_msp430x
     (second split of RPTC/RPTZ, C6x, uPD772x OP, #define)                           t_3206x t_7720 t_7725 + generated lines)
  m8 code6812.c Try2Split(): blank only (no tab)                  ctest passes       caught (t_6812 + generated lines)
  m9 codez80.c StripPref(): mnemonic behind ALTD ends at blank    ctest passes       caught (t_r2000 + generated lines)
  m10 asmpars.c FindLocNode(): walk starts at FirstLocHandle->Next ctest passes       caught (generated scoped programs:
     (directly enclosing expansion skipped)                                           distance 1 under the plain wrapper, plain
                                                                                      nested constructs; whole-file plain-macro
                                                                                      wraps of golden sources: 462 violations)
  m11 asmpars.c FindLocNode(): own space only, no walk             (ctest not run)    caught (scoped programs replayed alone:
                                                                                      576 of 3228 sources, every distance >= 1)
  m12 asmpars.c FindLocNode(): walk stops after one stack entry    (ctest not run)    caught (scoped programs replayed alone:
                                                                                      100 of 3228 sources, distances 2 and 3)
./check C16 --selftest shows the trace binding (a changed field of a recorded split event is rejected).
"""
import os
import shutil
import tempfile

from vlib import aslrun, build, srcline, tlc, tracecheck
from vlib.common import CheckError, NCPU, Phase, REPO, log, rng, run, scratch, seed
from vlib.report import Report

PID = "C16"


# ---------------------------------------------------------------------------------------------------
def _assemble_variant(b, t, main_bytes, extra, events=None, keep=False):
    """write the rewritten main file next to symlinks of the test's other files; assemble like the driver"""
    name, tdir, asm, flags = t
    d = tempfile.mkdtemp(prefix="v-", dir=scratch())
    for f in os.listdir(tdir):
        if f == name + ".asm":
            continue
        try:
            os.symlink(os.path.join(tdir, f), os.path.join(d, f))
        except OSError:
            pass
    with open(os.path.join(d, name + ".asm"), "wb") as fh:
        fh.write(main_bytes)
    for fn, data in extra.items():
        with open(os.path.join(d, fn), "wb") as fh:
            fh.write(data)
    e = b.env(None)
    tr = None
    if events and b.hooks:
        tr = os.path.join(d, "trace.ndjson")
        e["ASL_VERIF_TRACE"] = tr
        e["ASL_VERIF_EVENTS"] = events
    pfile = os.path.join(d, name + ".p")
    cmd = [b.tool("asl")] + flags + ["-q", "-i", aslrun.INCLUDE, os.path.join(d, name + ".asm"), "-o", pfile,
                                     "-shareout", os.path.join(d, name + ".h")]
    rc, o, er, to = run(cmd, cwd=d, env=e, timeout=120)
    img = None
    if rc == 0 and os.path.exists(pfile):
        with open(pfile, "rb") as fh:
            img = aslrun.p2bin_image(b, fh.read())
    trace = aslrun.read_trace(tr) if tr and os.path.exists(tr) else None
    if not keep:
        shutil.rmtree(d, ignore_errors=True)
    return {"rc": rc, "timeout": to, "msg": (o + er)[-600:], "img": img, "trace": trace}


def _files_for(name, items, fvec, revert=()):
    body = srcline.render_items(items, revert)
    if fvec["wrap"] == "include":
        return ("\tinclude \"%s_body.inc\"\n" % name).encode(), {name + "_body.inc": body}
    return body, {}


def _work(args):
    """one golden test: original run (records), nvar rewritten variants, localisation of a mismatch"""
    (bdir, hooks, flavour, t, nvar, lvecs, fvecs, sd, npairs, nsplit, forms, gvecs, local_all) = args
    from vlib.build import Build
    import random
    b = Build(bdir, flavour, hooks)
    name, tdir, asm, flags = t
    out = {"test": name, "variants": [], "split": [], "pairs": [], "orig_ok": True, "nlines": 0}
    with open(os.path.join(tdir, name + ".ori"), "rb") as fh:
        ori = fh.read()
    with open(asm, "rb") as fh:
        data = fh.read()
    res = aslrun.assemble_corpus(b, t, events="file,stmt,split,sym" if hooks else None)
    img0 = aslrun.p2bin_image(b, res.p) if (res.rc == 0 and res.p is not None) else None
    shutil.rmtree(res.dir, ignore_errors=True)
    if img0 != ori:
        out["orig_ok"] = False
        out["orig_msg"] = "rc=%s %s" % (res.rc, (res.out + res.err)[-300:])
    recs = {}
    allrecs = srcline.split_records(res.trace or [], 1)
    symset = srcline.defined_symbols(res.trace or [])
    texts = [ln for (ln, eol) in srcline.physical_lines(data)]
    recs = srcline.records_by_line(allrecs, texts)
    for rc_ in recs.values():
        rc_["symset"] = symset
    r = random.Random("%d/c16/%s" % (sd, name))
    # sample of SPLIT events (distinct raw text + parameters), all depths (macro expansions, includes)
    seen = set()
    cand = []
    for rc_ in allrecs:
        k = (rc_["e"]["raw"], rc_["e"]["div"], rc_["e"]["attrchars"], rc_["e"]["hasattrs"], rc_["cpu"])
        if k not in seen:
            seen.add(k)
            cand.append(rc_)
    out["nlines"] = len(cand)
    if nsplit is not None and len(cand) > nsplit:
        cand = r.sample(cand, nsplit)
    out["split"] = [srcline.trace_event(x) for x in cand]
    plan = [fvecs[vi % len(fvecs)] for vi in range(nvar)]
    out["constructs"] = srcline.has_constructs(recs)
    if out["constructs"]:
        # sources with body-collecting / paired constructs get the two wraps systematically
        plan.append({"kind": "file", "wrap": "macro", "blanklines": False, "crlf": "lf", "forced": True})
        plan.append({"kind": "file", "wrap": "include", "blanklines": False, "crlf": "lf", "forced": True})
    # the whole main file in a PLAIN macro (its labels become local to the wrapper's expansion; references from nested
    # expansions must still find them - SymScope.tla): where BodyCollect.LocalWrappable holds.  quick: the sources whose
    # run expands a body anywhere (a nested expansion needs one), thorough: all
    runops = sorted({rc_["opu"].upper() for rc_ in allrecs})
    out["runops"] = runops
    if hooks and (local_all or set(runops) & srcline.COLLECT_OPENS):
        plan.append({"kind": "file", "wrap": "macrolocal", "blanklines": False, "crlf": "lf", "forced": True})
    for vi, fvec in enumerate(plan):
        items, stats = srcline.rewrite_file(data, recs, fvec, lvecs, r, forms=forms, gvecs=gvecs, runops=runops)
        if fvec["wrap"] == "macrolocal":
            if not stats["regions"]:
                continue                      # precondition of the plain-macro wrap not met: nothing to assemble
            out.setdefault("localwraps", []).extend(stats["region_ops"])
            stats.pop("region_ops")
        main, extra = _files_for(name, items, fvec)
        want_tr = hooks and vi == 0 and npairs > 0
        v = _assemble_variant(b, t, main, extra, events="file,stmt,split" if want_tr else None)
        out.setdefault("wraps", []).extend(stats.pop("region_ops", []))
        rec = {"fvec": fvec, "stats": stats, "rc": v["rc"], "timeout": v["timeout"], "equal": v["img"] == ori,
               "msg": v["msg"], "nontrivial": stats["rewritten"] > 0 or stats["regions"] > 0 or
               fvec["wrap"] != "none" or fvec["crlf"] != "lf" or stats["blank_added"] > 0}
        if want_tr and v["trace"]:
            recs2 = srcline.records_by_line(srcline.split_records(v["trace"], 1), [it["new"] for it in items])
            ch = srcline.changed_indices(items)
            r.shuffle(ch)
            # statements with a re-spelled compound parameter first: they are few and carry the second split
            ch.sort(key=lambda k: 0 if (items[k].get("info") or {}).get("nest_rs") else 1)
            for k in ch:
                if len(out["pairs"]) >= npairs:
                    break
                x = recs2.get(k + 1)
                if x is not None and x["e"]["raw"] == items[k]["new"] and not srcline.classify(items[k]):
                    inf = items[k].get("info") or {}
                    r0 = recs.get(items[k]["n"]) or {}
                    out["pairs"].append(srcline.trace_event(x, "PAIR", orig=items[k]["orig"], nest=inf.get("nest_rs"),
                                                            fin0=(r0.get("opu", ""), r0.get("argc", 0))))
        if not rec["equal"]:
            # localise: which rewritten lines are needed for the difference?  Lines that run into a deviation
            # of the pinned tree that is already recorded are set aside (all of that class) and the search goes on.
            def differs(keep):
                ch_all = srcline.changed_indices(items)
                revert = set(ch_all) - set(keep)
                m, ex = _files_for(name, items, fvec, revert)
                vv = _assemble_variant(b, t, m, ex)
                return vv["img"] != ori, vv
            reverted = set()
            rec["causes"] = []
            while len(rec["causes"]) < 4:
                ch = [k for k in srcline.changed_indices(items) if k not in reverted]
                bad, vv = differs(ch)
                if not bad:
                    break
                if differs([])[0]:
                    rec["causes"].append({"cls": None, "cause": "file-level rewrite (wrap=%s blanklines=%s crlf=%s)" % (
                        fvec["wrap"], fvec["blanklines"], fvec["crlf"]), "lines": [], "rc": vv["rc"], "msg": vv["msg"],
                        "files": dict([(name + ".asm", _files_for(name, items, fvec, set(ch) | reverted)[0])] +
                                      list(_files_for(name, items, fvec, set(ch) | reverted)[1].items()))})
                    break
                keep = ch
                while len(keep) > 1:
                    h = len(keep) // 2
                    if differs(keep[:h])[0]:
                        keep = keep[:h]
                    elif differs(keep[h:])[0]:
                        keep = keep[h:]
                    else:
                        break
                cls = srcline.classify(items[keep[0]]) if len(keep) == 1 else None
                bad2, vv2 = differs(keep)
                m, ex = _files_for(name, items, fvec, set(srcline.changed_indices(items)) - set(keep))
                files = {name + ".asm": m}
                files.update(ex)
                rec["causes"].append({"cls": cls, "cause": "line rewrite", "rc": vv2["rc"], "msg": vv2["msg"],
                                      "lines": [(items[k]["n"], items[k]["orig"], items[k]["new"]) for k in keep[:4]],
                                      "files": files})
                if cls:
                    reverted |= {k for k in ch if srcline.classify(items[k]) == cls}
                else:
                    reverted |= set(keep)
        out["variants"].append(rec)
    return out


# ---------------------------------------------------------------------------------------------------
# continuation chains (SourceLine_RL): rendered exactly like the specification's Pieces()
# ---------------------------------------------------------------------------------------------------
def _chain_pieces(chain):
    out = []
    n = len(chain)
    for k, c in enumerate(chain, 1):
        t = ("\tdb\t" if k == 1 else "") + " " * c["long"] + str(k) + ("" if k == n else ",") + \
            srcline.text(c["ws"]) + srcline.text(c["cmt"])
        out.append((t, srcline.text(c["eol"])))
    return out


def _chain_source(chains, lf_only):
    """several chains in one file; returns bytes.  A chain whose last piece has no line end can only be the last"""
    parts = ["\tcpu\tz80\n"]
    for ci, ch in enumerate(chains):
        ps = _chain_pieces(ch)
        for k, (t, eol) in enumerate(ps):
            last = k == len(ps) - 1
            if eol == "" and not (last and ci == len(chains) - 1):
                eol = "\n"
            if lf_only and eol:
                eol = "\n"
            parts.append(t + ("" if last else "\\") + eol)
    return "".join(parts).encode("latin-1")


def _chain_job(args):
    (bdir, hooks, flavour, chains) = args
    from vlib.build import Build
    b = Build(bdir, flavour, hooks)
    var = _chain_source(chains, False)
    ref = _chain_source(chains, True)
    rv = aslrun.assemble(b, {"a.asm": var}, opts=["-q"], events="file,line" if hooks else None)
    rr = aslrun.assemble(b, {"a.asm": ref}, opts=["-q"])
    lines = None
    if rv.trace:
        lines = [e["text"] for e in rv.trace if e["e"] == "line" and e["pass"] == 1]
    def data(r):
        pr = r.parsed() if r.p is not None else None
        return [(x.seg, x.start, bytes(x.data)) for x in pr.data_records()] if pr is not None else None
    return {"var": var, "ref": ref, "rc_var": rv.rc, "rc_ref": rr.rc, "msg": (rv.out + rv.err)[-300:],
            "same": rv.rc == 0 and rr.rc == 0 and data(rv) == data(rr) and data(rv) is not None, "lines": lines}


def _cline_source(cl, which):
    """a generated compound statement (SourceLine_Nest.tla, kind "cline") as a complete source"""
    return ("\tcpu\t%s\n" % srcline.text(cl["cpu"]) + "".join(srcline.text(x) + "\n" for x in cl["before"]) +
            srcline.text(cl[which]) + "\n" + "".join(srcline.text(x) + "\n" for x in cl["after"]))


def _code(res):
    pr = res.parsed() if res.p is not None else None
    return [(x.seg, x.start, bytes(x.data)) for x in pr.data_records()] if pr is not None else None


# deviations that concern text the manual does not describe: reported as SPEC-DRIFT, never as a violation
DRIFT_CLASSES = {"preproc-define-gaps"}


def _key(name, cause):
    """key for known findings: the recorded deviation the culprit line runs into (None = unexplained)"""
    return {"kind": "image" if cause["rc"] == 0 else "rejected", "deviation": cause["cls"] or "none"}


def main(tier):
    rep = Report(PID, tier)
    bld = build.get("hook")
    quick = tier == "quick"
    rep.assumptions += ["the recorded tests/<t>/<t>.ori images are the oracle (trusted output)",
                        "the renderer (vlib/srcline.py) only rewrites lines whose fields it reproduces exactly as "
                        "the real assembler logged them; other lines are left in their original spelling",
                        "TLC explores the line model up to 2 parameters per line over the stated token alphabet",
                        "white space inside a parameter is a field boundary only for the statement forms listed in "
                        "SourceLine_Nest.tla (Forms); white space inside expressions is left as written",
                        "scoped programs (SymScope): at most 3 nested constructs + the wrapper, one label name, byte-sized "
                        "addresses; the whole-file plain-macro wrap is applied only where BodyCollect.LocalWrappable holds",
                        "hooks: %s" % ("split/stmt events" if bld.hooks else "unavailable (black-box replay only)")]
    # (M)+(G) compound operand fields: runs beside the line model (its output is needed for the corpus rewrite)
    import concurrent.futures as cf
    scratch()
    nest_cfgs = ["SourceLine_Nest.cfg"] if quick else ["SourceLine_Nest3.cfg", "SourceLine_NestP.cfg"]
    nest_pool = cf.ThreadPoolExecutor(max_workers=1)
    nest_fut = nest_pool.submit(lambda: [tlc.run("SourceLine_Nest", c_, workers=2 if quick else 4, timeout=1700, mem="4g")
                                         for c_ in nest_cfgs])
    # (M)+(G) symbol spaces under the wrap (SymScope): initial states only = one TLC thread, runs beside the line model
    scope_pool = cf.ThreadPoolExecutor(max_workers=1)
    scope_fut = scope_pool.submit(lambda: tlc.run("SymScope_MC", "SymScope_MC.cfg" if quick else "SymScope_MC2.cfg",
                                                  workers=1 if quick else 2, timeout=2400, mem="4g" if quick else "8g"))
    # (M) -------------------------------------------------------------------------------------------
    cfgs = ["SourceLine_MC.cfg"] if quick else ["SourceLine_MC3.cfg", "SourceLine_MCP.cfg"]
    for cfg in cfgs:
        with Phase("TLC SourceLine_MC %s" % cfg):
            mc = tlc.must(tlc.run("SourceLine_MC", cfg, workers=min(NCPU, 8), timeout=1700, mem="10g", collect=False),
                          "SourceLine_MC")
        if mc.violation:
            raise CheckError("SourceLine_MC(%s): the line model violates its invariants: %s" % (cfg, mc.violation[:900]))
        rep.model("SourceLine_MC(%s)" % cfg, mc)
    # (G) vectors -----------------------------------------------------------------------------------
    gen = tlc.must(tlc.run("SourceLine_Gen", "SourceLine_Gen.cfg", workers=1, timeout=300, mem="4g"), "SourceLine_Gen")
    rep.model("SourceLine_Gen", gen)
    vecs = [v for (tag, v) in gen.printed if tag == "OUT"]
    fvecs = [v for v in vecs if v.get("kind") == "file"]
    lvecs = [v for v in vecs if v.get("kind") != "file"]
    if not fvecs or not lvecs:
        raise CheckError("SourceLine_Gen printed no vectors")
    with Phase("TLC SourceLine_Nest (started beside the line model)"):
        nest_runs = nest_fut.result()
    nest_pool.shutdown()
    nvecs = []
    for c_, nr in zip(nest_cfgs, nest_runs):
        tlc.must(nr, "SourceLine_Nest(%s)" % c_)
        if nr.violation:
            raise CheckError("SourceLine_Nest(%s): the compound-field model violates its invariants: %s" % (c_, nr.violation[:900]))
        rep.model("SourceLine_Nest(%s)" % c_, nr)
        nvecs += [v for (tag, v) in nr.printed if tag == "OUT"]
    forms = [v for v in nvecs if v.get("kind") == "form"]
    gvecs = [v["g"] for v in nvecs if v.get("kind") == "gapvec"]
    clines = [v for v in nvecs if v.get("kind") == "cline"]
    if not forms or not gvecs or not clines:
        raise CheckError("SourceLine_Nest printed no forms / gap vectors / statements")
    rep.part("generation", line_vectors=len(lvecs), file_vectors=len(fvecs), gap_vectors=len(gvecs),
             compound_forms=len(forms), compound_statement_lines=len(clines))
    tests = aslrun.corpus()
    if not tests:
        raise CheckError("golden corpus not found under %s/tests" % REPO)
    nvar = 2 if quick else 10
    r = rng("c16")
    scratch()
    jobs = []
    for ti, t in enumerate(tests):
        fv = list(fvecs)
        r.shuffle(fv)
        # make sure every file vector is used across the suite: rotate through the list
        fv = [fvecs[(ti * nvar + k) % len(fvecs)] for k in range(nvar)] if quick else fv[:nvar]
        jobs.append((bld.dir, bld.hooks, bld.flavour, t, nvar, lvecs, fv, seed(), 12 if quick else 200,
                     25 if quick else None, forms, gvecs, not quick))
    with Phase("rewrite + assemble %d tests x %d variants" % (len(tests), nvar)):
        with cf.ProcessPoolExecutor(max_workers=NCPU) as ex:
            results = list(ex.map(_work, jobs, chunksize=1))
    split_ev, pair_ev, names = [], [], []
    nrew = 0
    for res in results:
        if not res["orig_ok"]:
            # the original spelling no longer reproduces .ori: not a statement about spelling
            rep.drift("test %s: the ORIGINAL source does not reproduce its .ori image (%s); rewrites of it are "
                      "still compared with .ori" % (res["test"], res.get("orig_msg", "")))
        for v in res["variants"]:
            rep.evaluated()
            rep.distinct((res["test"], str(v["fvec"]), v["stats"]["rewritten"]), v["nontrivial"])
            nrew += v["stats"]["rewritten"]
            if v["timeout"] or v["rc"] != 0 or not v["equal"]:
                for c in v.get("causes") or [{"cls": None, "cause": "not localised", "lines": [], "rc": v["rc"],
                                              "msg": v["msg"], "files": None}]:
                    if c.get("cls") in DRIFT_CLASSES:
                        rep.drift("test %s: re-spelling the gaps of a preprocessor line (not described in the manual) "
                                  "changes the result: %s" % (res["test"], c["lines"]))
                        continue
                    what = ("test %s rewritten with %s: %s; needed for the difference: %s %s" % (
                        res["test"], {k: v["fvec"][k] for k in ("wrap", "blanklines", "crlf")},
                        "assembler rc=%s %s" % (c["rc"], c["msg"][-200:]) if c["rc"] != 0 else "image differs from .ori",
                        c["cause"], c["lines"]))
                    rep.violation(what, case={"test": res["test"], "fvec": v["fvec"], "cause": c["cause"],
                                              "cause_lines": c["lines"], "deviation": c["cls"]},
                                  files=c.get("files"), key=_key(res["test"], c))
        if res["split"]:
            split_ev.append(res["split"])
            names.append(res["test"])
        if res["pairs"]:
            pair_ev.append(res["pairs"])
    rep.traces(sum(len(x["variants"]) for x in results))
    rep.part("replay", tests=len(results), variants=nvar, lines_rewritten=nrew,
             lines_unshaped=sum(v["stats"]["unshaped"] for x in results for v in x["variants"]),
             lines_untouched=sum(v["stats"]["untouched"] for x in results for v in x["variants"]),
             macro_regions=sum(v["stats"]["regions"] for x in results for v in x["variants"]),
             colon_flips=sum(v["stats"]["colon"] for x in results for v in x["variants"]),
             compound_parameters_respelled=sum(v["stats"].get("nest", 0) for x in results for v in x["variants"]),
             tests_with_compound_parameters=sum(1 for x in results if any(v["stats"].get("nest", 0) for v in x["variants"])))
    for res in results[:2]:
        v = res["variants"][0]
        rep.sample({"test": res["test"], "file_vector": v["fvec"], "stats": v["stats"], "equal_to_ori": v["equal"]})
    # (G) compound statements x gap vectors, as TLC rendered them: same code as the single-blank spelling -----
    cnames = sorted({cl["name"] for cl in clines})
    first = {nm: next(cl for cl in clines if cl["name"] == nm) for nm in cnames}
    cjobs = [{"sources": {"a.asm": _cline_source(first[nm], "ref")}, "opts": ["-q"]} for nm in cnames]
    cjobs += [{"sources": {"a.asm": _cline_source(cl, "var")}, "opts": ["-q"]} for cl in clines]
    with Phase("compound statements: %d statements x gap vectors = %d programs" % (len(cnames), len(clines))):
        clres = aslrun.assemble_many(bld, cjobs)
    refcode = {}
    for nm, res in zip(cnames, clres):
        refcode[nm] = _code(res) if res.rc == 0 else None
        if not refcode[nm]:
            raise CheckError("the reference spelling of the compound statement %s does not assemble: %s" % (
                nm, (res.out + res.err)[-300:]))
    for cl, res in zip(clines, clres[len(cnames):]):
        rep.evaluated()
        rep.distinct(_cline_source(cl, "var"), cl["var"] != cl["ref"])
        got = _code(res) if res.rc == 0 else None
        if got != refcode[cl["name"]]:
            what = ("compound statement %r (%s): with the gaps %r between its inner fields rc=%s code %s, with single blanks "
                    "(%r) code %s; %s" % (srcline.text(cl["var"]), cl["name"], [srcline.text(x) for x in cl["g"]], res.rc,
                                          [d.hex() for (_, _, d) in got] if got else None, srcline.text(cl["ref"]),
                                          [d.hex() for (_, _, d) in refcode[cl["name"]]], (res.out + res.err)[-200:]))
            if cl["level"] != "manual":
                rep.drift(what)
            else:
                rep.violation(what, case={"test": "(generated compound statement)", "cline": cl["name"], "gaps": cl["g"],
                                          "rs": cl["rs"]},
                              files={"a.asm": _cline_source(cl, "var"), "a_ref.asm": _cline_source(cl, "ref")},
                              key={"kind": "cline", "deviation": "none"})
    rep.traces(len(cjobs))
    rep.part("compound_statements", statements=len(cnames), programs=len(clines),
             splitters=sorted({cl["rs"] for cl in clines}))
    if clines:
        rep.sample({"compound_statement": srcline.text(clines[-1]["var"]), "reference": srcline.text(clines[-1]["ref"]),
                    "same_code": True})
    # (M)+(G) body collector: wrap precondition and construct trees ---------------------------------------
    with Phase("TLC BodyCollect_MC"):
        bc = tlc.must(tlc.run("BodyCollect_MC", "BodyCollect_MC.cfg" if quick else "BodyCollect_MC6.cfg", workers=min(NCPU, 8),
                              timeout=1500, mem="8g"), "BodyCollect_MC")
    if bc.violation:
        raise CheckError("BodyCollect_MC: %s" % bc.violation[:900])
    rep.model("BodyCollect_MC", bc)
    trees = [v for (tag, v) in bc.printed if tag == "OUT" and v.get("kind") == "tree"]
    tjobs = []
    for tv in trees:
        body = "\n".join(srcline.render_tree(tv["tree"])) + "\n"
        tjobs.append({"sources": {"a.asm": "\tcpu\tz80\n" + body}, "opts": ["-q"]})
        tjobs.append({"sources": {"a.asm": "\tcpu\tz80\nvwrap\tmacro\t{GLOBALSYMBOLS}\n" + body + "\tendm\n\tvwrap\n"}, "opts": ["-q"]})
        tjobs.append({"sources": {"a.asm": "\tcpu\tz80\n\tinclude\t\"b.inc\"\n", "b.inc": body}, "opts": ["-q"]})
    with Phase("construct trees: %d programs plain / macro-wrapped / include-wrapped" % len(trees)):
        tres = aslrun.assemble_many(bld, tjobs)
    for ti, tv in enumerate(trees):
        for k, form in enumerate(("plain", "macro-wrapped", "include-wrapped")):
            res = tres[3 * ti + k]
            rep.evaluated()
            rep.distinct(repr(tjobs[3 * ti + k]["sources"]), True)
            got = [x for rec_ in res.parsed().data_records() for x in rec_.data] if res.p is not None else None
            if res.rc != 0 or got != tv["bytes"]:
                rep.violation("construct program (%s) %s: rc=%s code %s, the specification's expansion is %s; %s" % (
                    " > ".join(sorted({o for o in tv["ops"] if o in srcline.CONSTRUCT_OPS})), form, res.rc, got,
                    tv["bytes"], (res.out + res.err)[-200:]),
                    case={"test": "(generated construct tree)", "tree": tv["tree"], "form": form, "bytes": tv["bytes"]},
                    files={k2: v2 for k2, v2 in tjobs[3 * ti + k]["sources"].items()},
                    key={"kind": "tree", "deviation": "none"})
    rep.traces(len(tjobs))
    rep.part("construct_trees", trees=len(trees), programs=len(tjobs))
    if trees:
        rep.sample({"construct_tree_source": tjobs[-2]["sources"]["a.asm"], "expected_bytes": trees[-1]["bytes"]})
    # (M)+(G) SymScope: labels of the text referenced from nested expansions, plain / INCLUDE / macro-wrapped -------
    with Phase("TLC SymScope_MC (started beside the line model)"):
        sc = tlc.must(scope_fut.result(), "SymScope_MC")
    scope_pool.shutdown()
    if sc.violation:
        raise CheckError("SymScope_MC: the symbol-space model violates its invariants: %s" % sc.violation[:900])
    rep.model("SymScope_MC", sc)
    stree = [v for (tag, v) in sc.printed if tag == "OUT" and v.get("kind") == "scope"]
    if not stree:
        raise CheckError("SymScope_MC printed no programs")
    sjobs, sidx = [], []
    for si, sv in enumerate(stree):
        for form in sv["forms"]:
            sjobs.append({"sources": srcline.scope_sources(sv["tree"], form), "opts": ["-q"]})
            sidx.append((si, form))
    with Phase("scoped programs: %d programs x wrappers = %d sources" % (len(stree), len(sjobs))):
        sres = aslrun.assemble_many(bld, sjobs)
    for (si, form), job, res in zip(sidx, sjobs, sres):
        sv = stree[si]
        rep.evaluated()
        rep.distinct(repr(job["sources"]), True)
        got = [x for rec_ in res.parsed().data_records() for x in rec_.data] if res.p is not None else None
        if res.rc != 0 or got != sv["bytes"]:
            d = sv["desc"]
            what = ("scoped program (%s; label defined at expansion level %d, referenced by %s at level %d, %s, %s the nested "
                    "construct%s) %s: rc=%s code %s, the specification's code is %s; %s" % (
                        " > ".join("%s%s" % (c["k"], "" if c["g"] == "default" else " {%s}" % c["g"]) for c in d["chain"]) or
                        "no construct", d["d"], d["how"], d["r"], "behind the definition" if d["dir"] == "back" else
                        "ahead of the definition", "before" if d["pos"] == "pre" else "behind",
                        ", same name also defined at level 0" if d["shadow"] else "", form, res.rc, got, sv["bytes"],
                        (res.out + res.err)[-200:]))
            if sv["level"] != "manual":
                rep.drift(what)         # control parameters of WHILE: accepted by the code, not in the manual
            else:
                rep.violation(what, case={"test": "(generated scoped program)", "scope": d, "tree": sv["tree"], "form": form,
                                          "bytes": sv["bytes"]},
                              files=dict(job["sources"]), key={"kind": "scope", "deviation": "none"})
    rep.traces(len(sjobs))
    rep.part("scoped_programs", programs=len(stree), sources=len(sjobs),
             chains=len({repr(v["desc"]["chain"]) for v in stree}),
             max_distance=max(v["desc"]["r"] - v["desc"]["d"] for v in stree),
             wrappers=sorted({f for v in stree for f in v["forms"]}))
    if stree:
        rep.sample({"scoped_program_source": sjobs[-1]["sources"]["a.asm"], "wrapper": sidx[-1][1],
                    "expected_bytes": stree[-1]["bytes"]})
    wraps = [w for res in results for w in res.get("wraps", []) if w]
    if wraps:
        wv = tracecheck.validate("BodyCollect_Trace", [[{"a": "WRAP", "ops": w}] for w in wraps], timeout=900)
        rep.cov["states"] += wv.states
        rep.cov["transitions"] += wv.generated
        rep.part("BodyCollect_Trace", wrapped_regions=len(wraps), accepted=wv.accepted,
                 regions_with_constructs=sum(1 for w in wraps if any(o in srcline.CONSTRUCT_OPS for o in w)),
                 longest=max(map(len, wraps)))
        if not wv.accepted:
            rep.drift("a wrapped region does not meet BodyCollect.Wrappable: %s" % wv.fail_event.get("ops")[:60])
    lwraps = [(x["test"], w, x.get("runops", [])) for x in results for w in x.get("localwraps", []) if w]
    if lwraps:
        lv = tracecheck.validate("BodyCollect_Trace", [[{"a": "WRAPLOCAL", "ops": w, "run": ro}] for (_, w, ro) in lwraps],
                                 timeout=900)
        rep.cov["states"] += lv.states
        rep.cov["transitions"] += lv.generated
        rep.part("BodyCollect_Trace(local)", whole_files_in_plain_macro=len(lwraps), accepted=lv.accepted,
                 tests=sorted(t_ for (t_, _, _) in lwraps)[:80])
        if not lv.accepted:
            rep.drift("a whole-file plain-macro wrap does not meet BodyCollect.LocalWrappable: %s" % str(lv.fail_event)[:200])
    rep.part("systematic_wraps", sources_with_constructs=sum(1 for x in results if x.get("constructs")),
             whole_file_plain_macro_wraps=len(lwraps))
    # (M)+(G) the line reader: continuation chains x line ends ------------------------------------------
    with Phase("TLC SourceLine_RL"):
        rl = tlc.must(tlc.run("SourceLine_RL", "SourceLine_RL.cfg" if quick else "SourceLine_RL4.cfg", workers=min(NCPU, 8),
                              timeout=1200, mem="8g", collect=False), "SourceLine_RL")
    if rl.violation:
        raise CheckError("SourceLine_RL: the reader model violates its invariants: %s" % rl.violation[:900])
    rep.model("SourceLine_RL", rl)
    rlg = tlc.must(tlc.run("SourceLine_RL", "SourceLine_RLGen.cfg", workers=1, timeout=900, mem="8g"), "SourceLine_RL(gen)")
    if rlg.violation:
        raise CheckError("SourceLine_RL(gen): %s" % rlg.violation[:600])
    rep.model("SourceLine_RL(gen)", rlg)
    chains = [v["chain"] for (tag, v) in rlg.printed if tag == "OUT" and v.get("kind") == "chain"]
    multi = [c for c in chains if len(c) >= 2]
    r.shuffle(multi)
    multi = multi[:(240 if quick else 6000)]
    groups = [multi[i:i + 6] for i in range(0, len(multi), 6)]
    with Phase("continuation chains: %d chains in %d sources, CR-LF/mixed vs LF spelling" % (len(multi), len(groups))):
        with cf.ProcessPoolExecutor(max_workers=NCPU) as ex:
            cres = list(ex.map(_chain_job, [(bld.dir, bld.hooks, bld.flavour, g) for g in groups], chunksize=4))
    file_ev = []
    for g, cr in zip(groups, cres):
        rep.evaluated()
        rep.distinct(cr["var"], cr["var"] != cr["ref"])
        if not cr["same"]:
            rep.violation("a source with backslash continuations assembles differently with CR-LF / mixed line ends "
                          "than with LF line ends (rc %s vs %s): %s" % (cr["rc_var"], cr["rc_ref"], cr["msg"][-200:]),
                          case={"test": "(generated continuation chains)", "chains": g},
                          files={"a.asm": cr["var"], "a_lf.asm": cr["ref"]}, key={"kind": "chain", "deviation": "none"})
        if cr["lines"] is not None and (not quick or len(file_ev) < 25):
            file_ev.append([{"a": "FILE", "data": list(cr["var"]), "lines": [srcline.codes(x) for x in cr["lines"]]}])
    rep.traces(len(groups))
    rep.part("chains", chains=len(multi), sources=len(groups), enumerated=len(chains))
    if groups:
        rep.sample({"continuation_source": cres[0]["var"].decode("latin-1"), "same_code_as_lf_spelling": cres[0]["same"]})
    # (V) -------------------------------------------------------------------------------------------
    if bld.hooks and split_ev:
        execs = split_ev + pair_ev + file_ev
        nsp, npa = sum(map(len, split_ev)), sum(map(len, pair_ev))
        rejected = 0
        with Phase("SourceLine_Trace: %d split + %d pair events" % (nsp, npa)):
            while True:
                v = tracecheck.validate("SourceLine_Trace", execs, timeout=1700, mem="8g")
                rep.cov["states"] += v.states
                rep.cov["transitions"] += v.generated
                if v.accepted or rejected >= 5:
                    break
                rejected += 1
                e = v.fail_event
                if e.get("a") == "FILE":
                    rep.drift("SourceLine_Trace rejects a FILE event: the assembler delivered %r for the file %r" % (
                        [srcline.text(x) for x in e["lines"]], srcline.text(e["data"])))
                else:
                    rep.drift("SourceLine_Trace rejects a %s event: raw=%r orig=%r params=%r logged lab=%r op=%r attr=%r args=%r" % (
                        e.get("a"), srcline.text(e.get("raw", [])), srcline.text(e.get("orig", [])), e.get("p"),
                        srcline.text(e.get("lab", [])), srcline.text(e.get("op", [])), srcline.text(e.get("attr", [])),
                        [srcline.text(a) for a in e.get("args", [])]))
                # go on behind the rejected event
                execs = [list(x) for x in execs]
                execs = [execs[v.fail_exec][v.fail_index + 1:]] + execs[v.fail_exec + 1:]
        rep.part("SourceLine_Trace", file_events=len(file_ev), events=nsp + npa, executions=len(split_ev) + len(pair_ev), accepted=rejected == 0,
                 rejected_events=rejected, split_events=nsp, pair_events=npa,
                 distinct_lines_in_corpus=sum(x["nlines"] for x in results), wall_s=v.wall)
        rep.traces(len(split_ev) + len(pair_ev))
        if rejected:
            pass
        elif pair_ev:
            rep.sample({"pair_validated": {"orig": srcline.text(pair_ev[0][0]["orig"]),
                                           "rewritten": srcline.text(pair_ev[0][0]["raw"])}})
    return rep.finish(
        rule="programs = every golden source x N rewritten variants (N=2 quick, 10 thorough); per physical line a "
             "seed-chosen vector from the 22680 rendering choices TLC enumerates for SourceLine.tla's Render, per file "
             "one of the 18 file vectors (wrap none/include/macro x blank lines x LF/CRLF/mixed), per statement with a "
             "compound parameter one of the gap vectors of SourceLine_Nest; plus every generated compound statement x "
             "gap vector (code = code of the single-blank spelling); plus every scoped program of SymScope_MC (label "
             "referenced from nested expansions) x wrapper, code = the code TLC computed; plus the whole main file in a "
             "plain macro for the sources BodyCollect.LocalWrappable admits; distinct = "
             "(test, file vector, number of rewritten lines); non-trivial = at least one line or the file was changed",
        exhaustive=False)


def replay(path):
    import json
    v = json.load(open(os.path.join(path, "violation.json")))
    bld = build.get("hook")
    case = v["case"]
    if "scope" in case:
        srcs = {f: open(os.path.join(path, f)).read() for f in os.listdir(path) if f.endswith((".asm", ".inc"))}
        a = aslrun.assemble(bld, srcs, opts=["-q"])
        got = [x for rec_ in a.parsed().data_records() for x in rec_.data] if a.p is not None else None
        log("replay (%s): rc=%s code %s, specification expects %s\n%s" % (case["form"], a.rc, got, case["bytes"], a.out + a.err))
        log("recorded: %s" % v["what"])
        return 0
    if "tree" in case:
        srcs = {f: open(os.path.join(path, f)).read() for f in os.listdir(path) if f.endswith((".asm", ".inc"))}
        a = aslrun.assemble(bld, srcs, opts=["-q"])
        got = [x for rec_ in a.parsed().data_records() for x in rec_.data] if a.p is not None else None
        log("replay: rc=%s code %s, specification expects %s\n%s" % (a.rc, got, case["bytes"], a.out + a.err))
        log("recorded: %s" % v["what"])
        return 0
    if "cline" in case:
        a = aslrun.assemble(bld, {"a.asm": open(os.path.join(path, "a.asm"), "rb").read()}, opts=["-q"])
        b = aslrun.assemble(bld, {"a.asm": open(os.path.join(path, "a_ref.asm"), "rb").read()}, opts=["-q"])
        log("replay: re-spelled gaps rc=%s code %s; single blanks rc=%s code %s\n%s" % (
            a.rc, _code(a), b.rc, _code(b), a.out + a.err))
        log("recorded: %s" % v["what"])
        return 0
    if "chains" in case:
        a = aslrun.assemble(bld, {"a.asm": open(os.path.join(path, "a.asm"), "rb").read()}, opts=["-q"])
        b = aslrun.assemble(bld, {"a.asm": open(os.path.join(path, "a_lf.asm"), "rb").read()}, opts=["-q"])
        log("replay: CR-LF/mixed spelling rc=%s, LF spelling rc=%s, same code file: %s\n%s" % (
            a.rc, b.rc, a.p is not None and b.p is not None and
            [bytes(x.data) for x in a.parsed().data_records()] == [bytes(x.data) for x in b.parsed().data_records()],
            a.out + a.err))
        log("recorded: %s" % v["what"])
        return 0
    t = [x for x in aslrun.corpus() if x[0] == case["test"]][0]
    name = t[0]
    main_b = open(os.path.join(path, name + ".asm"), "rb").read()
    extra = {}
    inc = os.path.join(path, name + "_body.inc")
    if os.path.exists(inc):
        extra[name + "_body.inc"] = open(inc, "rb").read()
    res = _assemble_variant(bld, t, main_b, extra)
    ori = open(os.path.join(t[1], name + ".ori"), "rb").read()
    log("replay: rc=%s image equal to .ori: %s\n%s" % (res["rc"], res["img"] == ori, res["msg"]))
    log("recorded: %s" % v["what"])
    return 0


def selftest(tier):
    """binding demonstration: recorded split events are accepted, the same events with one field changed are
    rejected.  (Source mutations: selftest/C16-m*.py with selftest/mutate_and_check.sh.)"""
    import copy
    bld = build.get("hook")
    src = "\tcpu\t68000\nlab:\tmove.w\t#\"a;b\",d0\t; comment\nl2\tdc.b\t1 , 2,\t'x'\n"
    r = aslrun.assemble(bld, {"a.asm": src}, opts=["-q"], events="file,stmt,split")
    recs = [x for x in srcline.split_records(r.trace, 1)]
    ev = [srcline.trace_event(x) for x in recs]
    a = copy.deepcopy(ev)
    a[1]["op"] = a[1]["op"][:-1]
    b = copy.deepcopy(ev)
    b[2]["args"] = b[2]["args"][:-1]
    c = copy.deepcopy(ev)
    c[1]["raw"] = [ch for ch in c[1]["raw"] if ch != 34]          # without the quotes the ; starts the comment
    ok = True
    for name, e, want in (("unchanged", ev, True), ("mnemonic shortened", a, False), ("argument dropped", b, False),
                          ("quotes removed from the line", c, False)):
        v = tracecheck.validate("SourceLine_Trace", [e])
        log("selftest %-32s %s" % (name, "accepted" if v.accepted else "rejected"))
        ok = ok and (v.accepted == want)
    log("selftest C16 binding: %s" % ("OK" if ok else "FAILED"))
    return 0 if ok else 1
